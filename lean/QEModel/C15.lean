/-
  QEModel.C15 — approximate solvers deliver the accuracy they report.
  Mirrors
    quantecon/_compute_fp.py
        compute_fixed_point 105-156  (argument checks, the plain iteration, the warning),
        _is_approx_fp 42-44, _compute_fixed_point_ig 190-282 (imitation-game state machine,
        the X/Y buffers of 215-253 as an explicit capacity + contents), _initialize_tableaux_ig
        314-353, _square_sum_array 369-372;
    quantecon/game_theory/lemke_howson.py  _lemke_howson_tbl 377-418, _get_mixed_actions 444-459
        (on top of QEModel.Pivot = optimize/pivoting.py), for the square imitation game;
    quantecon/game_theory/mclennan_tourky.py  mclennan_tourky 107-136, _best_response_selection
        178-200, _is_epsilon_nash 227-233, _get_action_profile, _flatten_action_profile;
    quantecon/game_theory/normal_form_game.py  Player.payoff_vector 252-274 (mixed opponents),
        is_best_response 303-309, best_response 362-372 ('smallest'), NormalFormGame.is_nash 809-832.

  Points are `List α`; the map `T`, the predicate `is_approx_fp` and the rule producing the next
  point from the stored history are *parameters* of the loops, so that the same loop definitions
  run (a) with the real rule (Lemke–Howson on the imitation game, convex combination of images),
  (b) replaying the points the code visited, and are reasoned about for every `T`.
-/
import QEModel.Base
import QEModel.Pivot
import QEModel.C05
namespace QE.C15
open QE QE.Pivot
open QE.C05 (LHState lhStep lhLoop basicSum basicVal mixedOf)

section generic
variable {α : Type} [Zero α] [One α] [Add α] [Sub α] [Mul α] [Div α] [Neg α] [LT α] [LE α]
  [DecidableLT α] [DecidableLE α] [BEq α]

/-! ### sup-norm distance: `np.max(np.abs(a - b))` -/

def absv (x : α) : α := if x < 0 then -x else x

def maxOf (l : List α) : α := l.foldl (fun acc v => if acc < v then v else acc) 0

/-- `np.max(np.abs(a - b))` for two vectors of the same length (all terms are `≥ 0`) -/
def maxAbsDiff (a b : List α) : α := maxOf (List.zipWith (fun x y => absv (x - y)) a b)

/-! ### compute_fixed_point, method='iteration' (lines 123-156) -/

structure IterOut (V α : Type) where
  v : V
  error : α
  iterate : Nat

/-- the `while True` loop of lines 129-140. `fuel = max_iter - iterate - 1` is the number of
    further passes the test `iterate >= max_iter` allows after this one; `it` is `iterate`
    on entry. The value returned is the **new** iterate `T v`, the error `‖T v − v‖`. -/
def fpIterLoop {V : Type} (T : V → V) (err : V → V → α) (tol : α) : Nat → V → Nat → IterOut V α
  | 0, v, it => ⟨T v, err (T v) v, it + 1⟩
  | fuel + 1, v, it =>
    if err (T v) v ≤ tol then ⟨T v, err (T v) v, it + 1⟩
    else fpIterLoop T err tol fuel (T v) (it + 1)

/-- `compute_fixed_point(T, v, error_tol, max_iter, method='iteration')` for `max_iter ≥ 1` -/
def fpIterate {V : Type} (T : V → V) (err : V → V → α) (tol : α) (maxIter : Nat) (v : V) :
    IterOut V α :=
  fpIterLoop T err tol (maxIter - 1) v 0

/-- line 151: the non-convergence `RuntimeWarning` is issued iff `error > error_tol` -/
def iterWarn {V : Type} (tol : α) (o : IterOut V α) : Bool := decide (tol < o.error)

/-- `_is_approx_fp(T, v, error_tol)` -/
def isApproxFp (T : List α → List α) (tol : α) (v : List α) : Bool :=
  decide (maxAbsDiff (T v) v ≤ tol)

/-! ### _compute_fixed_point_ig (lines 190-282) -/

structure IGOut (V : Type) where
  x : V
  converged : Bool
  iterate : Nat

/-- the `while True` loop of lines 227-269. `X`, `Y` are the stored sequences `X[:iterate]`,
    `Y[:iterate]`, `x` is `x_new`, `it` is `iterate` on entry; `next X Y` is lines 255-269
    (tableaux, Lemke–Howson, `rho.dot(Y[:m])`). `fuel` bounds the number of passes
    (`max_iter - iterate` suffices, see `igLoop_iterate_le`). -/
def igLoop {V : Type} (T : V → V) (isFp : V → Bool) (next : List V → List V → V) (maxIter : Nat) :
    Nat → List V → List V → V → Nat → IGOut V
  | 0, _, _, x, it => ⟨x, isFp x, it + 1⟩
  | fuel + 1, X, Y, x, it =>
    if isFp x ∨ it + 1 ≥ maxIter then ⟨x, isFp x, it + 1⟩
    else igLoop T isFp next maxIter fuel (X ++ [x]) (Y ++ [T x]) (next (X ++ [x]) (Y ++ [T x])) (it + 1)

/-- `_compute_fixed_point_ig(T, v, max_iter, verbose, print_skip, is_approx_fp)`; returns
    `(x_new, converged, iterate)`. Lines 190-206 (first evaluation, early return), 220-221
    (`X[0], Y[0] = v, T(v)`, `x_new = Y[0]`), then the loop. -/
def fixedPointIG {V : Type} (T : V → V) (isFp : V → Bool) (next : List V → List V → V)
    (maxIter : Nat) (v : V) : IGOut V :=
  if isFp v ∨ 1 ≥ maxIter then ⟨v, isFp v, 1⟩
  else igLoop T isFp next maxIter (maxIter - 1) [v] [T v] (T v) 1

/-! ### the X / Y buffers (lines 215-221, 240-253)

`np.empty` contents are modelled by an arbitrary filler `junk`; a buffer is its capacity-many
rows. Writing at an index `≥ capacity` raises `IndexError`, upon which the capacity becomes
`min(max_iter, 2*capacity)`, the old rows are copied and the write is repeated. -/

structure Buf (V : Type) where
  rows : List V

def Buf.cap {V : Type} (b : Buf V) : Nat := b.rows.length

/-- `np.empty((size,) + shape)` -/
def Buf.empty {V : Type} (junk : V) (size : Nat) : Buf V := ⟨List.replicate size junk⟩

/-- lines 240-249 for one of the two arrays: `B[i] = v`, growing on `IndexError` -/
def Buf.write {V : Type} (junk : V) (maxIter : Nat) (b : Buf V) (i : Nat) (v : V) : Buf V :=
  if i < b.cap then ⟨b.rows.set i v⟩
  else
    let size := min maxIter (b.cap * 2)
    -- X[:X_tmp.shape[0]] = X_tmp ; then the write (which must now succeed)
    ⟨((b.rows ++ List.replicate (size - b.cap) junk).set i v)⟩

/-- `B[:m]` -/
def Buf.take {V : Type} (b : Buf V) (m : Nat) : List V := b.rows.take m

/-- the loop of lines 227-269 on explicit buffers -/
def igLoopBuf {V : Type} (junk : V) (T : V → V) (isFp : V → Bool) (next : List V → List V → V)
    (maxIter : Nat) : Nat → Buf V → Buf V → V → Nat → IGOut V
  | 0, _, _, x, it => ⟨x, isFp x, it + 1⟩
  | fuel + 1, X, Y, x, it =>
    if isFp x ∨ it + 1 ≥ maxIter then ⟨x, isFp x, it + 1⟩
    else
      let X' := X.write junk maxIter it x
      let Y' := Y.write junk maxIter it (T x)
      igLoopBuf junk T isFp next maxIter fuel X' Y' (next (X'.take (it + 1)) (Y'.take (it + 1))) (it + 1)

/-- `_compute_fixed_point_ig` with the buffers of the code: initial capacity
    `min(max_iter, buff0)` (`buff0 = 2**8` in the code) -/
def fixedPointIGBuf {V : Type} (junk : V) (buff0 : Nat) (T : V → V) (isFp : V → Bool)
    (next : List V → List V → V) (maxIter : Nat) (v : V) : IGOut V :=
  if isFp v ∨ 1 ≥ maxIter then ⟨v, isFp v, 1⟩
  else
    let size := min maxIter buff0
    let X := (Buf.empty junk size).write junk maxIter 0 v
    let Y := (Buf.empty junk size).write junk maxIter 0 (T v)
    igLoopBuf junk T isFp next maxIter (maxIter - 1) X Y (T v) 1

/-! ### the imitation game: _initialize_tableaux_ig, Lemke–Howson, rho -/

/-- `_square_sum(X[i] - Y[j])` : `sum_ = 0; for x in d.flat: sum_ += x**2` -/
def sqSum (a b : List α) : α :=
  (List.zipWith (fun x y => x - y) a b).foldl (fun s d => s + d * d) 0

/-- mover's tableau (lines 318-325): `[I | I | 1]` -/
def igT0 (m : Nat) : M α :=
  M.tab m (2 * m + 1) fun i j => if j = i ∨ j = i + m then 1 else if j = 2 * m then 1 else 0

/-- imitator's tableau (lines 328-347): `[I | -‖X_i − Y_j‖² − min_j + 1 | 1]`, `min_j` the
    minimum over `i` of column `j` (and of the initial `0`) -/
def igT1 (m : Nat) (X Y : List (List α)) : M α :=
  let pay : M α := M.tab m m fun i j => sqSum (X.getD i []) (Y.getD j []) * (-(1 : α))
  let mins : Array α := Array.ofFn (n := m) fun j =>
    (List.range m).foldl (fun mn i => if pay.get i j.1 < mn then pay.get i j.1 else mn) 0
  M.tab m (2 * m + 1) fun i j =>
    if j < m then (if j = i then 1 else 0)
    else if j < 2 * m then (pay.get i (j - m) - mins.getD (j - m) 0) + 1
    else 1

/-- lines 349-351: `bases = (m..2m-1, 0..m-1)` -/
def igInit (m : Nat) (X Y : List (List α)) (pivot : Nat) : LHState α :=
  ⟨igT0 m, igT1 m X Y, (List.range m).map (· + m), List.range m, pivot, 0, 0, 0⟩

/-- `_lemke_howson_tbl(tableaux_curr, bases_curr, init_pivot=m-1, max_iter=max_piv)` on the
    imitation game of the history `(X, Y)` -/
def igLH (X Y : List (List α)) (maxPiv : Nat) (tp td : α) : Bool × LHState α :=
  let m := X.length
  let s0 : LHState α := igInit m X Y (m - 1)
  let initPlayer := if s0.b0.contains (m - 1) then 1 else 0
  lhLoop m (m - 1) tp td (maxPiv - 1) s0 initPlayer

/-- `_, rho = _get_mixed_actions(tableaux_curr, bases_curr)` -/
def igRho (X Y : List (List α)) (maxPiv : Nat) (tp td : α) : List α :=
  let m := X.length
  let s := (igLH X Y maxPiv tp td).2
  mixedOf s.T1 s.b1 m (2 * m)

/-- `rho.dot(Y[:m])` : component `k` is `Σ_j rho_j * Y[j][k]`, accumulated in the order of `j` -/
def dotRows (rho : List α) (Y : List (List α)) : List α :=
  (List.range (Y.headD []).length).map fun k =>
    (List.zipWith (fun r y => r * y.getD k 0) rho Y).foldl (fun acc t => acc + t) 0

/-- lines 255-269 with an arbitrary rule `lh` producing `rho` from the history -/
def igNextWith (lh : List (List α) → List (List α) → List α) (X Y : List (List α)) : List α :=
  dotRows (lh X Y) Y

/-- lines 255-269 -/
def igNext (maxPiv : Nat) (tp td : α) (X Y : List (List α)) : List α :=
  igNextWith (fun X Y => igRho X Y maxPiv tp td) X Y

/-! ### N-player games: payoff vectors against mixed opponents, ε-Nash, best-response selection

`nums` = numbers of actions; `pays.getD i []` = player `i`'s payoff array, C-order flattened,
axes `(a_i, a_{i+1}, …, a_{N-1}, a_0, …, a_{i-1})`; a profile is a list of `N` mixed actions;
a flattened profile `x` has `x[indptr[i]:indptr[i+1]]` = player `i`'s mixed action. -/

/-- `l[i:] + l[:i]` -/
def rot {β : Type} (l : List β) (i : Nat) : List β := l.drop i ++ l.take i

/-- `payoff_array.dot(action)` over the last axis, of length `k` -/
def reduceLast (arr : List α) (k : Nat) (act : List α) : List α :=
  (List.range (arr.length / k)).map fun t =>
    (List.range k).foldl (fun acc b => acc + arr.getD (t * k + b) 0 * act.getD b 0) 0

/-- `players[i].payoff_vector(opponents_actions)` with
    `opponents_actions = profile[i+1:] + profile[:i]`, all mixed: the axes are reduced from the
    last one (lines 267-270) -/
def payoffVector (nums : List Nat) (pay : List α) (i : Nat) (prof : List (List α)) : List α :=
  ((List.zip (rot nums i).tail (rot prof i).tail).reverse).foldl
    (fun arr p => reduceLast arr p.1 p.2) pay

/-- `payoff_vector.max()` -/
def vecMax (v : List α) : α := v.tail.foldl (fun acc x => if acc < x then x else acc) (v.headD 0)

/-- `np.dot(own_action, payoff_vector)` -/
def dot (a b : List α) : α := (List.zipWith (fun x y => x * y) a b).foldl (fun acc t => acc + t) 0

/-- `is_best_response(own_action, opponents_actions, tol)` for a mixed own action, given the
    payoff vector: `np.dot(own, pv) >= pv.max() - tol` -/
def isBestResponse (tol : α) (own pv : List α) : Bool := decide (vecMax pv - tol ≤ dot own pv)

/-- `g.is_nash(action_profile, tol)` for a profile of mixed actions, `N ≥ 2` -/
def isNashTol (nums : List Nat) (pays : List (List α)) (tol : α) (prof : List (List α)) : Bool :=
  (List.range nums.length).all fun i =>
    isBestResponse tol (prof.getD i []) (payoffVector nums (pays.getD i []) i prof)

/-- `indptr[i]` -/
def indptr (nums : List Nat) (i : Nat) : Nat := (nums.take i).foldl (· + ·) 0

/-- `_get_action_profile(x, indptr)` -/
def unflatten (nums : List Nat) (x : List α) : List (List α) :=
  (List.range nums.length).map fun i => (x.drop (indptr nums i)).take (nums.getD i 0)

/-- `_is_epsilon_nash(x, g, epsilon, indptr)` -/
def isEpsNash (nums : List Nat) (pays : List (List α)) (eps : α) (x : List α) : Bool :=
  isNashTol nums pays eps (unflatten nums x)

/-- `best_response(…, tie_breaking='smallest', tol)`: the first action whose payoff is
    `>= max - tol` (`np.where(pv >= pv.max() - tol)[0][0]`) -/
def bestResponse (tol : α) (pv : List α) : Nat :=
  let mx := vecMax pv
  pv.findIdx fun p => decide (mx - tol ≤ p)

/-- `pure2mixed(n, a)` -/
def pure2mixed (n a : Nat) : List α := (List.range n).map fun k => if k = a then 1 else 0

/-- `_best_response_selection(x, g, indptr)` : flattened profile of the pure best responses -/
def brSelection (nums : List Nat) (pays : List (List α)) (tolBR : α) (x : List α) : List α :=
  let prof := unflatten nums x
  ((List.range nums.length).map fun i =>
    pure2mixed (nums.getD i 0) (bestResponse tolBR (payoffVector nums (pays.getD i []) i prof))).flatten

/-- `_flatten_action_profile(init, indptr)` for `init[i]` either a pure action (`Sum.inl a`)
    or a mixed action -/
def flattenInit (nums : List Nat) (init : List (Sum Nat (List α))) : List α :=
  ((List.range nums.length).map fun i =>
    match init.getD i (Sum.inl 0) with
    | Sum.inl a => pure2mixed (nums.getD i 0) a
    | Sum.inr v => v).flatten

/-- the argument forms an entry of `init` can take, as `_flatten_action_profile` distinguishes them
    (lines 288-294): anything that is a `numbers.Integral` is a pure action — Python `int`, every
    NumPy integer scalar (also the elements of an integer `ndarray`), Python `bool`; everything else
    is assigned to the block as it is (`out[lo:hi] = entry`): vectors element-wise, scalars, 0-d
    arrays and `np.bool_` by broadcasting. -/
inductive InitEntry (α : Type) where
  | pyInt (k : Nat)
  | npInt (k : Nat)
  | pyBool (b : Bool)
  | npBool (b : Bool)
  | zeroD (x : α)
  | scalar (x : α)
  | vec (v : List α)

/-- `_flatten_action_profile(init, indptr)` on tagged argument forms. A Python `bool` is an
    `Integral`; `pure2mixed(n, True)` then indexes `zeros(n)` with a *boolean*, which NumPy reads as a
    mask: `True` sets every entry to 1, `False` none. -/
def flattenInitForms (nums : List Nat) (init : List (InitEntry α)) : List α :=
  ((List.range nums.length).map fun i =>
    let n := nums.getD i 0
    match init.getD i (InitEntry.pyInt 0) with
    | .pyInt a => pure2mixed n a
    | .npInt a => pure2mixed n a
    | .pyBool b => List.replicate n (if b then 1 else 0)
    | .npBool b => List.replicate n (if b then 1 else 0)
    | .zeroD x => List.replicate n x
    | .scalar x => List.replicate n x
    | .vec v => v).flatten

/-- `mclennan_tourky(g, init, epsilon, max_iter, full_output=True)` after the argument checks:
    `(x_star, converged, num_iter)`; `tolBR` is the players' default `tol` (1e-8) used by
    `best_response`, `next` lines 255-269 of `_compute_fp.py`. -/
def mclennanTourky (nums : List Nat) (pays : List (List α)) (eps tolBR : α)
    (next : List (List α) → List (List α) → List α) (maxIter : Nat) (x0 : List α) : IGOut (List α) :=
  fixedPointIG (brSelection nums pays tolBR) (isEpsNash nums pays eps) next maxIter x0

/-! ### polym_lcp_solver (quantecon/game_theory/howson_lcp.py 83-206): Howson's LCP

A polymatrix game is `nums` (numbers of actions) and `A p p2 a b` = `polymatrix[(p, p2)][a, b]`
(read only for `p ≠ p2` below the dimensions). `ta = Σ nums`, `n = ta + N`. Variables:
column `k < n` is `w_k`, column `n + k` is `z_k` (`z = (x, v)`), column `2n` the right-hand side. -/

/-- `(player, action)` of the flat action index `i` -/
def locate : List Nat → Nat → Nat → Nat × Nat
  | [], i, p => (p, i)
  | k :: ks, i, p => if i < k then (p, i) else locate ks (i - k) (p + 1)

/-- `payoff_vector.min()`-style running minimum -/
def vecMin (v : List α) : α := v.tail.foldl (fun acc x => if x < acc then x else acc) (v.headD 0)

/-- `PolymatrixGame.range_of_payoffs()` over the flattened head-to-head matrices:
    `(min over all entries, max over all entries)` -/
def hRange (entries : List α) : α × α :=
  (vecMin entries, entries.tail.foldl (fun acc x => if acc < x then x else acc) (entries.headD 0))

/-- `range_of_payoffs()[1] + LOW_AVOIDER` over the flattened matrices -/
def hPcm (entries : List α) : α :=
  entries.tail.foldl (fun acc x => if acc < x then x else acc) (entries.headD 0) + (1 + 1)

/-- the LCP matrix `M` of lines 87-110, entry `(i, j)`, `i, j < n` -/
def hM (nums : List Nat) (A : Nat → Nat → Nat → Nat → α) (pcm : α) (ta : Nat) (i j : Nat) : α :=
  if i < ta then
    let pa := locate nums i 0
    if j < ta then
      let qb := locate nums j 0
      if qb.1 = pa.1 then 0 else pcm - A pa.1 qb.1 pa.2 qb.2
    else -(if j - ta = pa.1 then 1 else 0)
  else
    if j < ta then (if (locate nums j 0).1 = i - ta then 1 else 0) else 0

/-- lines 114-118: `tableau = [I | -M | q]`, `q = (0,…,0,-1,…,-1)` -/
def hTableau (nums : List Nat) (A : Nat → Nat → Nat → Nat → α) (pcm : α) : M α :=
  let ta := nums.foldl (· + ·) 0
  let n := ta + nums.length
  M.tab n (2 * n + 1) fun i j =>
    if j < n then (if i = j then 1 else 0)
    else if j < 2 * n then -(hM nums A pcm ta i (j - n))
    else (if i < ta then 0 else -(1 : α))

structure HState (α : Type) where
  T : M α
  basis : List Nat
  numIter : Nat
  p : Int
  retro : Bool
  converging : Bool
  /-- trace of the pivots `(column, row)` made in the main loop, latest first -/
  trace : List (Nat × Nat)
  /-- ghost: every ratio test so far has found a unique row (the code ignores this flag) and every
      entering column was a variable column -/
  allFound : Bool
  /-- ghost counters: back-tracking steps; retro starts entering `finishing_x`; entering
      `finishing_y`; retro starts at which `finishing_y` is basic but not in its original row -/
  nBack : Nat
  nRetroX : Nat
  nRetroY : Nat
  nMoved : Nat
  /-- ghost: a back-tracking step was taken at level `p ≤ 0` (the level index became negative) -/
  negP : Bool
  /-- `p` left the range of Python's negative indexing (`IndexError`) -/
  err : Bool
  outOfFuel : Bool

/-- lines 137-143: the `N` initial pivots bringing `x_{p, start_p}` into row `ta + p` -/
def hInit (nums start : List Nat) (T0 : M α) : M α × List Nat :=
  let ta := nums.foldl (· + ·) 0
  let n := ta + nums.length
  (List.range nums.length).foldl (fun (s : M α × List Nat) pl =>
    let row := ta + pl
    let col := n + indptr nums pl + start.getD pl 0
    (pivot s.1 col row, s.2.set row col)) (T0, List.range n)

/-- Python's `l[p]`-style index for `-N ≤ p < N` -/
def pyIdx (N : Nat) (p : Int) : Nat := if p < 0 then (p + N).toNat else p.toNat

/-- the two nested loops of lines 151-192, flattened: `pc = none` at the head of the outer
    `while`, `some pivcol` inside the inner `while True`. -/
def hRun (nums start : List Nat) (maxIter : Int) (tp td : α) :
    Nat → HState α → Option Nat → HState α
  | 0, st, _ => { st with outOfFuel := true }
  | fuel + 1, st, none =>
    let N := nums.length
    let ta := nums.foldl (· + ·) 0
    let n := ta + N
    if st.p < N ∧ st.converging then
      if st.p < -(N : Int) then { st with err := true }
      else
        let pi := pyIdx N st.p
        let fv := ta + n + pi            -- Python: sum(nums) + n + p  (p itself, may be negative)
        let fx := n + indptr nums pi + start.getD pi 0
        let fy := fx - n
        if st.p < 0 then
          -- `finishing_v = ta + n + p` with a negative `p` is a different column: mirror it
          let fvInt : Int := (ta : Int) + n + st.p
          let pivcol := if ¬ st.retro then fvInt.toNat else if st.basis.contains fy then fx else fy
          hRun nums start maxIter tp td fuel { st with retro := false } (some pivcol)
        else
          let inB := st.basis.contains fy
          let pivcol := if ¬ st.retro then fv else if inB then fx else fy
          let st1 := if st.retro then
            { st with nRetroX := st.nRetroX + (if inB then 1 else 0),
                      nRetroY := st.nRetroY + (if inB then 0 else 1),
                      nMoved := st.nMoved + (if inB ∧ st.basis.getD fy 0 ≠ fy then 1 else 0) }
            else st
          hRun nums start maxIter tp td fuel { st1 with retro := false } (some pivcol)
    else st
  | fuel + 1, st, some pivcol =>
    let N := nums.length
    let ta := nums.foldl (· + ·) 0
    let n := ta + N
    if (st.numIter : Int) = maxIter then
      hRun nums start maxIter tp td fuel { st with converging := false } none
    else
      let pi := pyIdx N st.p
      let fvInt : Int := (ta : Int) + n + st.p
      let fx := n + indptr nums pi + start.getD pi 0
      let fy := fx - n
      let res := lexMinRatio st.T pivcol 0 tp td
      let r := res.2
      let leaving := st.basis.getD r 0
      let st1 : HState α :=
        { st with T := pivot st.T pivcol r, basis := st.basis.set r pivcol, numIter := st.numIter + 1,
                  trace := (pivcol, r) :: st.trace,
                  allFound := st.allFound && res.1 && decide (pivcol < 2 * n) }
      if leaving = fx ∨ leaving = fy then
        hRun nums start maxIter tp td fuel { st1 with p := st.p + 1 } none
      else if (leaving : Int) = fvInt then
        let st2 : HState α := { st1 with p := st.p - 1, retro := true, nBack := st.nBack + 1 }
        hRun nums start maxIter tp td fuel { st2 with negP := (st.negP || decide (st.p ≤ 0)) } none
      else if leaving < n then hRun nums start maxIter tp td fuel st1 (some (leaving + n))
      else hRun nums start maxIter tp td fuel st1 (some (leaving - n))

/-- `_get_solution(tableau, basis, z)`: `z[k]`, the basic value of `z_k` (0 when non-basic) -/
def hZ (T : M α) (basis : List Nat) (n k : Nat) : α :=
  (List.range n).foldl (fun acc i => if basis.getD i 0 = k + n then T.get i (T.nc - 1) else acc) 0

/-- `polym_lcp_solver(polymg, starting_player_actions, max_iter, full_output=True)`:
    final state; the profile is `hNE` of it -/
def polymLcp (nums start : List Nat) (A : Nat → Nat → Nat → Nat → α) (pcm : α) (maxIter : Int)
    (tp td : α) (fuel : Nat) : HState α :=
  let i0 := hInit nums start (hTableau nums A pcm)
  hRun nums start maxIter tp td fuel
    ⟨i0.1, i0.2, 0, 0, false, true, [], true, 0, 0, 0, 0, false, false, false⟩ none

/-- `NE`: the `x` part of `z`, flattened -/
def hNE (nums : List Nat) (st : HState α) : List α :=
  let ta := nums.foldl (· + ·) 0
  let n := ta + nums.length
  (List.range ta).map fun k => hZ st.T st.basis n k

/-- ghost certificate evaluated on the final state (not computed by the code): every basic value
    is `≥ 0` and no label has both its variables basic -/
def hCert (nums : List Nat) (st : HState α) : Bool :=
  let ta := nums.foldl (· + ·) 0
  let n := ta + nums.length
  (List.range n).all (fun i => decide (0 ≤ st.T.get i (st.T.nc - 1))) &&
  (List.range n).all (fun k => !(st.basis.contains k && st.basis.contains (k + n)))

/-! ### maps used by the correspondence: affine maps, optionally clipped to a box -/

/-- `T(v)_i = clip(Σ_j A[i][j] * v[j] + b[i])`, accumulated from `0` in the order of `j`,
    `clip = min(max(·, lo), hi)` when `box = some (lo, hi)` -/
def affClip (A : List (List α)) (b : List α) (box : Option (α × α)) (v : List α) : List α :=
  (List.zipWith (fun row bi =>
      let s := (List.zipWith (fun a x => a * x) row v).foldl (fun acc t => acc + t) 0 + bi
      match box with
      | none => s
      | some (lo, hi) =>
        let s1 := if s < lo then lo else s
        if hi < s1 then hi else s1) A b)

end generic

/-! ### argument checks -/

/-- lines 105-112 of `_compute_fp.py`: `none` = passes, `some e` = the exception raised -/
def cfpArgCheck (maxIter : Int) (verbose : Int) (method : String) : Option String :=
  if maxIter < 1 then some "ERR:ValueError"
  else if ¬ (verbose = 0 ∨ verbose = 1 ∨ verbose = 2) then some "ERR:ValueError"
  else if ¬ (method = "iteration" ∨ method = "imitation_game") then some "ERR:ValueError"
  else none

/-- lines 111-123 of `mclennan_tourky.py` -/
def mtArgCheck (N initLen : Nat) : Option String :=
  if N < 2 then some "ERR:NotImplementedError"
  else if initLen ≠ N then some "ERR:ValueError"
  else none

/-- `polym_lcp_solver`'s handling of `starting_player_actions` (howson_lcp.py 123-135): `None` means
    every player's first action; otherwise the `assert` demands one entry per player, each smaller
    than the player's number of actions (`none` = `AssertionError`) -/
def polymStart (nums : List Nat) (start : Option (List Nat)) : Option (List Nat) :=
  match start with
  | none => some (List.replicate nums.length 0)
  | some st =>
    if st.length = nums.length ∧ (List.range nums.length).all (fun q => decide (st.getD q 0 < nums.getD q 0))
    then some st else none

/-! ### line protocol -/

local instance : Zero Float := ⟨0.0⟩
local instance : One Float := ⟨1.0⟩

def showIter {β : Type} (sh : β → String) (tol : β) [LT β] [DecidableLT β] (o : IterOut (List β) β) : String :=
  "v=" ++ showList sh o.v ++ " it=" ++ toString o.iterate ++ " warn=" ++ showBool (decide (tol < o.error)) ++
  " err=" ++ sh o.error

def showIG {β : Type} (sh : β → String) (o : IGOut (List β)) : String :=
  "x=" ++ showList sh o.x ++ " conv=" ++ showBool o.converged ++ " it=" ++ toString o.iterate

def shapedSq {β : Type} (n : Nat) (A : List (List β)) : Bool :=
  A.length == n && A.all (fun r => r.length == n)

def rows {β : Type} (n : Nat) (A : List (List β)) : Bool := A.all (fun r => r.length == n)

/-- replay rule: the next point is the one the code visited (`xs[m]` after `m` stored points) -/
def replayNext {β : Type} (xs : List (List β)) (X _Y : List (List β)) : List β := xs.getD X.length []

def boxOf {β : Type} (clip : Nat) (lo hi : β) : Option (β × β) := if clip = 1 then some (lo, hi) else none

def gameOk {β : Type} (nums : List Nat) (pays : List (List β)) : Bool :=
  nums.length ≥ 2 && nums.all (· ≥ 1) && pays.length == nums.length &&
  pays.all (fun p => p.length == nums.foldl (· * ·) 1)

def tolPivQ : Rat := 1 / 10000000000
def tolDiffQ : Rat := 1 / 1000000000000000

def polyA {β : Type} [Zero β] (nums : List Nat) (pm : List (List β)) (p p2 a b : Nat) : β :=
  (pm.getD (p * (nums.length - 1) + (if p2 < p then p2 else p2 - 1)) []).getD (a * nums.getD p2 0 + b) 0

def polyOk {β : Type} (nums start : List Nat) (pm : List (List β)) : Bool :=
  let N := nums.length
  N ≥ 2 && nums.all (· ≥ 1) && start.length == N &&
  (List.range N).all (fun p => decide (start.getD p 0 < nums.getD p 0)) &&
  pm.length == N * (N - 1) &&
  (List.range N).all (fun p => (List.range N).all fun p2 =>
    p2 == p || (pm.getD (p * (N - 1) + (if p2 < p then p2 else p2 - 1)) []).length == nums.getD p 0 * nums.getD p2 0)

def showHowson {β : Type} (sh : β → String) (nums : List Nat) (st : HState β) (ne : List β) (cert : Bool) : String :=
  if st.err then "ERR:IndexError" else if st.outOfFuel then "out-of-fuel" else
  "conv=" ++ showBool st.converging ++ " it=" ++ toString st.numIter ++
  " piv=" ++ showList (fun (cr : Nat × Nat) => toString cr.1 ++ ":" ++ toString cr.2) st.trace.reverse ++
  " basis=" ++ showList toString st.basis ++ " ne=" ++ showList sh ne ++
  " | back=" ++ toString st.nBack ++ " rx=" ++ toString st.nRetroX ++ " ry=" ++ toString st.nRetroY ++
  " moved=" ++ toString st.nMoved ++ " allfound=" ++ showBool st.allFound ++ " cert=" ++ showBool cert ++
  " negp=" ++ showBool st.negP ++
  " N=" ++ toString nums.length

/-- margin diagnostics (correspondence only): distance of the ε-Nash test from its threshold -/
def nashMargin (nums : List Nat) (pays : List (List Rat)) (eps : Rat) (x : List Rat) : Rat :=
  let prof := unflatten nums x
  (List.range nums.length).foldl (fun mn i =>
    let pv := payoffVector nums (pays.getD i []) i prof
    let d := absv (dot (prof.getD i []) pv - (vecMax pv - eps))
    if d < mn then d else mn) 1000000

def parseInitEntry? (t : String) : Option (InitEntry Rat) :=
  match t.toList with
  | 'p' :: r => (String.ofList r).toNat?.map InitEntry.pyInt
  | 'n' :: r => (String.ofList r).toNat?.map InitEntry.npInt
  | 'b' :: r => (String.ofList r).toNat?.map fun k => InitEntry.pyBool (k != 0)
  | 'B' :: r => (String.ofList r).toNat?.map fun k => InitEntry.npBool (k != 0)
  | 'z' :: r => (parseRat? (String.ofList r)).map InitEntry.zeroD
  | 's' :: r => (parseRat? (String.ofList r)).map InitEntry.scalar
  | 'v' :: r => (parseList? parseRat? (String.ofList r)).map InitEntry.vec
  | _ => none

def handle (toks : List String) : String :=
  match toks with
  | "argcheck" :: r =>
    match kvInt r "maxiter", kvInt r "verbose", kv r "method" with
    | some mi, some vb, some me => (cfpArgCheck mi vb me).getD "ok"
    | _, _, _ => "bad-op"
  | "mtargcheck" :: r =>
    match kvNat r "N", kvNat r "initlen" with
    | some N, some l => (mtArgCheck N l).getD "ok"
    | _, _ => "bad-op"
  | "iter" :: r =>
    match kvNat r "n", kvRatMat r "A", kvRats r "b", kvNat r "clip", kvRat r "lo", kvRat r "hi",
          kvRats r "v", kvRat r "tol", kvNat r "maxiter" with
    | some n, some A, some b, some clip, some lo, some hi, some v, some tol, some mi =>
      if shapedSq n A && b.length == n && v.length == n && mi ≥ 1 && clip ≤ 1 then
        showIter showRat tol (fpIterate (affClip A b (boxOf clip lo hi)) maxAbsDiff tol mi v)
      else "bad-op"
    | _, _, _, _, _, _, _, _, _ => "bad-op"
  | "iterf" :: r =>
    match kvNat r "n", kvFloatMat r "A", kvFloats r "b", kvNat r "clip", (kv r "lo").bind parseFloat?,
          (kv r "hi").bind parseFloat?, kvFloats r "v", (kv r "tol").bind parseFloat?, kvNat r "maxiter" with
    | some n, some A, some b, some clip, some lo, some hi, some v, some tol, some mi =>
      if shapedSq n A && b.length == n && v.length == n && mi ≥ 1 && clip ≤ 1 then
        showIter showFloatBits tol (fpIterate (affClip A b (boxOf clip lo hi)) maxAbsDiff tol mi v)
      else "bad-op"
    | _, _, _, _, _, _, _, _, _ => "bad-op"
  | "igf" :: r =>
    -- imitation-game method on an affine(-clipped) map, IEEE doubles; `mode=replay` takes the
    -- next point from `xs` (the points the code visited), `mode=real` computes it (buffers with
    -- initial capacity `buff0`)
    match kvNat r "n", kvFloatMat r "A", kvFloats r "b", kvNat r "clip", (kv r "lo").bind parseFloat?,
          (kv r "hi").bind parseFloat?, kvFloats r "v", (kv r "tol").bind parseFloat?, kvNat r "maxiter",
          kv r "mode", kvFloatMat r "xs", kvNat r "buff0" with
    | some n, some A, some b, some clip, some lo, some hi, some v, some tol, some mi, some mode, some xs, some b0 =>
      if shapedSq n A && b.length == n && v.length == n && mi ≥ 1 && clip ≤ 1 && rows n xs && b0 ≥ 1 then
        let T := affClip A b (boxOf clip lo hi)
        if mode = "replay" then
          showIG showFloatBits (fixedPointIGBuf [] b0 T (isApproxFp T tol) (replayNext xs) mi v)
        else if mode = "real" then
          showIG showFloatBits (fixedPointIGBuf [] b0 T (isApproxFp T tol) (igNext 1000000 tolPivF tolRatioDiffF) mi v)
        else "bad-op"
      else "bad-op"
    | _, _, _, _, _, _, _, _, _, _, _, _ => "bad-op"
  | "ig" :: r =>
    -- the same at exact rationals
    match kvNat r "n", kvRatMat r "A", kvRats r "b", kvNat r "clip", kvRat r "lo", kvRat r "hi",
          kvRats r "v", kvRat r "tol", kvNat r "maxiter", kv r "mode", kvRatMat r "xs", kvNat r "buff0" with
    | some n, some A, some b, some clip, some lo, some hi, some v, some tol, some mi, some mode, some xs, some b0 =>
      if shapedSq n A && b.length == n && v.length == n && mi ≥ 1 && clip ≤ 1 && rows n xs && b0 ≥ 1 then
        let T := affClip A b (boxOf clip lo hi)
        if mode = "replay" then
          showIG showRat (fixedPointIGBuf [] b0 T (isApproxFp T tol) (replayNext xs) mi v)
        else if mode = "real" then
          showIG showRat (fixedPointIGBuf [] b0 T (isApproxFp T tol) (igNext 1000000 tolPivQ tolDiffQ) mi v)
        else "bad-op"
      else "bad-op"
    | _, _, _, _, _, _, _, _, _, _, _, _ => "bad-op"
  | "igstepf" :: r =>
    -- one pass of lines 255-269 on a given history, IEEE doubles
    match kvFloatMat r "X", kvFloatMat r "Y" with
    | some X, some Y =>
      if X.length == Y.length && X.length ≥ 1 && rows (X.headD []).length X && rows (X.headD []).length Y then
        let res := igLH X Y 1000000 tolPivF tolRatioDiffF
        let m := X.length
        let rho := mixedOf res.2.T1 res.2.b1 m (2 * m)
        "conv=" ++ showBool res.1 ++ " piv=" ++ toString res.2.numIter ++
        " b0=" ++ showList toString res.2.b0 ++ " b1=" ++ showList toString res.2.b1 ++
        " rho=" ++ showList showFloatBits rho ++ " x=" ++ showList showFloatBits (dotRows rho Y)
      else "bad-op"
    | _, _ => "bad-op"
  | "igstep" :: r =>
    match kvRatMat r "X", kvRatMat r "Y" with
    | some X, some Y =>
      if X.length == Y.length && X.length ≥ 1 && rows (X.headD []).length X && rows (X.headD []).length Y then
        let res := igLH X Y 1000000 tolPivQ tolDiffQ
        let m := X.length
        let rho := mixedOf res.2.T1 res.2.b1 m (2 * m)
        "conv=" ++ showBool res.1 ++ " piv=" ++ toString res.2.numIter ++
        " b0=" ++ showList toString res.2.b0 ++ " b1=" ++ showList toString res.2.b1 ++
        " rho=" ++ showList showRat rho ++ " x=" ++ showList showRat (dotRows rho Y)
      else "bad-op"
    | _, _ => "bad-op"
  | "isnash" :: r =>
    match kvNats r "nums", kvRatMat r "pays", kvRats r "x", kvRat r "eps" with
    | some nums, some pays, some x, some eps =>
      if gameOk nums pays && x.length == nums.foldl (· + ·) 0 then
        "nash=" ++ showBool (isEpsNash nums pays eps x) ++ " margin=" ++ showRat (nashMargin nums pays eps x)
      else "bad-op"
    | _, _, _, _ => "bad-op"
  | "brsel" :: r =>
    match kvNats r "nums", kvRatMat r "pays", kvRats r "x", kvRat r "tol" with
    | some nums, some pays, some x, some tol =>
      if gameOk nums pays && x.length == nums.foldl (· + ·) 0 then
        showList showRat (brSelection nums pays tol x)
      else "bad-op"
    | _, _, _, _ => "bad-op"
  | "mt" :: r =>
    -- mclennan_tourky at exact rationals; mode=replay|real as for `ig`
    match kvNats r "nums", kvRatMat r "pays", kvRats r "x0", kvRat r "eps", kvRat r "tolbr",
          kvNat r "maxiter", kv r "mode", kvRatMat r "xs" with
    | some nums, some pays, some x0, some eps, some tolbr, some mi, some mode, some xs =>
      if gameOk nums pays && x0.length == nums.foldl (· + ·) 0 && mi ≥ 1 && rows x0.length xs then
        if mode = "replay" then
          showIG showRat (mclennanTourky nums pays eps tolbr (replayNext xs) mi x0)
        else if mode = "real" then
          showIG showRat (mclennanTourky nums pays eps tolbr (igNext 1000000 tolPivQ tolDiffQ) mi x0)
        else "bad-op"
      else "bad-op"
    | _, _, _, _, _, _, _, _ => "bad-op"
  | "flatinit" :: r =>
    -- `_flatten_action_profile` on tagged argument forms (entries separated by `|`)
    match kvNats r "nums", kv r "init" with
    | some nums, some ini =>
      match (ini.splitOn "|").mapM parseInitEntry? with
      | some es =>
        if es.length == nums.length && nums.all (· ≥ 1) &&
            (List.range nums.length).all (fun i => match es.getD i (InitEntry.pyInt 0) with
              | .vec v => v.length == nums.getD i 0
              | .pyInt a => decide (a < nums.getD i 0)
              | .npInt a => decide (a < nums.getD i 0)
              | _ => true) then
          showList showRat (flattenInitForms nums es)
        else "bad-op"
      | none => "bad-op"
    | _, _ => "bad-op"
  | "range" :: r =>
    -- PolymatrixGame.range_of_payoffs(), exact
    match kvRatMat r "pm" with
    | some pm =>
      if pm.flatten.isEmpty then "bad-op"
      else showRat (hRange pm.flatten).1 ++ "," ++ showRat (hRange pm.flatten).2
    | none => "bad-op"
  | "polymstart" :: r =>
    match kvNats r "nums", kv r "start" with
    | some nums, some st =>
      if nums.isEmpty || nums.any (· == 0) then "bad-op" else
      let arg : Option (Option (List Nat)) := if st = "none" then some none else (parseList? parseNat? st).map some
      match arg with
      | some a => match polymStart nums a with
        | some e => "ok:" ++ showList toString e
        | none => "ERR:AssertionError"
      | none => "bad-op"
    | _, _ => "bad-op"
  | "howf" :: r =>
    -- polym_lcp_solver, IEEE doubles
    match kvNats r "nums", kvNats r "start", kvFloatMat r "pm", kvInt r "maxiter", kvNat r "fuel" with
    | some nums, some start, some pm, some mi, some fuel =>
      if polyOk nums start pm then
        let st := polymLcp nums start (polyA nums pm) (hPcm pm.flatten) mi tolPivF tolRatioDiffF fuel
        showHowson showFloatBits nums st (hNE nums st) (hCert nums st)
      else "bad-op"
    | _, _, _, _, _ => "bad-op"
  | "how" :: r =>
    -- the same at exact rationals; tolerances given (0 for the setting of the theorems)
    match kvNats r "nums", kvNats r "start", kvRatMat r "pm", kvInt r "maxiter", kvNat r "fuel",
          kvRat r "tolpiv", kvRat r "toldiff" with
    | some nums, some start, some pm, some mi, some fuel, some tp, some td =>
      if polyOk nums start pm then
        let st := polymLcp nums start (polyA nums pm) (hPcm pm.flatten) mi tp td fuel
        showHowson showRat nums st (hNE nums st) (hCert nums st)
      else "bad-op"
    | _, _, _, _, _, _, _ => "bad-op"
  | _ => "bad-op"

end QE.C15
