/-
  QEModel.C14 — one payoff convention across all views of a game.
  Mirrors quantecon/game_theory/normal_form_game.py:
    Player.__init__ (shape checks), delete_action, payoff_vector (reduce_last_player: take / dot),
    is_best_response, best_response (np.where(v >= v.max() - tol), perturbation not in place),
    is_dominated (no-opponent branch; pure-domination test; certificate check for the LP value),
    NormalFormGame.__init__ (Players / action counts / square matrix / payoff profile array),
    payoff_profile_array, __getitem__, __setitem__, delete_action (scalar and array_like), is_nash
    (N = 1, N = 2, N >= 3 branches);
  game_converters.py: GAMWriter._dump / GAMReader._parse (order of the numbers, not their text);
  polymatrix_game.py: PolymatrixGame.get_player / to_nfg (broadcast sum);
  logitdyn.py (and the other dynamics constructors): read-only, modelled as the identity.

  An n-d array is `Arr α` = shape + flat C-order data. Every NumPy operation is a
  `tab newShape (fun idx => old.get (index map idx))`; the in-place write of
  `__setitem__` is `List.set` on the flat data. A game is the list of its
  players' arrays (player i's array has its own action first, then the others in
  cyclic order — shape `rotL i nums`). The op state machine `step`/`run` executes whole call
  histories; `handle` prints the result of every call and all stored arrays after it.

  Parameters (not modelled): dtype (payoffs are exact rationals; int/float distinction and
  NumPy casting on assignment), the decimal text of GAM numbers (`np.array2string`), `lstsq`
  in `PolymatrixGame.from_nf`, the LP solver behind `is_dominated` (`minmax` / `linprog`;
  the driver checks an exact certificate instead), random tie breaking.
-/
import QEModel.Base
namespace QE.C14

/-! ### n-d arrays -/

def prod : List Nat → Nat
  | [] => 1
  | n :: s => n * prod s

/-- C-order (row-major) offset of a multi-index -/
def flatIndex : List Nat → List Nat → Nat
  | _ :: s, a :: r => a * prod s + flatIndex s r
  | _, _ => 0

/-- all multi-indices of a shape in C order (last index fastest) -/
def allIdx : List Nat → List (List Nat)
  | [] => [[]]
  | n :: s => (List.range n).flatMap fun a => (allIdx s).map (a :: ·)

def inBounds : List Nat → List Nat → Bool
  | [], [] => true
  | n :: s, a :: r => decide (a < n) && inBounds s r
  | _, _ => false

structure Arr (α : Type) where
  shape : List Nat
  data : List α
deriving Repr, BEq, DecidableEq

instance {α} : Inhabited (Arr α) := ⟨⟨[], []⟩⟩

namespace Arr
variable {α : Type}

def get [Zero α] (A : Arr α) (idx : List Nat) : α := A.data.getD (flatIndex A.shape idx) 0

def tab (shape : List Nat) (f : List Nat → α) : Arr α := ⟨shape, (allIdx shape).map f⟩

/-- `numpy.transpose(A, perm)`: result axis `k` is source axis `perm[k]`; the source index `c`
    of result index `b` has `c[perm[k]] = b[k]`. -/
def srcIndex (perm : List Nat) (b : List Nat) : List Nat :=
  (List.range perm.length).map fun a => b.getD (perm.idxOf a) 0

def transpose [Zero α] (A : Arr α) (perm : List Nat) : Arr α :=
  tab (perm.map fun k => A.shape.getD k 0) (fun b => A.get (srcIndex perm b))

/-- `A.take(i, axis=-1)` -/
def takeLast [Zero α] (A : Arr α) (i : Nat) : Arr α :=
  tab A.shape.dropLast (fun idx => A.get (idx ++ [i]))

/-- `A.dot(p)` for a vector `p` (sum over the last axis) -/
def dotLast [Zero α] [Add α] [Mul α] (A : Arr α) (p : List α) : Arr α :=
  tab A.shape.dropLast (fun idx =>
    (List.range (A.shape.getLastD 0)).foldl (fun acc b => acc + A.get (idx ++ [b]) * p.getD b 0) 0)

/-- the index read by `np.delete(A, a, axis)` at result index `idx` -/
def bump (ax a : Nat) (idx : List Nat) : List Nat :=
  idx.set ax (if a ≤ idx.getD ax 0 then idx.getD ax 0 + 1 else idx.getD ax 0)

/-- `np.delete(A, a, axis)` for one in-range `a` -/
def deleteAxis [Zero α] (A : Arr α) (ax a : Nat) : Arr α :=
  tab (A.shape.set ax (A.shape.getD ax 0 - 1)) (fun idx => A.get (bump ax a idx))

/-- `np.delete(A, as, axis)` for a list of in-range indices (a set: duplicates are immaterial):
    the surviving positions along the axis keep their order -/
def deleteMany [Zero α] (A : Arr α) (ax : Nat) (as : List Nat) : Arr α :=
  let keep := (List.range (A.shape.getD ax 0)).filter fun k => !as.contains k
  tab (A.shape.set ax keep.length) (fun idx => A.get (idx.set ax (keep.getD (idx.getD ax 0) 0)))

/-- `A.ravel(order='F')` -/
def ravelF [Zero α] (A : Arr α) : List α :=
  (allIdx A.shape.reverse).map fun r => A.get r.reverse

/-- `data.reshape(shape, order='F')` -/
def reshapeF [Zero α] (data : List α) (shape : List Nat) : Arr α :=
  tab shape (fun idx => data.getD (flatIndex shape.reverse idx.reverse) 0)

end Arr

/-! ### profiles, rotation -/

/-- `tuple(p[i:]) + tuple(p[:i])` -/
def rotL {β : Type} (i : Nat) (l : List β) : List β := l.drop i ++ l.take i

/-- `(*range(j, N), *range(j))` -/
def rotPerm (N j : Nat) : List Nat := List.range' j (N - j) ++ List.range j

/-! ### actions, errors -/

inductive Act (α : Type) where
  | pure (a : Nat)
  | mixed (p : List α)
deriving Repr

inductive Err where
  | index | value | type | axis
deriving Repr, BEq, DecidableEq

def Err.show : Err → String
  | .index => "ERR:IndexError"
  | .value => "ERR:ValueError"
  | .type => "ERR:TypeError"
  | .axis => "ERR:AxisError"

/-! ### Player -/

section player
variable {α : Type} [Zero α] [Add α] [Sub α] [Mul α] [LT α] [LE α] [DecidableLT α] [DecidableLE α]

/-- `reduce_last_player(payoff_array, action)` -/
def reduceLast (A : Arr α) : Act α → Arr α
  | .pure a => A.takeLast a
  | .mixed p => A.dotLast p

/-- `Player.payoff_vector`: the last axis is reduced repeatedly, last opponent first
    (`for i in reversed(range(num_opponents))`). With no opponent it is the array itself. -/
def payoffVector (A : Arr α) (opps : List (Act α)) : Arr α :=
  opps.foldr (fun act acc => reduceLast acc act) A

/-- is `act` acceptable for reducing the last axis of `A`? (`take` bounds / `dot` alignment) -/
def actOk (n : Nat) : Act α → Option Err
  | .pure a => if a < n then none else some .index
  | .mixed p => if p.length = n then none else some .value

/-- checked version: the error the code raises first, if any -/
def payoffVectorC (A : Arr α) (opps : List (Act α)) : Except Err (Arr α) :=
  opps.foldr (fun act acc => do
    let B ← acc
    match actOk (B.shape.getLastD 0) act with
    | some e => throw e
    | none => pure (reduceLast B act)) (pure A)

/-- `ndarray.max()` of a non-empty vector -/
def maxList (l : List α) : α := l.foldl (fun m x => if m < x then x else m) (l.headD 0)

/-- `np.where(v >= v.max() - tol)[0]` -/
def bestResponses (v : List α) (tol : α) : List Nat :=
  (List.range v.length).filter fun a => decide (maxList v - tol ≤ v.getD a 0)

/-- `np.dot(x, v)` -/
def dot (x v : List α) : α :=
  (List.range v.length).foldl (fun acc b => acc + x.getD b 0 * v.getD b 0) 0

/-- `Player.is_best_response` on a computed payoff vector -/
def isBestResponseV (v : List α) (own : Act α) (tol : α) : Bool :=
  match own with
  | .pure a => decide (maxList v - tol ≤ v.getD a 0)
  | .mixed x => decide (maxList v - tol ≤ dot x v)

/-- `Player.is_dominated` for a player without opponents -/
def isDominated0 (v : List α) (a : Nat) (tol : α) : Bool :=
  decide (v.getD a 0 + tol < maxList v)

/-- `pure2mixed(num_actions, action)`: the mixed-action representation of a pure action -/
def pure2mixed {α : Type} [Zero α] [One α] (n a : Nat) : List α :=
  (List.range n).map fun k => if k = a then 1 else 0

/-- `best_response_2p(payoff_matrix, opponent_mixed_action, tol)` (the Numba kernel): the payoff
    vector is accumulated as `pv[a] += M[a, b] * x[b]` for `b = 0, 1, …`, its maximum taken as a
    running maximum, and the first `a` with `pv[a] >= max - tol` returned (`none` when the loop
    falls through, i.e. for a negative `tol`). -/
def payoffVector2p (A : Arr α) (x : List α) : List α :=
  (List.range (A.shape.getD 0 0)).map fun a =>
    (List.range (A.shape.getD 1 0)).foldl (fun acc b => acc + A.get [a, b] * x.getD b 0) 0

def bestResponse2p (A : Arr α) (x : List α) (tol : α) : Option Nat :=
  let pv := payoffVector2p A x
  (List.range pv.length).find? fun a => decide (maxList pv - tol ≤ pv.getD a 0)

/-- `Player.random_choice(actions, random_state)`: with one candidate no number is drawn;
    otherwise `draw = rng_integers(random_state, len(actions))` selects -/
def randomChoice (actions : List Nat) (draw : Nat) : Option Nat :=
  if actions.length = 1 then actions[0]? else actions[draw]?

/-- some other pure action is better than `a` by more than `tol` against every opponent profile
    (the LP-free sufficient condition for `is_dominated`) -/
def isDominatedByPure (A : Arr α) (a : Nat) (tol : α) : Bool :=
  (List.range (A.shape.headD 0)).any fun b =>
    b != a && (allIdx A.shape.tail).all fun r => decide (A.get (a :: r) + tol < A.get (b :: r))

/-- certificate check for the value `v` of the zero-sum game `D = A[others] - A[a]`
    (rows: own actions other than `a`, columns: opponent profiles): `x` guarantees at least `v`
    against every column, `y` concedes at most `v` against every row. -/
def domCertOk (A : Arr α) (a : Nat) (x y : List α) (v : α) : Bool :=
  let rows := (List.range (A.shape.headD 0)).filter (· != a)
  let cols := allIdx A.shape.tail
  let d := fun (b : Nat) (r : List Nat) => A.get (b :: r) - A.get (a :: r)
  (cols.all fun r =>
    decide (v ≤ (List.range rows.length).foldl (fun acc k => acc + x.getD k 0 * d (rows.getD k 0) r) 0)) &&
  (rows.all fun b =>
    decide ((List.range cols.length).foldl (fun acc k => acc + d b (cols.getD k []) * y.getD k 0) 0 ≤ v))

end player

/-! ### NormalFormGame -/

structure Game (α : Type) where
  players : List (Arr α)
deriving Repr, DecidableEq

namespace Game
variable {α : Type} [Zero α]

def N (g : Game α) : Nat := g.players.length
def nums (g : Game α) : List Nat := g.players.map fun p => p.shape.headD 0
def player (g : Game α) (i : Nat) : Arr α := g.players.getD i default

/-- `NormalFormGame(players)`: shape consistency check of `__init__` (dtype check not modelled) -/
def ofPlayers (ps : List (Arr α)) : Except Err (Game α) :=
  let s0 := (ps.headD default).shape
  if (List.range ps.length).all fun i =>
      i == 0 || (((ps.getD i default).shape.length == ps.length) &&
                 ((ps.getD i default).shape == rotL i s0))
  then .ok ⟨ps⟩ else .error .value

/-- `Player(payoff_array)`: at least one action everywhere -/
def playerOk (A : Arr α) : Bool := A.shape.length != 0 && prod A.shape != 0

/-- `NormalFormGame(nums)` with an array of integers: all-zero payoffs -/
def zeros (nums : List Nat) : Game α :=
  ⟨(List.range nums.length).map fun i => Arr.tab (rotL i nums) (fun _ => 0)⟩

/-- `NormalFormGame(data)` with a payoff profile array of shape `nums ++ [N]`
    (`data.take(i, axis=-1).transpose((*range(i, N), *range(i)))`) -/
def ofProfileArray (D : Arr α) : Except Err (Game α) :=
  let Nn := D.shape.length - 1
  if D.shape.getLastD 0 != Nn then .error .value
  else .ok ⟨(List.range Nn).map fun i => (D.takeLast i).transpose (rotPerm Nn i)⟩

/-- symmetric two-player game from a square matrix -/
def ofSquare (D : Arr α) : Except Err (Game α) :=
  if D.shape.getD 0 0 != D.shape.getD 1 0 then .error .value else .ok ⟨[D, D]⟩

/-- `payoff_profile_array`: `[..., i] = players[i].payoff_array.transpose((*range(N-i, N), *range(N-i)))` -/
def profileArray (g : Game α) : Arr α :=
  let ts := (List.range g.N).map fun i => (g.player i).transpose (rotPerm g.N (g.N - i))
  Arr.tab ((g.player 0).shape ++ [g.N]) (fun bi =>
    (ts.getD (bi.getLastD 0) default).get bi.dropLast)

/-- `g[profile]` (N ≥ 2): `players[i].payoff_array[profile[i:] + profile[:i]]` -/
def getItem (g : Game α) (prof : List Nat) : List α :=
  (List.range g.N).map fun i => (g.player i).get (rotL i prof)

/-- `g[profile] = vals`: one cell of each player's array is overwritten -/
def setItem (g : Game α) (prof : List Nat) (vals : List α) : Game α :=
  ⟨(List.range g.N).map fun i =>
    let A := g.player i
    ⟨A.shape, A.data.set (flatIndex A.shape (rotL i prof)) (vals.getD i 0)⟩⟩

/-- `g.players[i].payoff_array[idx] = v` (equivalently through `g.payoff_arrays[i]`): an in-place
    edit of ONE player's array by the caller, between calls -/
def pokeItem (g : Game α) (i : Nat) (idx : List Nat) (v : α) : Game α :=
  ⟨(List.range g.N).map fun j =>
    let A := g.player j
    if j = i then ⟨A.shape, A.data.set (flatIndex A.shape idx) v⟩ else A⟩

/-- axis of player `i`'s array that belongs to player `pidx`: NumPy's normalisation of
    `player_idx - i` -/
def normAxis (ax : Int) (nd : Nat) : Option Nat :=
  if 0 ≤ ax ∧ ax < nd then some ax.toNat
  else if -(nd : Int) ≤ ax ∧ ax < 0 then some (ax + nd).toNat
  else none

/-- `delete_action(player_idx, action)` after the negative-index adjustment of `player_idx`,
    `action` already normalised to `0 ≤ action`. -/
def deleteAction (g : Game α) (pidx : Int) (a : Nat) : Except Err (Game α) := do
  let ps ← (List.range g.N).mapM fun i =>
    let A := g.player i
    match normAxis (pidx - i) A.shape.length with
    | none => Except.error Err.axis
    | some ax =>
      if a < A.shape.getD ax 0 then
        let B := A.deleteAxis ax a
        if playerOk B then Except.ok B else Except.error Err.value
      else Except.error Err.index
  ofPlayers ps

/-- `delete_action(player_idx, actions)` with an array_like of (normalised) actions -/
def deleteActions (g : Game α) (pidx : Int) (as : List Nat) : Except Err (Game α) := do
  let ps ← (List.range g.N).mapM fun i =>
    let A := g.player i
    match normAxis (pidx - i) A.shape.length with
    | none => Except.error Err.axis
    | some ax =>
      if as.all fun a => decide (a < A.shape.getD ax 0) then
        let B := A.deleteMany ax as
        if playerOk B then Except.ok B else Except.error Err.value
      else Except.error Err.index
  ofPlayers ps

/-- opponents' actions as seen by player `i` in `is_nash` -/
def oppsOf (N i : Nat) {β : Type} (prof : List β) : List β :=
  if N = 2 then (prof.drop (1 - i)).take 1
  else prof.drop (i + 1) ++ prof.take i

variable [Add α] [Sub α] [Mul α] [LT α] [LE α] [DecidableLT α] [DecidableLE α]

/-- `is_nash` on in-range profiles -/
def isNash (g : Game α) (prof : List (Act α)) (tol : α) : Bool :=
  (List.range g.N).all fun i =>
    isBestResponseV (payoffVector (g.player i) (oppsOf g.N i prof)).data
      (match prof[i]? with | some a => a | none => .pure 0) tol

end Game

/-! ### GAM: order of the numbers in the file -/

section gam
variable {α : Type} [Zero α]

/-- payoff numbers written by `GAMWriter._dump`, player by player:
    `payoff_array.transpose((*range(N-i, N), *range(N-i))).ravel(order='F')` -/
def gamPayoffs (g : Game α) : List (List α) :=
  (List.range g.N).map fun i => ((g.player i).transpose (rotPerm g.N (g.N - i))).ravelF

/-- `GAMReader._parse` after tokenisation: `N`, `nums`, all payoff numbers -/
def parseGam (nums : List Nat) (payoffs : List α) : Except Err (Game α) :=
  let Nn := nums.length
  let na := prod nums
  if payoffs.length != Nn * na then .error .value
  else
    let ps := (List.range Nn).map fun i =>
      (Arr.reshapeF ((payoffs.drop (i * na)).take na) nums).transpose (rotPerm Nn i)
    if ps.all Game.playerOk then Game.ofPlayers ps else .error .value

end gam

/-! ### polymatrix → normal form (`PolymatrixGame.get_player`, `to_nfg`) -/

section poly
variable {α : Type} [Zero α] [Add α]

/-- `pm i j` is the matrix of the pair `(i, j)` as a flat row-major list with `nums[j]` columns.
    Player `i`'s array entry at `(a, b_1, …, b_{N-1})` is `Σ_j pm[(i, opps[j])][a, b_j]`,
    added in the order `j = 0, 1, …` starting from the integer `0` of Python's `sum`. -/
def polyPlayer (nums : List Nat) (pm : Nat → Nat → List α) (i : Nat) : Arr α :=
  let Nn := nums.length
  let opps := rotL (i + 1) (List.range Nn) |>.take (Nn - 1)
  Arr.tab (rotL i nums) (fun idx =>
    (List.range (Nn - 1)).foldl (fun acc j =>
      let o := opps.getD j 0
      acc + (pm i o).getD (idx.getD 0 0 * nums.getD o 0 + idx.getD (j + 1) 0) 0) 0)

def ofPolymatrix (nums : List Nat) (pm : Nat → Nat → List α) : Game α :=
  ⟨(List.range nums.length).map (polyPlayer nums pm)⟩

end poly

/-! ### the op state machine -/

inductive Op (α : Type) where
  | get (prof : List Int)
  | set (prof : List Int) (vals : List α)
  | del (pidx : Int) (action : Int)
  | delm (pidx : Int) (actions : List Int)
  | poke (i : Nat) (idx : List Nat) (v : α)
  | pv (i : Nat) (opps : List (Act α))
  | br (i : Nat) (opps : List (Act α)) (tol : α) (pert : Option (List α))
  | isbr (i : Nat) (own : Act α) (opps : List (Act α)) (tol : α)
  | brr (i : Nat) (opps : List (Act α)) (tol : α) (pert : Option (List α)) (draw : Nat)
  | nash (prof : List (Act α)) (tol : α)
  | dom0 (i : Nat) (a : Nat) (tol : α)
  | dompure (i : Nat) (a : Nat) (tol : α)
  | domcert (i : Nat) (a : Nat) (tol : α) (x y : List α) (v : α)
  | profarr
  | reprof
  | replayers
  | gam
  | logit
  | polyrt

inductive Out (α : Type) where
  | none
  | vals (l : List α)
  | idxs (l : List Nat)
  | bool (b : Bool)
  | err (e : Err)
  | gamOut (nums : List Nat) (l : List (List α))

/-- NumPy integer indexing: `-n ≤ a < n`, negative counts from the end -/
def normIdx (n : Nat) (a : Int) : Option Nat :=
  if 0 ≤ a ∧ a < n then some a.toNat
  else if -(n : Int) ≤ a ∧ a < 0 then some (a + n).toNat
  else none

def normIdxs : List Nat → List Int → Option (List Nat)
  | [], [] => some []
  | n :: s, a :: r => do
    let x ← normIdx n a
    let rest ← normIdxs s r
    pure (x :: rest)
  | _, _ => none

section step
variable {α : Type} [Zero α] [Add α] [Sub α] [Mul α] [LT α] [LE α] [DecidableLT α] [DecidableLE α]

def addPert (v : List α) : Option (List α) → List α
  | none => v
  | some p => (List.range v.length).map fun a => v.getD a 0 + p.getD a 0

/-- one call on the game; returns the new current game and the call's result.
    Only `set` (in place), `del`, `reprof`, `replayers`, `gam` (which return new games that
    become the current one) can produce a different game; every other op returns `g` itself. -/
def step (g : Game α) : Op α → Game α × Out α
  | .get prof =>
    if g.N = 1 then
      match prof with
      | [a] => match normIdx ((g.player 0).shape.headD 0) a with
        | some x => (g, .vals [(g.player 0).get [x]])
        | none => (g, .err .index)
      | _ => (g, .err .type)
    else if prof.length ≠ g.N then (g, .err .index)
    else match normIdxs (g.player 0).shape prof with
      | some p => (g, .vals (g.getItem p))
      | none => (g, .err .index)
  | .set prof vals =>
    if g.N = 1 then
      match prof, vals with
      | [a], [v] => match normIdx ((g.player 0).shape.headD 0) a with
        | some x => (g.setItem [x] [v], .none)
        | none => (g, .err .index)
      | _, _ => (g, .err .type)
    else if prof.length ≠ g.N then (g, .err .index)
    else if vals.length ≠ g.N then (g, .err .value)
    else match normIdxs (g.player 0).shape prof with
      | some p => (g.setItem p vals, .none)
      | none => (g, .err .index)
  | .del pidx action =>
    let pidx' : Int := if -(g.N : Int) ≤ pidx ∧ pidx < 0 then pidx + g.N else pidx
    match Game.normAxis pidx' g.N with
    | none => (g, .err .axis)
    | some ax =>
      match normIdx ((g.player 0).shape.getD ax 0) action with
      | none => (g, .err .index)
      | some a =>
        match g.deleteAction pidx' a with
        | .ok g' => (g', .none)
        | .error e => (g, .err e)
  | .poke i idx v =>
    if i < g.N ∧ inBounds (g.player i).shape idx = true then (g.pokeItem i idx v, .none)
    else (g, .err .index)
  | .delm pidx actions =>
    let pidx' : Int := if -(g.N : Int) ≤ pidx ∧ pidx < 0 then pidx + g.N else pidx
    match Game.normAxis pidx' g.N with
    | none => (g, .err .axis)
    | some ax =>
      match actions.mapM (normIdx ((g.player 0).shape.getD ax 0)) with
      | none => (g, .err .index)
      | some as =>
        match g.deleteActions pidx' as with
        | .ok g' => (g', .none)
        | .error e => (g, .err e)
  | .pv i opps =>
    match payoffVectorC (g.player i) opps with
    | .ok v => (g, .vals v.data)
    | .error e => (g, .err e)
  | .br i opps tol pert =>
    match payoffVectorC (g.player i) opps with
    | .ok v => (g, .idxs (bestResponses (addPert v.data pert) tol))
    | .error e => (g, .err e)
  | .brr i opps tol pert draw =>
    -- `best_response(..., tie_breaking='random', random_state=rs)`, `draw` being what `rs` yields
    match payoffVectorC (g.player i) opps with
    | .ok v =>
      match randomChoice (bestResponses (addPert v.data pert) tol) draw with
      | some a => (g, .idxs [a])
      | none => (g, .err .index)
    | .error e => (g, .err e)
  | .isbr i own opps tol =>
    match payoffVectorC (g.player i) opps with
    | .ok v => (g, .bool (isBestResponseV v.data own tol))
    | .error e => (g, .err e)
  | .nash prof tol => (g, .bool (g.isNash prof tol))
  | .dom0 i a tol => (g, .bool (isDominated0 (g.player i).data a tol))
  | .dompure i a tol => (g, .bool (isDominatedByPure (g.player i) a tol))
  | .domcert i a tol x y v =>
    if domCertOk (g.player i) a x y v then (g, .bool (decide (tol < v))) else (g, .err .value)
  | .profarr => (g, .vals g.profileArray.data)
  | .reprof =>
    match Game.ofProfileArray g.profileArray with
    | .ok g' => (g', .none)
    | .error e => (g, .err e)
  | .replayers =>
    match Game.ofPlayers g.players with
    | .ok g' => (g', .none)
    | .error e => (g, .err e)
  | .gam =>
    let toks := gamPayoffs g
    match parseGam g.nums toks.flatten with
    | .ok g' => (g', .gamOut g.nums toks)
    | .error e => (g, .err e)
  | .logit => (g, .none)
  | .polyrt => (g, .none)

/-- a whole history: the results and the game after every call -/
def run (g : Game α) : List (Op α) → List (Out α × Game α)
  | [] => []
  | op :: rest => let r := step g op; (r.2, r.1) :: run r.1 rest

end step

/-! ### line protocol -/

open QE

def parseAct? (s : String) : Option (Act Rat) :=
  match s.toList with
  | 'p' :: r => (String.ofList r).toNat?.map Act.pure
  | 'm' :: r => (parseList? parseRat? (String.ofList r)).map Act.mixed
  | _ => none

def parseActs? (s : String) : Option (List (Act Rat)) :=
  if s = "-" ∨ s = "" then some [] else (s.splitOn ";").mapM parseAct?

/-- `Player.tol`, the default tolerance: the double `1e-8` -/
def playerTol : Rat := (ratOfBits 0x3E45798EE2308C3A).getD 0

/-- `if tol is None: tol = self.tol` — only `None` is replaced by the default; an explicit `0`
    (or any other value) stays what it is. After resolution the tolerance is a double
    (`is_dominated` does `tol = float(tol)`; the other calls combine it with float64 payoffs): an
    int / bool / float32 / float64 argument denotes the same number, which is what crosses the wire
    (the exact rational of that double). -/
def resolveTol (tol : Option Rat) : Rat :=
  match tol with
  | none => playerTol
  | some t => t

/-- a tolerance on the wire: `none` (argument omitted / `None`) or a number -/
def parseTol? (s : String) : Option Rat :=
  if s = "none" then some (resolveTol none) else (parseRat? s).map fun t => resolveTol (some t)

def parseOptRats? (s : String) : Option (Option (List Rat)) :=
  if s = "none" then some none else (parseList? parseRat? s).map some

def parseOp? (s : String) : Option (Op Rat) :=
  match s.splitOn ":" with
  | ["get", p] => (parseList? parseInt? p).map Op.get
  | ["set", p, v] => do
    let p ← parseList? parseInt? p
    let v ← parseList? parseRat? v
    pure (Op.set p v)
  | ["del", p, a] => do pure (Op.del (← parseInt? p) (← parseInt? a))
  | ["poke", i, idx, v] => do
    pure (Op.poke (← parseNat? i) (← parseList? parseNat? idx) (← parseRat? v))
  | ["settol", _] => some Op.logit   -- reassigning `player.tol`: no payoff changes
  | ["delm", p, a] => do pure (Op.delm (← parseInt? p) (← parseList? parseInt? a))
  | ["pv", i, o] => do pure (Op.pv (← parseNat? i) (← parseActs? o))
  | ["br", i, o, t, pert] => do
    pure (Op.br (← parseNat? i) (← parseActs? o) (← parseTol? t) (← parseOptRats? pert))
  | ["brr", i, o, t, pert, k] => do
    pure (Op.brr (← parseNat? i) (← parseActs? o) (← parseTol? t) (← parseOptRats? pert) (← parseNat? k))
  | ["isbr", i, own, o, t] => do
    pure (Op.isbr (← parseNat? i) (← parseAct? own) (← parseActs? o) (← parseTol? t))
  | ["nash", p, t] => do pure (Op.nash (← parseActs? p) (← parseTol? t))
  | ["dom0", i, a, t] => do pure (Op.dom0 (← parseNat? i) (← parseNat? a) (← parseTol? t))
  | ["dompure", i, a, t] => do pure (Op.dompure (← parseNat? i) (← parseNat? a) (← parseTol? t))
  | ["domcert", i, a, t, x, y, v] => do
    pure (Op.domcert (← parseNat? i) (← parseNat? a) (← parseTol? t)
      (← parseList? parseRat? x) (← parseList? parseRat? y) (← parseRat? v))
  | ["profarr"] => some Op.profarr
  | ["reprof"] => some Op.reprof
  | ["replayers"] => some Op.replayers
  | ["gam"] => some Op.gam
  | ["logit"] => some Op.logit
  | ["polyrt"] => some Op.polyrt
  | _ => none

def showArr (A : Arr Rat) : String :=
  showList toString A.shape ++ "/" ++ showList showRat A.data

def showGame (g : Game Rat) : String :=
  if g.players.isEmpty then "-" else ";".intercalate (g.players.map showArr)

def showOut : Out Rat → String
  | .none => "-"
  | .vals l => "v" ++ showList showRat l
  | .idxs l => "i" ++ showList toString l
  | .bool b => "b" ++ showBool b
  | .err e => e.show
  | .gamOut nums l => "g" ++ showList toString nums ++ "/" ++ showMat showRat l

/-- constructors -/
def parseCtor (r : List String) : Option (Except Err (Game Rat)) :=
  match kv r "ctor" with
  | some "prof" => do
    let shape ← kvNats r "shape"
    let data ← kvRats r "data"
    if data.length ≠ prod shape then none
    else pure (Game.ofProfileArray ⟨shape, data⟩)
  | some "zeros" => do
    let nums ← kvNats r "nums"
    pure (.ok (Game.zeros nums))
  | some "sym" => do
    let n ← kvNat r "n"
    let data ← kvRats r "data"
    if data.length ≠ n * n then none else pure (Game.ofSquare ⟨[n, n], data⟩)
  | some "players" => do
    let shapes ← kvNatMat r "shapes"
    let datas ← kvRatMat r "datas"
    if shapes.length ≠ datas.length then none
    else if (List.zip shapes datas).any (fun sd => sd.2.length != prod sd.1) then none
    else
      let ps : List (Arr Rat) := (List.zip shapes datas).map fun sd => ⟨sd.1, sd.2⟩
      if ps.all Game.playerOk then pure (Game.ofPlayers ps) else pure (.error .value)
  | some "gam" => do
    let nums ← kvNats r "nums"
    let data ← kvRats r "data"
    pure (parseGam nums data)
  | some "poly" => do
    let nums ← kvNats r "nums"
    let mats ← kvRatMat r "mats"   -- pairs (i,j), i ≠ j, in lexicographic order
    let Nn := nums.length
    if mats.length ≠ Nn * (Nn - 1) then none
    else
      let pm := fun (i j : Nat) => mats.getD (i * (Nn - 1) + (if j < i then j else j - 1)) []
      pure (.ok (ofPolymatrix nums pm))
  | _ => none

def handle (toks : List String) : String :=
  match toks with
  | "p2m" :: r =>
    -- pure2mixed(n, a): NumPy indexing of the zero vector (negative `a` counts from the end)
    match kvNat r "n", kvInt r "a" with
    | some n, some a =>
      match normIdx n a with
      | some k => "v" ++ showList showRat (pure2mixed (α := Rat) n k)
      | none => "ERR:IndexError"
    | _, _ => "bad-op"
  | "br2p" :: r =>
    match kvNat r "n", kvNat r "m", kvRats r "data", kvRats r "x", kv r "tol" with
    | some n, some m, some data, some x, some t =>
      match parseTol? t with
      | some tol =>
        if data.length ≠ n * m ∨ x.length ≠ m ∨ n = 0 then "bad-op"
        else match bestResponse2p ⟨[n, m], data⟩ x tol with
          | some a => "i" ++ toString a
          | none => "none"
      | none => "bad-op"
    | _, _, _, _, _ => "bad-op"
  | "run" :: r =>
    match parseCtor r, kv r "ops" with
    | some (.error e), _ => e.show
    | some (.ok g), some opss =>
      let ops? := if opss = "-" then some [] else (opss.splitOn "|").mapM parseOp?
      match ops? with
      | none => "bad-op"
      | some ops =>
        let res := run g ops
        "|".intercalate (("-#" ++ showGame g) :: res.map fun og => showOut og.1 ++ "#" ++ showGame og.2)
    | _, _ => "bad-op"
  | _ => "bad-op"

end QE.C14
