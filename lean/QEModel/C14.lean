/-
  QEModel.C14 — executable model for property C14 (stub; to be filled in).
-/
import QEModel.Base
namespace QE.C14

def handle (_toks : List String) : String := "bad-op"

end QE.C14
