/-
  QEModel.C03 — executable model for property C03 (stub; to be filled in).
-/
import QEModel.Base
namespace QE.C03

def handle (_toks : List String) : String := "bad-op"

end QE.C03
