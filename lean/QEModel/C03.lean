/-
  QEModel.C03 — communication / recurrent / cyclic classes and period
  (pure graph logic).  Mirrors quantecon/_graph_tools.py (DiGraph: `_find_scc`,
  `_condensation_lil`, `_find_sink_scc`, `*_components_indices`, `_compute_period`,
  `cyclic_components_indices`, `subgraph`, `annotate_nodes`) and
  quantecon/markov/core.py (MarkovChain: `is_irreducible`, `*_classes[_indices]`,
  `period`, `is_aperiodic`, `cyclic_classes[_indices]`).

  A digraph is `n` plus the CSR structure of `self.csgraph`: for every row `u` the
  stored column indices in storage order (`G.out u`).  SciPy's
  `connected_components(connection='strong')` is replaced by the model's own
  computation (frontier saturation + mutual reachability) and compared by output;
  SciPy's `breadth_first_order` is mirrored as a queue BFS.
-/
import QEModel.Base
namespace QE.C03

structure G where
  n : Nat
  succ : List (List Nat)
deriving Repr

namespace G

/-- stored column indices of row `u` (CSR order) -/
def out (g : G) (u : Nat) : List Nat := g.succ.getD u []

/-- shape check: `n` rows, all column indices `< n` -/
def wf (g : G) : Bool := g.succ.length == g.n && g.succ.all (fun r => r.all (fun v => decide (v < g.n)))

/-- `_csr_matrix_indices(S)`: the stored `(row, col)` pairs, row by row -/
def edges (g : G) : List (Nat × Nat) :=
  (List.range g.n).flatMap fun u => (g.out u).map fun v => (u, v)

end G

/-! ### reachability by frontier saturation -/

/-- one round: `S ∪ succ(S)`, as a sub-list of `range n` -/
def expand (g : G) (S : List Nat) : List Nat :=
  (List.range g.n).filter fun v => S.contains v || S.any fun u => (g.out u).contains v

/-- iterate `expand` until nothing changes; `none` when the fuel runs out before
    saturation has been observed (explicit saturation test) -/
def reachLoop (g : G) : Nat → List Nat → Option (List Nat)
  | 0, S => if expand g S == S then some S else none
  | k + 1, S => if expand g S == S then some S else reachLoop g k (expand g S)

/-- the set of nodes reachable from `s` (in 0 or more steps), fuel `n` -/
def reachFrom (g : G) (s : Nat) : Option (List Nat) :=
  reachLoop g g.n ((List.range g.n).filter fun v => v == s)

/-- row `u` = reach set of `u` (`[]` stands for "no answer"; `reachOK` is the guard) -/
def reachTable (g : G) : List (List Nat) :=
  (List.range g.n).map fun u => (reachFrom g u).getD []

def reachOK (g : G) : Bool := (List.range g.n).all fun u => (reachFrom g u).isSome

/-! ### strongly connected components (`_find_scc`, `strongly_connected_components_indices`) -/

/-- `u` and `v` communicate -/
def comm (R : List (List Nat)) (u v : Nat) : Bool :=
  (R.getD u []).contains v && (R.getD v []).contains u

/-- the communication class of `u`, increasing -/
def sccOf (R : List (List Nat)) (n u : Nat) : List Nat :=
  (List.range n).filter fun v => comm R u v

/-- all classes, each once (kept at its least member), ordered by least member -/
def sccList (R : List (List Nat)) (n : Nat) : List (List Nat) :=
  ((List.range n).filter fun u => (sccOf R n u).head? == some u).map (sccOf R n)

/-- the classes; `none` when some reachability computation did not saturate -/
def sccClasses (g : G) : Option (List (List Nat)) :=
  if reachOK g then some (sccList (reachTable g) g.n) else none

/-- `scc_proj` (with the model's own numbering of the classes) -/
def classIdx (Cs : List (List Nat)) (u : Nat) : Nat := Cs.findIdx fun C => C.contains u

/-! ### condensation and sink components (`_condensation_lil`, `_find_sink_scc`) -/

/-- entries set to `True` in `condensation_lil`, edge by edge -/
def condEdges (g : G) (Cs : List (List Nat)) : List (Nat × Nat) :=
  (g.edges.filter fun e => classIdx Cs e.1 != classIdx Cs e.2).map
    fun e => (classIdx Cs e.1, classIdx Cs e.2)

/-- `np.where(np.logical_not(condensation_lil.rows))[0]`: labels whose row is empty -/
def sinkLabels (g : G) (Cs : List (List Nat)) : List Nat :=
  (List.range Cs.length).filter fun k => !(condEdges g Cs).any fun e => e.1 == k

/-- `sink_strongly_connected_components_indices` (general branch) -/
def sinkClasses (g : G) (Cs : List (List Nat)) : List (List Nat) :=
  (sinkLabels g Cs).map fun k => Cs.getD k []

/-! ### breadth-first search from node 0 (`csgraph.breadth_first_order`) -/

/-- visited nodes in discovery order: `(node, predecessor, level)`;
    the root has predecessor `none` (SciPy: -9999) -/
abbrev Vis := List (Nat × Option Nat × Nat)

def visLookup (vis : Vis) (v : Nat) : Option (Nat × Option Nat × Nat) := vis.find? fun e => e.1 == v

def visited (vis : Vis) (v : Nat) : Bool := (visLookup vis v).isSome

/-- one pass of `for i in range(1, n): level[node_order[i]] = level[predecessors[node_order[i]]] + 1`
    (`e` is the queue entry of `node_order[i]`; its recorded predecessor is `predecessors[node_order[i]]`) -/
def levStep (lev : List Int) (e : Nat × Option Nat × Nat) : List Int :=
  lev.set e.1 (lev.getD (e.2.1.getD 0) 0 + 1)

/-- `level = np.zeros(n)` followed by that loop over the queue entries after the root.
    (The third component of a queue entry — the level noted at discovery — is a proof-side
    annotation; `levelArr_spec` shows that this loop recomputes exactly those numbers.) -/
def levelArr (n : Nat) (vis : Vis) : List Int :=
  vis.tail.foldl levStep (List.replicate n 0)

/-- `level[v]` -/
def levelOf (n : Nat) (vis : Vis) (v : Nat) : Int := (levelArr n vis).getD v 0

/-- `predecessors[v]` -/
def predOf (vis : Vis) (v : Nat) : Option Nat := (visLookup vis v).bind fun e => e.2.1

/-- scan the neighbours of `u` (level `lu`) in CSR order, appending the new ones -/
def bfsVisit (vis : Vis) (u lu : Nat) : List Nat → Vis
  | [] => vis
  | v :: vs =>
    if visited vis v then bfsVisit vis u lu vs
    else bfsVisit (vis ++ [(v, some u, lu + 1)]) u lu vs

/-- `while i_nl < i_nl_end`: process the `i`-th node of the queue -/
def bfsLoop (g : G) : Nat → Nat → Vis → Vis
  | 0, _, vis => vis
  | fuel + 1, i, vis =>
    match vis[i]? with
    | none => vis
    | some e => bfsLoop g fuel (i + 1) (bfsVisit vis e.1 e.2.2 (g.out e.1))

def bfs (g : G) : Vis := bfsLoop g g.n 0 [(0, none, 0)]

def allVisited (g : G) (vis : Vis) : Bool := (List.range g.n).all fun v => visited vis v

/-! ### period (`_compute_period`) -/

/-- `level[node_from] - level[node_to] + 1` -/
def edgeVal (lev : Nat → Int) (e : Nat × Nat) : Int := lev e.1 - lev e.2 + 1

/-- one pass of the `for node_from, node_to in …` loop; the early `return` at
    `d == 1` is the first branch -/
def gcdStep (lev : Nat → Int) (d : Nat) (e : Nat × Nat) : Nat :=
  if d == 1 then 1 else Nat.gcd d (edgeVal lev e).natAbs

/-- entries of `self.csgraph - bfs_tree_csr` after `eliminate_zeros` -/
def nonTree (vis : Vis) (es : List (Nat × Nat)) : List (Nat × Nat) :=
  es.filter fun e => predOf vis e.2 != some e.1

def periodBFS (g : G) (vis : Vis) : Nat :=
  (nonTree vis g.edges).foldl (gcdStep (levelOf g.n vis)) 0

inductive Res (α : Type) where
  | ok (a : α)
  | notImpl          -- NotImplementedError
  | stuck            -- the model's own guard failed (never expected)
deriving Repr, DecidableEq

def hasSelfLoop (g : G) : Bool := (List.range g.n).any fun u => (g.out u).contains u

def isSC (Cs : List (List Nat)) : Bool := Cs.length == 1

/-- `DiGraph.period` together with `_cyclic_components_proj` (as the level table
    and the modulus; `none` = all zeros) -/
def periodDG (g : G) (Cs : List (List Nat)) : Res (Nat × Option Vis) :=
  if g.n == 1 then .ok (1, none)
  else if !isSC Cs then .notImpl
  else if hasSelfLoop g then .ok (1, none)
  else
    let vis := bfs g
    if !allVisited g vis then .stuck
    else
      let d := periodBFS g vis
      if d == 1 then .ok (1, none) else .ok (d, some vis)

/-- `cyclic_components_indices` -/
def cyclicClasses (g : G) (d : Nat) (proj : Option Vis) : List (List Nat) :=
  match proj with
  | none => [List.range g.n]
  | some vis =>
    if d == 1 then [List.range g.n]
    else (List.range d).map fun (k : Nat) =>
      (List.range g.n).filter fun v => levelOf g.n vis v % (d : Int) == (k : Int)

/-! ### sub-graph on a class and the period of a reducible chain -/

/-- `DiGraph.subgraph(nodes)`: `csgraph[np.ix_(nodes, nodes)]` -/
def subgraph (g : G) (nodes : List Nat) : G :=
  ⟨nodes.length, nodes.map fun u => (g.out u).filterMap fun v =>
    if nodes.contains v then some (nodes.idxOf v) else none⟩

def lcmStep (d p : Nat) : Nat := (d * p) / Nat.gcd d p

/-- `MarkovChain.period` for a reducible chain: fold of `d*period // gcd(d, period)`
    over the recurrent classes -/
def periodRec (g : G) : List (List Nat) → Nat → Res Nat
  | [], d => .ok d
  | C :: rest, d =>
    let h := subgraph g C
    match sccClasses h with
    | none => .stuck
    | some Cs' =>
      match periodDG h Cs' with
      | .ok (p, _) => periodRec g rest (lcmStep d p)
      | .notImpl => .notImpl
      | .stuck => .stuck

/-- `MarkovChain.period` -/
def periodMC (g : G) (Cs : List (List Nat)) : Res Nat :=
  if isSC Cs then
    match periodDG g Cs with
    | .ok (p, _) => .ok p
    | .notImpl => .notImpl
    | .stuck => .stuck
  else periodRec g (sinkClasses g Cs) 1

/-! ### line protocol -/

open QE

def showClasses (lab : Nat → String) (Cs : List (List Nat)) : String := showMat lab Cs

def labeller (labels : Option (List Int)) : Nat → String :=
  match labels with
  | none => fun u => toString u
  | some L => fun u => match L[u]? with
    | some z => toString z
    | none => "?"

/-- everything `DiGraph` reports for one graph -/
def reportDG (g : G) (lab : Nat → String) : String :=
  match sccClasses g with
  | none => "stuck"
  | some Cs =>
    let sc := isSC Cs
    -- `[np.arange(n)]` shortcut of the `*_indices` properties when strongly connected
    let sccs := if sc then [List.range g.n] else Cs
    let sinks := if sc then [List.range g.n] else sinkClasses g Cs
    let per := match periodDG g Cs with
      | .ok (d, proj) =>
        "period=" ++ toString d ++ " aper=" ++ showBool (d == 1) ++ " cyc=" ++ showClasses lab (cyclicClasses g d proj)
      | .notImpl => "period=ERR:NotImplementedError aper=ERR:NotImplementedError cyc=ERR:NotImplementedError"
      | .stuck => "period=stuck"
    "sc=" ++ showBool sc ++ " nscc=" ++ toString Cs.length ++ " nsink=" ++ toString (sinkLabels g Cs).length
      ++ " scc=" ++ showClasses lab sccs ++ " sink=" ++ showClasses lab sinks ++ " " ++ per

/-- everything `MarkovChain` reports for one chain -/
def reportMC (g : G) (lab : Nat → String) : String :=
  match sccClasses g with
  | none => "stuck"
  | some Cs =>
    let sc := isSC Cs
    let sccs := if sc then [List.range g.n] else Cs
    let sinks := if sc then [List.range g.n] else sinkClasses g Cs
    let per := match periodMC g Cs with
      | .ok d => "period=" ++ toString d ++ " aper=" ++ showBool (d == 1)
      | .notImpl => "period=ERR:NotImplementedError aper=ERR:NotImplementedError"
      | .stuck => "period=stuck"
    let cyc :=
      if !sc then "cyc=ERR:NotImplementedError"
      else match periodDG g Cs with
        | .ok (d, proj) => "cyc=" ++ showClasses lab (cyclicClasses g d proj)
        | .notImpl => "cyc=ERR:NotImplementedError"
        | .stuck => "cyc=stuck"
    "irr=" ++ showBool sc ++ " ncomm=" ++ toString Cs.length ++ " nrec=" ++ toString (sinkLabels g Cs).length
      ++ " comm=" ++ showClasses lab sccs ++ " rec=" ++ showClasses lab sinks ++ " " ++ per ++ " " ++ cyc

/-- `DiGraph.__init__`: explicitly stored zeros of a sparse input are not edges
    (`eliminate_zeros()` on a copy).  `stored` = the column indices as stored, row by row;
    `nz` = same shape, non-zero where the stored value is non-zero. -/
def elimZeros (stored nz : List (List Nat)) : List (List Nat) :=
  (stored.zip nz).map fun rf => ((rf.1.zip rf.2).filter fun p => p.2 != 0).map Prod.fst

def sameShape (a b : List (List Nat)) : Bool :=
  a.length == b.length && (a.zip b).all fun p => p.1.length == p.2.length

def parseGraph (r : List String) : Option (G × (Nat → String)) :=
  match kvNat r "n", kvNatMat r "adj" with
  | some n, some adj0 =>
    -- a single empty row is written `-`, which the matrix parser reads as "no rows"
    let fix1 := fun (m : List (List Nat)) => if n == 1 && m.isEmpty then [[]] else m
    let adj? : Option (List (List Nat)) :=
      match kv r "nz" with
      | none => some (fix1 adj0)
      | some _ =>
        match kvNatMat r "nz" with
        | some nz => if sameShape (fix1 adj0) (fix1 nz) then some (elimZeros (fix1 adj0) (fix1 nz)) else none
        | none => none
    match adj? with
    | none => none
    | some adj =>
    let g : G := ⟨n, adj⟩
    if n == 0 || !g.wf then none
    else
      match kv r "labels" with
      | none => some (g, labeller none)
      | some _ =>
        match kvInts r "labels" with
        | some L => if L.length == n then some (g, labeller (some L)) else none
        | none => none
  | _, _ => none

/-! ### object histories: one `DiGraph` / `MarkovChain` object, label reassignments and reads -/

/-- one public read of a `DiGraph` (`*_indices` variants print indices, the others go through
    `annotate_nodes` with the labels passed in); a function of the graph and those labels only -/
def dgRead (g : G) (labels : Option (List Int)) (what : String) : String :=
  match sccClasses g with
  | none => "stuck"
  | some Cs =>
    let sc := isSC Cs
    let sccs := if sc then [List.range g.n] else Cs
    let sinks := if sc then [List.range g.n] else sinkClasses g Cs
    let idx := labeller none
    let lab := labeller labels
    let per := periodDG g Cs
    let cyc := fun (f : Nat → String) => match per with
      | .ok (d, proj) => showClasses f (cyclicClasses g d proj)
      | .notImpl => "ERR:NotImplementedError"
      | .stuck => "stuck"
    match what with
    | "sc" => showBool sc
    | "nscc" => toString Cs.length
    | "nsink" => toString (sinkLabels g Cs).length
    | "scc" => showClasses idx sccs
    | "sink" => showClasses idx sinks
    | "cyc" => cyc idx
    | "scclab" => showClasses lab sccs
    | "sinklab" => showClasses lab sinks
    | "cyclab" => cyc lab
    | "period" => match per with
      | .ok (d, _) => toString d
      | .notImpl => "ERR:NotImplementedError"
      | .stuck => "stuck"
    | "aper" => match per with
      | .ok (d, _) => showBool (d == 1)
      | .notImpl => "ERR:NotImplementedError"
      | .stuck => "stuck"
    | _ => "bad-read"

/-- `g.subgraph(nodes)` read: shape, pattern, labels and report of the new object -/
def dgReadSub (g : G) (labels : Option (List Int)) (nodes : List Nat) : String :=
  if nodes.isEmpty || !(nodes.all fun v => decide (v < g.n)) then "bad-read"
  else
    let h := subgraph g nodes
    let lab := labeller labels
    let lab' : Nat → String := match labels with
      | none => fun i => toString i
      | some _ => fun i => match nodes[i]? with
        | some u => lab u
        | none => "?"
    "n=" ++ toString h.n ++ " adj=" ++ showMat toString (h.succ.map fun row => row.mergeSort (fun a b => decide (a ≤ b)))
      ++ " " ++ reportDG h lab'

/-! ### argument validation of the constructors and of the label setters -/

/-- what the setters look at in a labels argument after `np.asarray`: number of dimensions,
    length of the first axis (0 when 0-dimensional), and whether the dtype is `object` -/
structure LabelArg where
  ndim : Nat
  len0 : Nat
  isObject : Bool
deriving Repr, DecidableEq

inductive InitErr where
  | notSquare        -- 'input matrix must be square' / 'P must be a square matrix'
  | negative         -- 'P must be nonnegative'
  | rowSums          -- 'The rows of P must sum to 1'
  | labelsLength     -- '… must be an array_like of length n'
  | labelsObject     -- 'data in … must be homogeneous in type'
deriving Repr, DecidableEq

def InitErr.code : InitErr → String
  | .notSquare => "not-square"
  | .negative => "negative"
  | .rowSums => "row-sums"
  | .labelsLength => "labels-length"
  | .labelsObject => "labels-object"

/-- `node_labels` / `state_values` setter: `None` passes; otherwise the length test comes first,
    then the dtype test -/
def checkLabels (n : Nat) : Option LabelArg → Option InitErr
  | none => none
  | some a =>
    if a.ndim < 1 ∨ a.len0 ≠ n then some .labelsLength
    else if a.isObject then some .labelsObject
    else none

/-- shape of `sparse.csr_matrix(np.asarray(adj_matrix))` for an array of the given shape
    (1-dimensional input becomes one row) -/
def csrShape : List Nat → Option (Nat × Nat)
  | [k] => some (1, k)
  | [m, k] => some (m, k)
  | _ => none

/-- `DiGraph.__init__`: square test, then the label setter.  `none` = constructed -/
def dgInit (rows cols : Nat) (lab : Option LabelArg) : Option InitErr :=
  if cols ≠ rows then some .notSquare else checkLabels cols lab

/-- `np.allclose(row_sums, 1)`: `|s - 1| ≤ atol + rtol·|1|` with the default `atol = 1e-8`, `rtol = 1e-5` -/
def closeToOne (s : Rat) : Bool :=
  let d := s - 1
  decide ((if d < 0 then -d else d) ≤ (10001 : Rat) / 1000000000)

/-- `MarkovChain.__init__`: square test, non-negativity, row sums, then the `state_values` setter -/
def mcInit (shape : List Nat) (P : List (List Rat)) (vals : Option LabelArg) : Option InitErr :=
  match shape with
  | [m, k] =>
    if m ≠ k then some .notSquare
    else if P.any (fun row => row.any fun x => decide (x < 0)) then some .negative
    else if P.any (fun row => !closeToOne (row.foldl (· + ·) 0)) then some .rowSums
    else checkLabels m vals
  | _ => some .notSquare

inductive Step where
  | setLabels (L : Option (List Int))     -- `g.node_labels = L` / `mc.state_values = L`
  | read (what : String)
  | readSub (nodes : List Nat)
  | badSet (a : LabelArg)                  -- an assignment the setter may reject (shape / dtype summary)
deriving Repr

/-- the state of a `DiGraph` object: the (immutable) graph and the current labels -/
structure DGState where
  g : G
  labels : Option (List Int)

def dgStep (s : DGState) : Step → DGState × Option String
  | .setLabels L => ({ s with labels := L }, none)
  | .read w => (s, some (dgRead s.g s.labels w))
  | .readSub nodes => (s, some (dgReadSub s.g s.labels nodes))
  | .badSet a =>
    -- the setter raises before it stores anything: the object is unchanged
    (s, some (match checkLabels s.g.n (some a) with
      | some e => "ERR:ValueError:" ++ e.code
      | none => "bad-read"))

/-- outputs of the reads of a history, in order -/
def dgRun (s : DGState) : List Step → List String
  | [] => []
  | st :: rest =>
    match dgStep s st with
    | (s', some out) => out :: dgRun s' rest
    | (s', none) => dgRun s' rest

/-- one public read of a `MarkovChain`, `dl` = the node labels of its `digraph` -/
def mcRead (g : G) (dl : Option (List Int)) (what : String) : String :=
  match sccClasses g with
  | none => "stuck"
  | some Cs =>
    let sc := isSC Cs
    let sccs := if sc then [List.range g.n] else Cs
    let sinks := if sc then [List.range g.n] else sinkClasses g Cs
    let idx := labeller none
    let lab := labeller dl
    let cyc := fun (f : Nat → String) =>
      if !sc then "ERR:NotImplementedError"
      else match periodDG g Cs with
        | .ok (d, proj) => showClasses f (cyclicClasses g d proj)
        | .notImpl => "ERR:NotImplementedError"
        | .stuck => "stuck"
    match what with
    | "irr" => showBool sc
    | "ncomm" => toString Cs.length
    | "nrec" => toString (sinkLabels g Cs).length
    | "comm" => showClasses idx sccs
    | "rec" => showClasses idx sinks
    | "cyc" => cyc idx
    | "commlab" => showClasses lab sccs
    | "reclab" => showClasses lab sinks
    | "cyclab" => cyc lab
    | "period" => match periodMC g Cs with
      | .ok d => toString d
      | .notImpl => "ERR:NotImplementedError"
      | .stuck => "stuck"
    | "aper" => match periodMC g Cs with
      | .ok d => showBool (d == 1)
      | .notImpl => "ERR:NotImplementedError"
      | .stuck => "stuck"
    | _ => "bad-read"

/-- the state of a `MarkovChain` object: the chain, the current `state_values`, and the labels its
    `digraph` carries (`none` = `self._digraph` not built yet).  The code builds the digraph at the
    first graph-theoretic read with the `state_values` of that moment; the `state_values` setter
    relabels an already built digraph (`self._digraph.node_labels = self._state_values`). -/
structure MCState where
  g : G
  values : Option (List Int)
  digraph : Option (Option (List Int))

def mcStep (s : MCState) : Step → MCState × Option String
  | .setLabels L =>
    ({ s with values := L, digraph := match s.digraph with
                                      | some _ => some L
                                      | none => none }, none)
  | .read w =>
    let dl := match s.digraph with
      | some dl => dl
      | none => s.values
    ({ s with digraph := some dl }, some (mcRead s.g dl w))
  | .readSub _ => (s, some "bad-read")
  | .badSet a =>
    (s, some (match checkLabels s.g.n (some a) with
      | some e => "ERR:ValueError:" ++ e.code
      | none => "bad-read"))

def mcRun (s : MCState) : List Step → List String
  | [] => []
  | st :: rest =>
    match mcStep s st with
    | (s', some out) => out :: mcRun s' rest
    | (s', none) => mcRun s' rest

def parseStep (n : Nat) (tok : String) : Option Step :=
  match tok.splitOn ":" with
  | ["L", "none"] => some (.setLabels none)
  | ["L", v] => match parseList? parseInt? v with
    | some L => if L.length == n then some (.setLabels (some L)) else none
    | none => none
  | ["R", w] => some (.read w)
  | ["S", v] => (parseList? parseNat? v).map .readSub
  | ["B", v] => match parseList? parseNat? v with
    | some [nd, l0, ob] => some (.badSet ⟨nd, l0, ob != 0⟩)
    | _ => none
  | _ => none

def parseSteps (n : Nat) (s : String) : Option (List Step) :=
  if s = "" ∨ s = "-" then some [] else (s.splitOn "|").mapM (parseStep n)

def handle (toks : List String) : String :=
  match toks with
  | "dg" :: r =>
    match parseGraph r with
    | some (g, lab) => reportDG g lab
    | none => "bad-op"
  | "mc" :: r =>
    match parseGraph r with
    | some (g, lab) => reportMC g lab
    | none => "bad-op"
  | "sub" :: r =>
    -- `DiGraph.subgraph(nodes)`: its shape, pattern (rows sorted for printing), labels, and report
    match parseGraph r, kvNats r "nodes", kv r "labels" with
    | some (g, lab), some nodes, labs =>
      if nodes.isEmpty || !(nodes.all fun v => decide (v < g.n)) then "bad-op"
      else
        let h := subgraph g nodes
        let lab' : Nat → String := match labs with
          | none => fun i => toString i
          | some _ => fun i => match nodes[i]? with
            | some u => lab u
            | none => "?"
        "n=" ++ toString h.n ++ " adj=" ++ showMat toString (h.succ.map fun row => row.mergeSort (fun a b => decide (a ≤ b)))
          ++ " " ++ reportDG h lab'
    | _, _, _ => "bad-op"
  | "init" :: r =>
    -- constructor validation: `kind=dg shape=…` / `kind=mc shape=… P=…`, `lab=none | ndim,len0,isObject`
    let lab? : Option (Option LabelArg) := match kv r "lab" with
      | some "none" => some none
      | some v => match parseList? parseNat? v with
        | some [nd, l0, ob] => some (some ⟨nd, l0, ob != 0⟩)
        | _ => none
      | none => none
    match kv r "kind", kvNats r "shape", lab? with
    | some "dg", some shape, some lab =>
      match csrShape shape with
      | some (m, k) => match dgInit m k lab with
        | none => "ok n=" ++ toString k
        | some e => "ERR:ValueError:" ++ e.code
      | none => "bad-op"
    | some "mc", some shape, some lab =>
      match kvRatMat r "P" with
      | some P => match mcInit shape P lab with
        | none => "ok n=" ++ toString (shape.headD 0)
        | some e => "ERR:ValueError:" ++ e.code
      | none => "bad-op"
    | _, _, _ => "bad-op"
  | "hist" :: r =>
    -- a history on one object: `kind=dg|mc`, initial `labels=` (optional), `steps=tok|tok|…`
    match parseGraph r, kv r "kind", kv r "steps" with
    | some (g, _), some kind, some st =>
      match parseSteps g.n st with
      | none => "bad-op"
      | some steps =>
        let L0 : Option (List Int) := kvInts r "labels"
        let outs := if kind == "dg" then some (dgRun ⟨g, L0⟩ steps)
          else if kind == "mc" then some (mcRun ⟨g, L0, none⟩ steps)
          else none
        match outs with
        | some o => if o.any (· == "bad-read") then "bad-op" else " # ".intercalate o
        | none => "bad-op"
    | _, _, _ => "bad-op"
  | "reach" :: r =>
    match parseGraph r, kvNat r "s" with
    | some (g, _), some s =>
      if s < g.n then
        match reachFrom g s with
        | some S => showList toString S
        | none => "stuck"
      else "bad-op"
    | _, _ => "bad-op"
  | "levels" :: r =>
    match parseGraph r with
    | some (g, _) =>
      let vis := bfs g
      showList (fun (e : Nat × Option Nat × Nat) =>
        toString e.1 ++ ":" ++ (match e.2.1 with | some p => toString p | none => "r") ++ ":" ++ toString e.2.2) vis
    | none => "bad-op"
  | _ => "bad-op"

end QE.C03
