/-
  QEModel.C16 — grid and combinatorial enumerations (all integer / order logic).
  Mirrors: quantecon/util/numba.py (comb_jit), quantecon/util/combinatorics.py
  (next_k_array, k_array_rank[_jit]), quantecon/_gridtools.py (simplex_grid,
  simplex_index, num_compositions[_jit], cartesian/_repeat_1d,
  _cartesian_nearest_indices, _cartesian_index).
-/
import QEModel.Base
namespace QE.C16

/-! ### comb_jit -/

def intpMax : Int := 2 ^ 63 - 1

/-- body of `for j in range(1, nterms+1)`; `rem` iterations remain, next index `j`. -/
def combLoop (Mv : Int) : Nat → Nat → Int → Int
  | 0, _, val => val
  | rem + 1, j, val =>
    if val > intpMax / (Mv - (j : Int)) then 0
    else combLoop Mv rem (j + 1) (val * (Mv - (j : Int)) / (j : Int))

def combJit (N k : Int) : Int :=
  if N < 0 ∨ k < 0 ∨ k > N then 0
  else
    let nterms := min k (N - k)
    if nterms = 0 then 1
    else if nterms = 1 then N
    else if N = intpMax then 0
    else combLoop (N + 1) nterms.toNat 1 1

/-- two's-complement reduction of an integer to the `int64` range (what a machine
    `intp` operation returns). Proof-side helper: not used by the driver. -/
def wrap64 (x : Int) : Int := (x + 2 ^ 63) % 2 ^ 64 - 2 ^ 63

/-- `combLoop` with every arithmetic result reduced to `int64` (the machine computation). -/
def combLoopW (Mv : Int) : Nat → Nat → Int → Int
  | 0, _, val => val
  | rem + 1, j, val =>
    if val > intpMax / wrap64 (Mv - (j : Int)) then 0
    else combLoopW Mv rem (j + 1) (wrap64 (wrap64 (val * wrap64 (Mv - (j : Int))) / (j : Int)))

/-- `combJit` with every arithmetic result reduced to `int64`. -/
def combJitW (N k : Int) : Int :=
  if N < 0 ∨ k < 0 ∨ k > N then 0
  else
    let nterms := min k (wrap64 (N - k))
    if nterms = 0 then 1
    else if nterms = 1 then N
    else if N = intpMax then 0
    else combLoopW (wrap64 (N + 1)) nterms.toNat 1 1

/-- `scipy.special.comb(N, k, exact=True)` as used by the non-jitted twins. -/
def chooseNat : Nat → Nat → Nat
  | _, 0 => 1
  | 0, _ + 1 => 0
  | n + 1, k + 1 => chooseNat n k + chooseNat n (k + 1)

/-- fast exact binomial for the driver (multiplicative formula, exact division) -/
def chooseFast (n k : Nat) : Nat :=
  if k > n then 0 else
  let k' := min k (n - k)
  (List.range k').foldl (fun acc j => acc * (n - j) / (j + 1)) 1

/-! ### num_compositions -/

def numCompositions (m n : Nat) : Nat := chooseFast (n + m - 1) (m - 1)
def numCompositionsJit (m n : Int) : Int := combJit (n + m - 1) (m - 1)

/-! ### simplex_grid : state `(x, h)` -/

structure SG where
  x : List Nat
  h : Nat
deriving Repr

/-- one pass of the loop body of `simplex_grid` (the part that updates `x` and `h`). -/
def sgStep (m : Nat) (s : SG) : SG :=
  let h := s.h - 1
  let val := s.x.getD h 0
  let x1 := s.x.set h 0
  let x2 := x1.set (m - 1) (val - 1)
  let x3 := x2.set (h - 1) (x2.getD (h - 1) 0 + 1)
  ⟨x3, if val ≠ 1 then m else h⟩

def sgInit (m n : Nat) : SG := ⟨(List.replicate (m - 1) 0) ++ [n], m⟩

/-- rows `0 .. L-1` of the grid -/
def sgRows (m : Nat) : Nat → SG → List (List Nat)
  | 0, _ => []
  | k + 1, s => s.x :: sgRows m k (sgStep m s)

/-- `simplex_grid(m, n)`; `none` models the `ValueError` raised when
    `num_compositions_jit` returns 0. -/
def simplexGrid (m n : Nat) : Option (List (List Nat)) :=
  let L := numCompositionsJit m n
  if L = 0 then none else some (sgRows m L.toNat (sgInit m n))

/-! ### simplex_index -/

/-- `np.cumsum(x[-1:0:-1])[::-1]` : decumsum[i] = x[i+1] + … + x[m-1] -/
def decumsum (x : List Nat) : List Nat :=
  (List.range (x.length - 1)).map fun i => (x.drop (i + 1)).foldl (· + ·) 0

def simplexIndexLoop (m : Nat) (dec : List Nat) : Nat → Nat → Int → Int
  | 0, _, idx => idx
  | rem + 1, i, idx =>
    let d := dec.getD i 0
    if d = 0 then idx
    else simplexIndexLoop m dec rem (i + 1) (idx - (numCompositions (m - i) (d - 1) : Int))

def simplexIndex (x : List Nat) (m n : Nat) : Int :=
  if m = 1 then 0
  else simplexIndexLoop m (decumsum x) (m - 1) 0 ((numCompositions m n : Int) - 1)

/-! ### next_k_array / k_array_rank -/

/-- the `while i < k-1 and x == a[i+1]` loop; returns `(a, i, x)` -/
def nkLoop (k : Nat) : Nat → List Nat → Nat → Nat → List Nat × Nat × Nat
  | 0, a, i, x => (a, i, x)
  | fuel + 1, a, i, x =>
    if i < k - 1 ∧ x = a.getD (i + 1) 0 then
      let i' := i + 1
      let a' := a.set (i' - 1) (i' - 1)
      nkLoop k fuel a' i' (a'.getD i' 0 + 1)
    else (a, i, x)

def nextKArray (a : List Nat) : List Nat :=
  let k := a.length
  if k = 1 ∨ a.getD 0 0 + 1 < a.getD 1 0 then a.set 0 (a.getD 0 0 + 1)
  else
    let a0 := a.set 0 0
    let (a1, i, x) := nkLoop k k a0 1 (a0.getD 1 0 + 1)
    a1.set i x

def kArrayRankAux : List Nat → Nat → Nat
  | [], _ => 0
  | ai :: rest, i => chooseFast ai (i + 1) + kArrayRankAux rest (i + 1)

/-- `k_array_rank` : Σ_i C(a_i, i+1) (with C(a_0,1) = a_0) -/
def kArrayRank (a : List Nat) : Nat := kArrayRankAux a 0

def kArrayRankJitAux : List Int → Int → Int
  | [], _ => 0
  | ai :: rest, i => combJit ai (i + 1) + kArrayRankJitAux rest (i + 1)

/-- `k_array_rank_jit` on the no-overflow domain (sum of `comb_jit` values) -/
def kArrayRankJit (a : List Int) : Int :=
  match a with
  | [] => 0
  | a0 :: rest => a0 + kArrayRankJitAux rest 1

/-- the loop `for i in range(1, k): idx += comb_jit(a[i], i+1)` of `k_array_rank_jit` as the
    machine executes it: accumulating from the left, every arithmetic result reduced to `int64` -/
def kArrayRankJitWLoop : List Int → Int → Int → Int
  | [], _, idx => idx
  | ai :: rest, i, idx =>
    kArrayRankJitWLoop rest (wrap64 (i + 1)) (wrap64 (idx + combJitW ai (wrap64 (i + 1))))

/-- `k_array_rank_jit` with `int64` wrap-around (what Numba computes, also when the sum overflows) -/
def kArrayRankJitW (a : List Int) : Int :=
  match a with
  | [] => 0
  | a0 :: rest => kArrayRankJitWLoop rest 1 a0

/-! ### cartesian / _repeat_1d -/

/-- `_repeat_1d(x, K, out)` as the function `ind ↦ out[ind]`: with N = len x,
    L = len(out) // (K*N), the write `out[k*N*L + n*L + l] = x[n]` -/
def repeat1d {α : Type} [Zero α] (x : List α) (K total : Nat) : List α :=
  let N := x.length
  let L := total / (K * N)
  -- imperative triple loop, later writes overwrite earlier ones
  let out0 : Array α := Array.replicate total 0
  let out := (List.range N).foldl (fun out n =>
    (List.range K).foldl (fun out k =>
      (List.range L).foldl (fun out l => out.setIfInBounds (k * N * L + n * L + l) (x.getD n 0)) out) out) out0
  out.toList

def cumprodShift (shapes : List Nat) : List Nat :=
  -- np.cumprod([1] + shapes[:-1])
  (List.range shapes.length).map fun i => (shapes.take i).foldl (· * ·) 1

def cartesian {α : Type} [Zero α] (nodes : List (List α)) (orderF : Bool) : List (List α) :=
  let shapes := nodes.map List.length
  let l := shapes.foldl (· * ·) 1
  let reps : List Nat :=
    if orderF then (cumprodShift shapes.reverse).reverse
    else cumprodShift shapes
  -- note: for order C, `repetitions[i]` is the product of the *earlier* shapes
  let cols : List (List α) := (List.range nodes.length).map fun i =>
    repeat1d (nodes.getD i []) (reps.getD i 1) l
  (List.range l).map fun r => cols.map fun c => c.getD r 0

/-! ### cartesian / mlinspace as called (argument handling and error branches) -/

/-- `cartesian(nodes, order)` as called: no grids → `np.result_type()` raises `ValueError`;
    an empty grid → `_repeat_1d` divides by `K*N = 0` (`ZeroDivisionError`); any `order` other
    than `'C'` takes the F branch. -/
def cartesianApi {α : Type} [Zero α] (nodes : List (List α)) (order : String) :
    Except String (List (List α)) :=
  if nodes.isEmpty then .error "ValueError"
  else if nodes.any List.isEmpty then .error "ZeroDivisionError"
  else .ok (cartesian nodes (!(order == "C")))

/-- `np.linspace(start, stop, num)` (endpoint=True, scalar end points), operation by operation:
    `y = arange(num)`; `div = num-1`; if `div > 0`: `step = delta/div`, and `y = y*step`
    (or `y = y/div*delta` when `step == 0`), else `y = y*delta`; `y += start`; finally
    `y[-1] = stop` when `num > 1`. `cast` is the int → float conversion. -/
def linspace {α : Type} [Add α] [Sub α] [Mul α] [Div α] [Zero α] [BEq α] (cast : Nat → α)
    (start stop : α) (num : Nat) : List α :=
  let div := num - 1
  let delta := stop - start
  let y : List α :=
    if div > 0 then
      let step := delta / cast div
      if step == 0 then (List.range num).map fun i => cast i / cast div * delta + start
      else (List.range num).map fun i => cast i * step + start
    else (List.range num).map fun i => cast i * delta + start
  if num > 1 then y.set (num - 1) stop else y

/-- the list comprehension `[np.linspace(a[i], b[i], nums[i]) for i in range(len(nums))]`:
    the first failing index decides (`a[i]`/`b[i]` out of range: `IndexError`; negative
    `nums[i]`: `ValueError`) -/
def mlGrids {α : Type} [Add α] [Sub α] [Mul α] [Div α] [Zero α] [BEq α] (cast : Nat → α)
    (a b : List α) : List Int → Nat → Except String (List (List α))
  | [], _ => .ok []
  | n :: rest, i =>
    if a.length ≤ i ∨ b.length ≤ i then .error "IndexError"
    else if n < 0 then .error "ValueError"
    else match mlGrids cast a b rest (i + 1) with
      | .error e => .error e
      | .ok gs => .ok (linspace cast (a.getD i 0) (b.getD i 0) n.toNat :: gs)

/-- `mlinspace(a, b, nums, order)` -/
def mlinspaceApi {α : Type} [Add α] [Sub α] [Mul α] [Div α] [Zero α] [BEq α] (cast : Nat → α)
    (a b : List α) (nums : List Int) (order : String) : Except String (List (List α)) :=
  match mlGrids cast a b nums 0 with
  | .error e => .error e
  | .ok grids => cartesianApi grids order

/-! ### cartesian_nearest_index -/

/-- `np.searchsorted(a, v)` (side='left'): first index with `v ≤ a[i]` -/
def searchLeft {α : Type} [LE α] [DecidableLE α] (a : List α) (v : α) : Nat :=
  (a.takeWhile fun y => ¬ (v ≤ y)).length

def nearest1 {α : Type} [Zero α] [Sub α] [LE α] [LT α] [DecidableLE α] [DecidableLT α]
    (g : List α) (x : α) : Nat :=
  if x ≤ g.getD 0 0 then 0
  else if g.getD (g.length - 1) 0 ≤ x then g.length - 1
  else
    let k := searchLeft g x
    if g.getD k 0 - x < x - g.getD (k - 1) 0 then k else k - 1

/-- `_cartesian_index(indices, nums_grids)` -/
def cartesianIndex (indices nums : List Nat) : Nat :=
  let n := indices.length
  ((List.range n).foldl (fun (acc : Nat × Nat) i =>
      let p := n - 1 - i
      (acc.1 + acc.2 * indices.getD p 0, acc.2 * nums.getD p 0)) (0, 1)).1

def nearestIndex {α : Type} [Zero α] [Sub α] [LE α] [LT α] [DecidableLE α] [DecidableLT α]
    (nodes : List (List α)) (x : List α) (orderF : Bool) : Nat :=
  let ind := (List.range nodes.length).map fun i => nearest1 (nodes.getD i []) (x.getD i 0)
  let nums := nodes.map List.length
  if orderF then cartesianIndex ind.reverse nums.reverse else cartesianIndex ind nums

/-- `cartesian_nearest_index(x, nodes, order)` as called, for a batch `X` of points whose
    common length is `n` (`n = x.shape[-1]`; a 1-d `x` is the batch `[x]`): `type(e[0])` raises
    `IndexError` on an empty grid, `np.result_type()` raises `ValueError` without grids, then
    the length test raises `ValueError`; the kernel takes the F branch only for `order == 'F'`
    (any other string counts as `'C'` — unlike `cartesian`). -/
def nearestIndexApi {α : Type} [Zero α] [Sub α] [LE α] [LT α] [DecidableLE α] [DecidableLT α]
    (X : List (List α)) (n : Nat) (nodes : List (List α)) (order : String) :
    Except String (List Nat) :=
  if nodes.any List.isEmpty then .error "IndexError"
  else if nodes.isEmpty then .error "ValueError"
  else if nodes.length ≠ n then .error "ValueError"
  else .ok (X.map fun x => nearestIndex nodes x (order == "F"))

/-! ### line protocol -/

open QE in
def handle (toks : List String) : String :=
  match toks with
  | "comb" :: r =>
    match kvInt r "N", kvInt r "k" with
    | some N, some k => toString (combJit N k)
    | _, _ => "bad-op"
  | "numcomp" :: r =>
    match kvNat r "m", kvNat r "n" with
    | some m, some n => toString (numCompositions m n)
    | _, _ => "bad-op"
  | "numcompjit" :: r =>
    match kvInt r "m", kvInt r "n" with
    | some m, some n => toString (numCompositionsJit m n)
    | _, _ => "bad-op"
  | "simplex" :: r =>
    match kvNat r "m", kvNat r "n" with
    | some m, some n =>
      match simplexGrid m n with
      | some rows => showMat toString rows
      | none => "ERR:ValueError"
    | _, _ => "bad-op"
  | "sindex" :: r =>
    match kvNats r "x", kvNat r "m", kvNat r "n" with
    | some x, some m, some n => toString (simplexIndex x m n)
    | _, _, _ => "bad-op"
  | "nextk" :: r =>
    match kvNats r "a" with
    | some a => showList toString (nextKArray a)
    | _ => "bad-op"
  | "krank" :: r =>
    match kvNats r "a" with
    | some a => toString (kArrayRank a)
    | _ => "bad-op"
  | "krankjit" :: r =>
    match kvInts r "a" with
    | some a => toString (kArrayRankJit a)
    | _ => "bad-op"
  | "cartapi" :: r =>
    -- nodes=none : no grids; otherwise grids separated by ';', an empty grid written '-'
    match kv r "nodes", kv r "order" with
    | some ns, some o =>
      let grids : Option (List (List Int)) :=
        if ns = "none" then some [] else (ns.splitOn ";").mapM (parseList? parseInt?)
      match grids with
      | some g =>
        match cartesianApi g o with
        | .ok rows => showMat toString rows
        | .error e => "ERR:" ++ e
      | none => "bad-op"
    | _, _ => "bad-op"
  | "nearestapi" :: r =>
    -- nodes / X : "none" = empty list of rows; rows separated by ';', an empty row written '-'
    match kv r "X", kvNat r "n", kv r "nodes", kv r "order" with
    | some xs, some n, some ns, some o =>
      let rd (t : String) : Option (List (List Rat)) :=
        if t = "none" then some [] else (t.splitOn ";").mapM (parseList? parseRat?)
      match rd xs, rd ns with
      | some X, some nodes =>
        if X.all (fun x => x.length == n) then
          match nearestIndexApi X n nodes o with
          | .ok idx => showList toString idx
          | .error e => "ERR:" ++ e
        else "bad-op"
      | _, _ => "bad-op"
    | _, _, _, _ => "bad-op"
  | "linspace" :: r =>
    match kvFloats r "a", kvFloats r "b", kvNat r "num" with
    | some [a], some [b], some num => showList showFloatBits (linspace Float.ofNat a b num)
    | _, _, _ => "bad-op"
  | "mlinspace" :: r =>
    match kvFloats r "a", kvFloats r "b", kvInts r "nums", kv r "order" with
    | some a, some b, some nums, some o =>
      match mlinspaceApi Float.ofNat a b nums o with
      | .ok rows => showMat showFloatBits rows
      | .error e => "ERR:" ++ e
    | _, _, _, _ => "bad-op"
  | "krankjitw" :: r =>
    match kvInts r "a" with
    | some a => if a.isEmpty then "bad-op" else toString (kArrayRankJitW a)
    | _ => "bad-op"
  | "cartesian" :: r =>
    match kvIntMat r "nodes", kv r "order" with
    | some nodes, some o => showMat toString (cartesian nodes (o = "F"))
    | _, _ => "bad-op"
  | "repeat1d" :: r =>
    match kvInts r "x", kvNat r "K", kvNat r "total" with
    | some x, some K, some total =>
      if K * x.length = 0 then "bad-op" else showList toString (repeat1d x K total)
    | _, _, _ => "bad-op"
  | "cindex" :: r =>
    match kvNats r "ind", kvNats r "nums" with
    | some ind, some nums =>
      if ind.length = nums.length then toString (cartesianIndex ind nums) else "bad-op"
    | _, _ => "bad-op"
  | "nearest" :: r =>
    match kvRatMat r "nodes", kvRats r "x", kv r "order" with
    | some nodes, some x, some o => toString (nearestIndex nodes x (o = "F"))
    | _, _, _ => "bad-op"
  | _ => "bad-op"

end QE.C16
