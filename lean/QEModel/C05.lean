/-
  QEModel.C05 — executable model for property C05 (stub; to be filled in).
-/
import QEModel.Base
namespace QE.C05

def handle (_toks : List String) : String := "bad-op"

end QE.C05
