/-
  QEModel.C05 — two-player Nash solvers and brute-force pure equilibria.
  Mirrors
    quantecon/game_theory/lemke_howson.py   (_initialize_tableaux 291-315,
        _lemke_howson_tbl 377-418, _lemke_howson_capping 193-220,
        _get_mixed_actions 444-459) on top of QEModel.Pivot,
    quantecon/game_theory/support_enumeration.py (_support_enumeration_gen 84-113,
        _indiff_mixed_action 157-190) on top of C16.nextKArray, with the LAPACK
        solve as a parameter (the driver instantiates MatAlg.solve, exact
        Gauss-Jordan),
    quantecon/game_theory/vertex_enumeration.py (_ints_arr_to_bits 287-290,
        _vertex_enumeration_gen 106-123, _get_mixed_actions 318-335) with
        Qhull's (equations, simplices) as inputs,
    quantecon/game_theory/pure_nash.py 67-69 with NormalFormGame.is_nash /
        Player.is_best_response / payoff_vector unfolded for pure profiles.

  A bimatrix game is `(m, n, A, B)`: `A i j` (i<m, j<n) is `payoff_arrays[0]`,
  `B j i` (j<n, i<m) is `payoff_arrays[1]` (own action first), as total functions
  read only below the dimensions.
-/
import QEModel.Base
import QEModel.Pivot
import QEModel.MatAlg
import QEModel.C16
namespace QE.C05
open QE QE.Pivot QE.MatAlg

variable {α : Type} [Zero α] [One α] [Add α] [Sub α] [Mul α] [Div α] [Neg α] [LT α] [LE α]
  [DecidableLT α] [DecidableLE α] [BEq α]

/-! ### payoffs of mixed actions (shared by the solvers and the specification) -/

/-- `(A y)_i = Σ_{j<n} A i j * y j` -/
def payoffVec (n : Nat) (A : Nat → Nat → α) (y : Nat → α) (i : Nat) : α :=
  sumRange n fun j => A i j * y j

/-- `xᵀ v = Σ_{i<m} x i * v i` -/
def dotTo (m : Nat) (x v : Nat → α) : α := sumRange m fun i => x i * v i

/-! ### Lemke-Howson -/

/-- `payoff_matrix.min()` over an `r × c` array -/
def matMin (r c : Nat) (A : Nat → Nat → α) : α :=
  (List.range r).foldl (fun acc i =>
    (List.range c).foldl (fun acc j => if A i j < acc then A i j else acc) acc) (A 0 0)

/-- lemke_howson.py 293-297: the constant added to a payoff matrix whose minimum is `≤ 0` -/
def shiftConst (r c : Nat) (A : Nat → Nat → α) : α :=
  let mn := matMin r c A
  if mn ≤ 0 then mn * (-(1 : α)) + 1 else 0

/-- `tableaux[0]` (n rows): columns `0..m-1` hold player 1's shifted payoffs `B`, columns
    `m..m+n-1` the slack identity, column `m+n` ones. -/
def initT0 (m n : Nat) (B : Nat → Nat → α) : M α :=
  let c1 := shiftConst n m B
  M.tab n (m + n + 1) fun i j =>
    if j < m then B i j + c1
    else if j < m + n then (if j - m = i then 1 else 0)
    else 1

/-- `tableaux[1]` (m rows): columns `0..m-1` the slack identity, columns `m..m+n-1` player 0's
    shifted payoffs `A`, column `m+n` ones. -/
def initT1 (m n : Nat) (A : Nat → Nat → α) : M α :=
  let c0 := shiftConst m n A
  M.tab m (m + n + 1) fun i j =>
    if j < m then (if j = i then 1 else 0)
    else if j < m + n then A i (j - m) + c0
    else 1

/-- the pair of tableaux, the pair of bases, the entering variable, the step counter -/
structure LHState (α : Type) where
  T0 : M α
  T1 : M α
  b0 : List Nat
  b1 : List Nat
  pivot : Nat
  numIter : Nat
  /-- diagnostic, not a variable of the code: number of ratio tests so far that reported
      `found = False` (the code ignores the flag and pivots on `argmins[0]` anyway) -/
  nf : Nat
  /-- diagnostic: number of ratio tests whose first pass (on the last column) left at least two
      rows, i.e. that went into the lexicographic tie-breaking loop -/
  ties : Nat

/-- `_initialize_tableaux`; `bases = (m..m+n-1, 0..m-1)` -/
def lhInit (m n : Nat) (A B : Nat → Nat → α) (pivot : Nat) : LHState α :=
  ⟨initT0 m n B, initT1 m n A, (List.range n).map (· + m), List.range m, pivot, 0, 0, 0⟩

/-- diagnostic: did the first pass of the ratio test leave a tie? -/
def firstPassTie (T : M α) (pivotc : Nat) (tp td : α) : Nat :=
  if (minRatioNoTie T pivotc (T.nc - 1) (List.range T.nr) tp td).length ≥ 2 then 1 else 0

/-- one pass of the body of `for pl in pls` (lemke_howson.py 398-407): ratio test, pivoting,
    exchange of the entering and the leaving variable. `slack_starts = (m, 0)`. -/
def lhStep (m : Nat) (tp td : α) (s : LHState α) (pl : Nat) : LHState α :=
  if pl = 0 then
    let fr := lexMinRatio s.T0 s.pivot m tp td
    { s with T0 := pivot s.T0 s.pivot fr.2, b0 := s.b0.set fr.2 s.pivot, pivot := s.b0.getD fr.2 0,
             numIter := s.numIter + 1, nf := if fr.1 then s.nf else s.nf + 1,
             ties := s.ties + firstPassTie s.T0 s.pivot tp td }
  else
    let fr := lexMinRatio s.T1 s.pivot 0 tp td
    { s with T1 := pivot s.T1 s.pivot fr.2, b1 := s.b1.set fr.2 s.pivot, pivot := s.b1.getD fr.2 0,
             numIter := s.numIter + 1, nf := if fr.1 then s.nf else s.nf + 1,
             ties := s.ties + firstPassTie s.T1 s.pivot tp td }

/-- the `while True` loop (395-416): the players alternate; stop with `converged` when the
    initial label leaves, without when `num_iter >= max_iter`. `fuel = max_iter - 1`
    (the test comes after the step: at least one step is always made). -/
def lhLoop (m initPivot : Nat) (tp td : α) : Nat → LHState α → Nat → Bool × LHState α
  | 0, s, pl =>
    let s' := lhStep m tp td s pl
    (decide (s'.pivot = initPivot), s')
  | fuel + 1, s, pl =>
    let s' := lhStep m tp td s pl
    if s'.pivot = initPivot then (true, s') else lhLoop m initPivot tp td fuel s' (1 - pl)

/-- `_lemke_howson_tbl(tableaux, bases, init_pivot, max_iter)` on freshly initialised tableaux -/
def lhTbl (m n : Nat) (A B : Nat → Nat → α) (initPivot maxIter : Nat) (tp td : α) :
    Bool × LHState α :=
  let s0 := lhInit m n A B initPivot
  let initPlayer := if s0.b0.contains initPivot then 1 else 0
  lhLoop m initPivot tp td (maxIter - 1) s0 initPlayer

structure LHOut (α : Type) where
  converged : Bool
  numIter : Nat
  init : Nat
  st : LHState α

/-- the `for k in range(m+n-1)` loop of `_lemke_howson_capping` (198-213) followed by the
    final run (215-218); `rem` = iterations of the `for` still to do. -/
def lhCapLoop (m n : Nat) (A B : Nat → Nat → α) (maxIter capping : Nat) (tp td : α) :
    Nat → Nat → Nat → Nat → LHOut α
  | 0, initCurr, maxIterCurr, total =>
    let r := lhTbl m n A B initCurr maxIterCurr tp td
    ⟨r.1, total + r.2.numIter, initCurr, r.2⟩
  | rem + 1, initCurr, maxIterCurr, total =>
    let r := lhTbl m n A B initCurr (min maxIterCurr capping) tp td
    let total' := total + r.2.numIter
    if r.1 ∨ total' ≥ maxIter then ⟨r.1, total', initCurr, r.2⟩
    else
      let ic := if initCurr + 1 ≥ m + n then initCurr + 1 - (m + n) else initCurr + 1
      lhCapLoop m n A B maxIter capping tp td rem ic (maxIterCurr - r.2.numIter) total'

def lhCapping (m n : Nat) (A B : Nat → Nat → α) (initPivot maxIter capping : Nat) (tp td : α) :
    LHOut α :=
  lhCapLoop m n A B maxIter capping tp td (m + n - 1) initPivot maxIter 0

/-- `sum_` of `_get_mixed_actions` for one player: the basic values of the rows whose basic
    variable lies in `[start, stop)`, added in row order -/
def basicSum (T : M α) (b : List Nat) (start stop : Nat) : α :=
  (List.range T.nr).foldl (fun acc i =>
    let k := b.getD i 0
    if start ≤ k ∧ k < stop then acc + T.get i (T.nc - 1) else acc) 0

/-- `out[k]` before normalisation: the basic value of variable `k` (0 when non-basic) -/
def basicVal (T : M α) (b : List Nat) (k : Nat) : α :=
  (List.range T.nr).foldl (fun acc i => if b.getD i 0 = k then T.get i (T.nc - 1) else acc) 0

/-- `_get_mixed_actions` for one player: `out[start:stop]`, divided by `sum_` when `sum_ != 0` -/
def mixedOf (T : M α) (b : List Nat) (start stop : Nat) : List α :=
  let s := basicSum T b start stop
  (List.range' start (stop - start)).map fun k =>
    if s == 0 then basicVal T b k else basicVal T b k / s

/-- `_get_mixed_actions(tableaux, bases)` -/
def lhMixedActions (m n : Nat) (s : LHState α) : List α × List α :=
  (mixedOf s.T0 s.b0 0 m, mixedOf s.T1 s.b1 m (m + n))

/-! ### support enumeration -/

/-- `a, next_k_array(a), …` while `a[-1] < n` -/
def walkK (n : Nat) : Nat → List Nat → List (List Nat)
  | 0, _ => []
  | fuel + 1, a =>
    if a.getLastD 0 < n then a :: walkK n fuel (C16.nextKArray a) else []

/-- the `k`-subsets of `range n` in the order the `while supp[-1] < n` loops visit them -/
def kSubsets (n k : Nat) : List (List Nat) :=
  if k = 0 then [] else walkK n (C16.chooseFast n k + 1) (List.range k)

/-- the `(k+1) × (k+1)` indifference system of `_indiff_mixed_action` as LAPACK sees it
    (Fortran order = the transpose of the C array `A`): rows `i<k`:
    `Σ_j P[own_i, opp_j] z_j − v = 0`; last row: `Σ_j z_j = 1`. -/
def indiffSys (P : Nat → Nat → α) (own opp : List Nat) : M α :=
  let k := own.length
  M.tab (k + 1) (k + 1) fun i j =>
    if i < k then (if j < k then P (own.getD i 0) (opp.getD j 0) else -(1 : α))
    else (if j < k then 1 else 0)

def indiffRhs (k : Nat) : M α := M.tab (k + 1) 1 fun i _ => if i = k then 1 else 0

/-- `_indiff_mixed_action(payoff_matrix, own_supp, opp_supp, …)`: `none` = `False`,
    `some z` = `True` with `out = z` (`z_0..z_{k-1}` the weights on `opp_supp`, `z_k` the value).
    `mOwn` is the number of own actions. -/
def indiff (solve : M α → M α → Option (M α)) (P : Nat → Nat → α) (mOwn : Nat)
    (own opp : List Nat) : Option (Nat → α) :=
  let k := own.length
  match solve (indiffSys P own opp) (indiffRhs k) with
  | none => none
  | some Z =>
    let z : Nat → α := fun i => Z.get i 0
    if (List.range k).any (fun i => decide (z i ≤ 0)) then none
    else if k = mOwn then some z
    else if (List.range mOwn).any (fun i =>
        !(own.contains i) && decide (z k < sumRange k fun j => P i (opp.getD j 0) * z j)) then none
    else some z

/-- The solver the driver runs in place of LAPACK `gesv`: exact Gauss-Jordan
    (`MatAlg.solve`) followed by a residual check `S Z = b` of the first column. In exact
    arithmetic the check never fails; it makes the soundness of the solver a one-line fact
    instead of an assumption. -/
def solveChecked (S b : M α) : Option (M α) :=
  match MatAlg.solve S b with
  | none => none
  | some Z =>
    if (List.range S.nr).all (fun i => sumRange S.nc (fun j => S.get i j * Z.get j 0) == b.get i 0)
    then some Z else none

/-- `out[p][supp] = action[:-1]` on a zero vector, as the function `i ↦ out[p][i]` -/
def scatter (supp : List Nat) (z : Nat → α) (i : Nat) : α :=
  sumRange supp.length fun t => if supp.getD t 0 = i then z t else 0

/-- the body of the inner `while` for one pair of supports -/
def tryPair (solve : M α → M α → Option (M α)) (m n : Nat) (A B : Nat → Nat → α)
    (s0 s1 : List Nat) : Option ((Nat → α) × (Nat → α)) :=
  match indiff solve A m s0 s1 with
  | none => none
  | some zy =>
    match indiff solve B n s1 s0 with
    | none => none
    | some zx => some (scatter s0 zx, scatter s1 zy)

/-- all pairs of equal-size supports in the order of the three nested loops -/
def supportPairs (m n : Nat) : List (List Nat × List Nat) :=
  (List.range' 1 (min m n)).flatMap fun k =>
    (kSubsets m k).flatMap fun s0 => (kSubsets n k).map fun s1 => (s0, s1)

/-- `_support_enumeration_gen`: the yielded pairs with their supports, in order -/
def supportEnum (solve : M α → M α → Option (M α)) (m n : Nat) (A B : Nat → Nat → α) :
    List ((List Nat × List Nat) × ((Nat → α) × (Nat → α))) :=
  (supportPairs m n).filterMap fun p =>
    (tryPair solve m n A B p.1 p.2).map fun xy => (p, xy)

/-- Diagnostic used by the correspondence only: is the outcome of `_indiff_mixed_action`
    decided with a margin (`0`: robustly `False`, `1`: robustly `True`) or does it sit on a
    boundary where floating-point rounding decides (`2`: singular system, a weight within
    `eps` of 0, an outside payoff within `eps` of the value)? -/
def indiffClass (solve : M α → M α → Option (M α)) (P : Nat → Nat → α) (mOwn : Nat)
    (own opp : List Nat) (eps : α) : Nat :=
  let k := own.length
  match solve (indiffSys P own opp) (indiffRhs k) with
  | none => 2
  | some Z =>
    let z : Nat → α := fun i => Z.get i 0
    if (List.range k).any (fun i => decide (z i < -eps)) then 0
    else if (List.range k).any (fun i => decide (z i ≤ eps)) then 2
    else if k = mOwn then 1
    else
      let pay := fun i => sumRange k fun j => P i (opp.getD j 0) * z j
      let outs := (List.range mOwn).filter fun i => !(own.contains i)
      if outs.any (fun i => decide (z k + eps < pay i)) then 0
      else if outs.any (fun i => decide (z k - eps ≤ pay i)) then 2
      else 1

def pairClass (solve : M α → M α → Option (M α)) (m n : Nat) (A B : Nat → Nat → α)
    (s0 s1 : List Nat) (eps : α) : Nat :=
  let c0 := indiffClass solve A m s0 s1 eps
  let c1 := indiffClass solve B n s1 s0 eps
  if c0 = 0 ∨ c1 = 0 then 0 else if c0 = 1 ∧ c1 = 1 then 1 else 2

/-! ### vertex enumeration (Qhull's output is an input) -/

/-- `_ints_arr_to_bits` on unbounded naturals (labels are `< m+n ≤ 63` in the code's `uint64`) -/
def intsToBits (l : List Nat) : Nat := l.foldl (fun acc i => acc ||| (1 <<< i)) 0

/-- one player's half of `_get_mixed_actions` (vertex_enumeration.py 321-333):
    entries `start ≤ i < stop`, `out[i] = 0` when bit `i` of the labelling equals `skip`,
    otherwise `eq[i-start] * trans_recip - eq[-1]`; then division by the sum when it is not 0. -/
def veHalf (bits : Nat) (start cnt : Nat) (skip : Bool) (eq : List α) (tr : α) : List α :=
  let raw : List α := (List.range cnt).map fun t =>
    if (bits.testBit (start + t)) = skip then 0 else eq.getD t 0 * tr - eq.getD cnt 0
  let s := (List.range cnt).foldl (fun acc t =>
    if (bits.testBit (start + t)) = skip then acc else acc + raw.getD t 0) 0
  if s == 0 then raw else raw.map (· / s)

def veMixedActions (m n : Nat) (bits : Nat) (eq0 eq1 : List α) (t0 t1 : α) : List α × List α :=
  (veHalf bits 0 m true eq0 t0, veHalf bits m n false eq1 t1)

/-- index of the first vertex of polytope 1 completing the labelling `b0` -/
def veFind (m n : Nat) (b0 : Nat) (bits1 : List Nat) : Option Nat :=
  let j := bits1.findIdx fun b1 => (b0 ^^^ b1) == 2 ^ (m + n) - 1
  if j < bits1.length then some j else none

/-- `_vertex_enumeration_gen`: the matched pairs `(i, j)` in order -/
def veMatch (m n : Nat) (bits0 bits1 : List Nat) : List (Nat × Nat) :=
  (List.range bits0.length).filterMap fun i =>
    let b0 := bits0.getD i 0
    if b0 == 2 ^ m - 1 then none
    else (veFind m n b0 bits1).map fun j => (i, j)

def vertexEnum (m n : Nat) (lab0 lab1 : List (List Nat)) (eqs0 eqs1 : List (List α)) (t0 t1 : α) :
    List (List α × List α) :=
  let bits0 := lab0.map intsToBits
  let bits1 := lab1.map intsToBits
  (veMatch m n bits0 bits1).map fun ij =>
    veMixedActions m n (bits0.getD ij.1 0) (eqs0.getD ij.1 []) (eqs1.getD ij.2 []) t0 t1

/-- `payoff_vector.max()` / `row_sums.max()` -/
def vecMax (n : Nat) (f : Nat → α) : α :=
  (List.range n).foldl (fun acc b => if acc < f b then f b else acc) (f 0)

/-! ### `_BestResponsePolytope.__init__` (vertex_enumeration.py 209-245): the points handed to Qhull

`Bm` is the opponent's payoff array, `r × c` (`r` = opponent's actions, `c` = own actions,
the dimension of the polytope). -/

/-- `B.min(axis=0)[j]` -/
def colMin (r : Nat) (Bm : Nat → Nat → α) (j : Nat) : α :=
  (List.range r).foldl (fun acc i => if Bm i j < acc then Bm i j else acc) (Bm 0 j)

/-- `B.max(axis=0)[j]` -/
def colMax (r : Nat) (Bm : Nat → Nat → α) (j : Nat) : α :=
  (List.range r).foldl (fun acc i => if acc < Bm i j then Bm i j else acc) (Bm 0 j)

/-- `shifts[j]`: `-col_min` when the column minimum is negative, plus 1 when the column is
    constant and non-positive (lines 226-231) -/
def brpShift (r : Nat) (Bm : Nat → Nat → α) (j : Nat) : α :=
  let mn := colMin r Bm j
  let s0 : α := if mn < 0 then -mn else 0
  if (colMax r Bm j == mn) && decide (mn ≤ 0) then s0 + 1 else s0

/-- `B + shifts` -/
def brpShifted (r : Nat) (Bm : Nat → Nat → α) (i j : Nat) : α := Bm i j + brpShift r Bm j

/-- `row_sums[i]` of the shifted array -/
def brpRowSum (r c : Nat) (Bm : Nat → Nat → α) (i : Nat) : α := sumRange c fun j => brpShifted r Bm i j

/-- `trans_recip = row_sums.max() * 2` -/
def brpTransRecip (r c : Nat) (Bm : Nat → Nat → α) : α :=
  vecMax r (brpRowSum r c Bm) * (1 + 1)

/-- the `(r + c) × c` array `D` passed to `scipy.spatial.ConvexHull`; `idx = 0`: the `c`
    non-negativity rows first, `idx = 1`: the `r` payoff rows first -/
def brpPoints (idx r c : Nat) (Bm : Nat → Nat → α) : M α :=
  let t := brpTransRecip r c Bm
  let nn0 := if idx = 0 then 0 else r       -- nonneg_cond_start
  let pay0 := if idx = 0 then c else 0      -- payoff_cond_start
  M.tab (r + c) c fun k j =>
    if pay0 ≤ k ∧ k < pay0 + r then
      (brpShifted r Bm (k - pay0) j * t) / (t - brpRowSum r c Bm (k - pay0))
    else if k - nn0 = j then -t else 0

/-- the argument checks of `_BestResponsePolytope.__init__` (209-216): the input must have a
    `num_opponents` attribute, equal to 1 -/
def brpArgCheck (hasNumOpponents : Bool) (numOpponents : Nat) : String :=
  if !hasNumOpponents then "ERR:TypeError"
  else if numOpponents ≠ 1 then "ERR:NotImplementedError" else "ok"

/-! ### pure_nash_brute on an N-player game

`nums` = numbers of actions; `pay.getD i []` = player `i`'s payoff array, C-order flattened,
axes `(a_i, a_{i+1}, …, a_{N-1}, a_0, …, a_{i-1})`. -/

/-- `l[i:] + l[:i]` -/
def rot {β : Type} (l : List β) (i : Nat) : List β := l.drop i ++ l.take i

/-- C-order flat index of the multi-index `idx` in an array of shape `shape` -/
def flatIdx (shape idx : List Nat) : Nat :=
  (shape.zip idx).foldl (fun acc p => acc * p.1 + p.2) 0

/-- player `i`'s payoff when he plays `b` and the others play as in the profile `a`:
    `payoff_vector(opponents_actions)[b]` -/
def payoffAt (nums : List Nat) (pay : List (List α)) (i : Nat) (a : List Nat) (b : Nat) : α :=
  (pay.getD i []).getD (flatIdx (rot nums i) (b :: (rot a i).tail)) 0

/-- `player.is_best_response(a_i, opponents_actions, tol)` for a pure own action -/
def isBR (nums : List Nat) (pay : List (List α)) (tol : α) (a : List Nat) (i : Nat) : Bool :=
  let f := payoffAt nums pay i a
  decide (vecMax (nums.getD i 0) f - tol ≤ f (a.getD i 0))

/-- `np.ndindex(*nums)`: all action profiles, last index fastest -/
def profiles : List Nat → List (List Nat)
  | [] => [[]]
  | n :: ns => (List.range n).flatMap fun a => (profiles ns).map fun r => a :: r

def isNashPure (nums : List Nat) (pay : List (List α)) (tol : α) (a : List Nat) : Bool :=
  (List.range nums.length).all fun i => isBR nums pay tol a i

/-- `pure_nash_brute(g, tol)` -/
def pureNashBrute (nums : List Nat) (pay : List (List α)) (tol : α) : List (List Nat) :=
  (profiles nums).filter (isNashPure nums pay tol)

/-! ### the game object and its history

A `NormalFormGame` object, as far as the solvers are concerned, is its current pair of payoff
arrays; `g[i, j] = (a, b)` and in-place writes into `players[k].payoff_array` replace entries.
The solvers take `(g.m, g.n, g.A, g.B)` and nothing else: no state survives a call. -/

structure Game (α : Type) where
  m : Nat
  n : Nat
  A : Nat → Nat → α
  B : Nat → Nat → α

inductive GOp (α : Type) where
  /-- `g[i, j] = (a, b)` -/
  | setItem (i j : Nat) (a b : α)
  /-- `g.players[0].payoff_array[i, j] = v` -/
  | setA (i j : Nat) (v : α)
  /-- `g.players[1].payoff_array[j, i] = v` -/
  | setB (j i : Nat) (v : α)

def upd {β : Type} (f : Nat → Nat → β) (i j : Nat) (v : β) : Nat → Nat → β :=
  fun i' j' => if i' = i ∧ j' = j then v else f i' j'

def Game.apply {β : Type} (g : Game β) : GOp β → Game β
  | .setItem i j a b => { g with A := upd g.A i j a, B := upd g.B j i b }
  | .setA i j v => { g with A := upd g.A i j v }
  | .setB j i v => { g with B := upd g.B j i v }

/-- the object after a history of writes -/
def Game.run {β : Type} (g : Game β) (ops : List (GOp β)) : Game β := ops.foldl Game.apply g

/-- `lemke_howson(g, init_pivot, max_iter, capping)` on the object as it is now -/
def Game.lemkeHowson (g : Game α) (initPivot maxIter capping : Nat) (tp td : α) : LHOut α :=
  lhCapping g.m g.n g.A g.B initPivot maxIter capping tp td

/-! ### line protocol -/

local instance : Zero Float := ⟨0.0⟩
local instance : One Float := ⟨1.0⟩

def fnOfMat {β : Type} [Zero β] (l : List (List β)) : Nat → Nat → β := fun i j => (l.getD i []).getD j 0

def shaped {β : Type} (r c : Nat) (l : List (List β)) : Bool :=
  l.length == r && l.all (fun row => row.length == c)

def showLH (sh : α → String) (m n : Nat) (o : LHOut α) : String :=
  let xy := lhMixedActions m n o.st
  "conv=" ++ showBool o.converged ++ " iter=" ++ toString o.numIter ++ " init=" ++ toString o.init ++
  " b0=" ++ showList toString o.st.b0 ++ " b1=" ++ showList toString o.st.b1 ++
  " x=" ++ showList sh xy.1 ++ " y=" ++ showList sh xy.2 ++ " nf=" ++ toString o.st.nf ++
  " ties=" ++ toString o.st.ties

def showSE (m n : Nat) (l : List ((List Nat × List Nat) × ((Nat → Rat) × (Nat → Rat)))) : String :=
  if l.isEmpty then "-" else
  "|".intercalate (l.map fun e =>
    showList toString e.1.1 ++ ":" ++ showList toString e.1.2 ++ ":" ++
    showList showRat ((List.range m).map e.2.1) ++ ":" ++ showList showRat ((List.range n).map e.2.2))

def showPairs (l : List (List Nat × List Nat)) : String :=
  if l.isEmpty then "-" else
  "|".intercalate (l.map fun e => showList toString e.1 ++ ":" ++ showList toString e.2)

def showVE {β : Type} (sh : β → String) (l : List (List β × List β)) : String :=
  if l.isEmpty then "-" else
  "|".intercalate (l.map fun e => showList sh e.1 ++ ":" ++ showList sh e.2)

def handle (toks : List String) : String :=
  match toks with
  | "lh" :: r =>
    -- exact reference (Rat) with the code's tolerances given as exact rationals
    match kvNat r "m", kvNat r "n", kvRatMat r "A", kvRatMat r "B", kvNat r "init",
          kvNat r "maxiter", kvNat r "capping", kvRat r "tolpiv", kvRat r "toldiff" with
    | some m, some n, some A, some B, some ip, some mi, some cap, some tp, some td =>
      if shaped m n A && shaped n m B && m ≥ 1 && n ≥ 1 && ip < m + n then
        showLH showRat m n (lhCapping m n (fnOfMat A) (fnOfMat B) ip mi cap tp td)
      else "bad-op"
    | _, _, _, _, _, _, _, _, _ => "bad-op"
  | "lhf" :: r =>
    -- IEEE doubles: trace fidelity with the Numba kernels
    match kvNat r "m", kvNat r "n", kvFloatMat r "A", kvFloatMat r "B", kvNat r "init",
          kvNat r "maxiter", kvNat r "capping", (kv r "tolpiv").bind parseFloat?,
          (kv r "toldiff").bind parseFloat? with
    | some m, some n, some A, some B, some ip, some mi, some cap, some tp, some td =>
      if shaped m n A && shaped n m B && m ≥ 1 && n ≥ 1 && ip < m + n then
        showLH showFloatBits m n (lhCapping m n (fnOfMat A) (fnOfMat B) ip mi cap tp td)
      else "bad-op"
    | _, _, _, _, _, _, _, _, _ => "bad-op"
  | "se" :: r =>
    match kvNat r "m", kvNat r "n", kvRatMat r "A", kvRatMat r "B", kvRat r "eps" with
    | some m, some n, some A, some B, some eps =>
      if shaped m n A && shaped n m B && m ≥ 1 && n ≥ 1 then
        let fA := fnOfMat A
        let fB := fnOfMat B
        let ne := supportEnum solveChecked m n fA fB
        let frag := (supportPairs m n).filter fun p => pairClass solveChecked m n fA fB p.1 p.2 eps = 2
        "npairs=" ++ toString (supportPairs m n).length ++ " ne=" ++ showSE m n ne ++
        " frag=" ++ showPairs frag
      else "bad-op"
    | _, _, _, _, _ => "bad-op"
  | "indiff" :: r =>
    -- one call of `_indiff_mixed_action`: the verdict and the solution of the linear system
    match kvNat r "mown", kvRatMat r "P", kvNats r "own", kvNats r "opp" with
    | some mo, some P, some own, some opp =>
      if P.length == mo && own.length == opp.length && own.length ≥ 1 && own.all (· < mo) then
        let fP := fnOfMat P
        match solveChecked (indiffSys fP own opp) (indiffRhs own.length) with
        | none => "sing"
        | some Z =>
          (match indiff solveChecked fP mo own opp with | none => "0" | some _ => "1") ++ " " ++
          showList showRat ((List.range (own.length + 1)).map fun i => Z.get i 0)
      else "bad-op"
    | _, _, _, _ => "bad-op"
  | "brp" :: r =>
    -- the points given to Qhull and trans_recip, in IEEE doubles
    match kvNat r "idx", kvNat r "r", kvNat r "c", kvFloatMat r "B" with
    | some idx, some rr, some c, some Bm =>
      if shaped rr c Bm && rr ≥ 1 && c ≥ 1 && idx ≤ 1 then
        showFloatBits (brpTransRecip rr c (fnOfMat Bm)) ++ " " ++
        showMat showFloatBits (brpPoints idx rr c (fnOfMat Bm)).toRows
      else "bad-op"
    | _, _, _, _ => "bad-op"
  | "brpargs" :: r =>
    match kvNat r "has", kvNat r "nopp" with
    | some h, some k => brpArgCheck (h == 1) k
    | _, _ => "bad-op"
  | "tols" :: _ =>
    -- the documented constants of optimize/pivoting.py (TOL_PIV, TOL_RATIO_DIFF) as the model pins them
    showFloatBits tolPivF ++ " " ++ showFloatBits tolRatioDiffF
  | "ksub" :: r =>
    match kvNat r "n", kvNat r "k" with
    | some n, some k => showMat toString (kSubsets n k)
    | _, _ => "bad-op"
  | "vef" :: r =>
    match kvNat r "m", kvNat r "n", kvNatMat r "lab0", kvNatMat r "lab1", kvFloatMat r "eq0",
          kvFloatMat r "eq1", (kv r "t0").bind parseFloat?, (kv r "t1").bind parseFloat? with
    | some m, some n, some l0, some l1, some e0, some e1, some t0, some t1 =>
      if l0.length == e0.length && l1.length == e1.length && e0.all (fun e => e.length == m + 1)
          && e1.all (fun e => e.length == n + 1) && m + n ≤ 63 then
        showVE showFloatBits (vertexEnum m n l0 l1 e0 e1 t0 t1)
      else "bad-op"
    | _, _, _, _, _, _, _, _ => "bad-op"
  | "vematch" :: r =>
    match kvNat r "m", kvNat r "n", kvNatMat r "lab0", kvNatMat r "lab1" with
    | some m, some n, some l0, some l1 =>
      let ps := veMatch m n (l0.map intsToBits) (l1.map intsToBits)
      if ps.isEmpty then "-" else "|".intercalate (ps.map fun p => toString p.1 ++ ":" ++ toString p.2)
    | _, _, _, _ => "bad-op"
  | "pn" :: r =>
    match kvNats r "nums", kvRatMat r "pay", kvRat r "tol" with
    | some nums, some pay, some tol =>
      if pay.length == nums.length && pay.all (fun p => p.length == nums.foldl (· * ·) 1)
          && nums.all (· ≥ 1) && nums.length ≥ 1 then
        showMat toString (pureNashBrute nums pay tol)
      else "bad-op"
    | _, _, _ => "bad-op"
  | "pnf" :: r =>
    match kvNats r "nums", kvFloatMat r "pay", (kv r "tol").bind parseFloat? with
    | some nums, some pay, some tol =>
      if pay.length == nums.length && pay.all (fun p => p.length == nums.foldl (· * ·) 1)
          && nums.all (· ≥ 1) && nums.length ≥ 1 then
        showMat toString (pureNashBrute nums pay tol)
      else "bad-op"
    | _, _, _ => "bad-op"
  | _ => "bad-op"

end QE.C05
