/-
  QEModel.C10 — executable model for property C10 (stub; to be filled in).
-/
import QEModel.Base
namespace QE.C10

def handle (_toks : List String) : String := "bad-op"

end QE.C10
