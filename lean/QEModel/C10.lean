/-
  QEModel.C10 — simulated Markov-chain paths and inverse-CDF draws.
  Mirrors (code as it is after the `fix:` commits b48648a, cb99317):
    quantecon/util/array.py        searchsorted (54-62), searchsorted_cdf (90-95)
    quantecon/markov/core.py       __init__ checks (177-197; exact-arithmetic reading: acceptChain),
                                   get_index/_get_index (258-310: getIndex, getIndexSV),
                                   cdfs (417-424), cdfs1d (426-437),
                                   simulate_indices (469-520: initStates, simulateIndices),
                                   simulate (554-564: simulate, simulateSV/annotate),
                                   _generate_sample_paths (596-603: denseStep, pathDense),
                                   _generate_sample_paths_sparse (641-651: sparseStep, pathSparse),
                                   mc_sample_path (704-715: mcSamplePath)
    quantecon/_discrete_rv.py      DiscreteRV.__init__/draw (drvDraw, npSearchRight/Left)
    quantecon/random/utilities.py  draw (both the Python body and the Numba overload: draw)
  Everything on the simulation path is generic in the scalar: only `<` (decidable), `==` and `+`
  are used, so the same definitions run at `Float` (bit-for-bit with NumPy/Numba) and `Rat`.
  Random numbers are *inputs* of the model (the uniforms / integers the generator produced).
  Parameters (not modelled): NumPy's bit generators, `rng_integers`, `np.asarray` conversions.
-/
import QEModel.Base
namespace QE.C10

variable {α : Type}

/-! ### searchsorted (util/array.py 54-62) -/

/-- The `while lo < hi-1` loop with `lo1 = lo + 1` (so that `lo = -1` is `lo1 = 0`).
    `m = (lo + hi) // 2 = (lo1 + hi - 1) / 2`; `lo1 ≤ m < hi`, so `a[m]` is always in
    range when `hi ≤ len a`; the `none` branch is unreachable then (`ssLoop_read_in_range`). -/
def ssLoop [LT α] [DecidableLT α] (a : List α) (v : α) (lo1 hi : Nat) : Nat :=
  if _h : lo1 < hi then
    let m := (lo1 + hi - 1) / 2
    match a[m]? with
    | some x => if v < x then ssLoop a v lo1 m else ssLoop a v (m + 1) hi
    | none => hi
  else hi
termination_by hi - lo1
decreasing_by all_goals omega

/-- `searchsorted(a, v)` : `lo = -1; hi = len(a)` -/
def searchsorted [LT α] [DecidableLT α] (a : List α) (v : α) : Nat := ssLoop a v 0 a.length

/-! ### searchsorted_cdf (util/array.py 90-95) -/

/-- `while i > 0 and cdf[i-1] == cdf[i]: i -= 1`, started at `i`. -/
def backoff [BEq α] (cdf : List α) : Nat → Nat
  | 0 => 0
  | i + 1 => if cdf[i]? == cdf[i + 1]? then backoff cdf i else i + 1

/-- `searchsorted_cdf(cdf, v)` for a nonempty `cdf` (for `[]` Python returns `-1`, see
    `searchsortedCdfPy`; every theorem about this function assumes `cdf ≠ []`). -/
def searchsortedCdf [LT α] [DecidableLT α] [BEq α] (cdf : List α) (v : α) : Nat :=
  let i := searchsorted cdf v
  if i = cdf.length then backoff cdf (cdf.length - 1) else i

/-- the Python return value including the degenerate empty array -/
def searchsortedCdfPy [LT α] [DecidableLT α] [BEq α] (cdf : List α) (v : α) : Int :=
  if cdf.isEmpty then -1 else (searchsortedCdf cdf v : Nat)

/-! ### cumulative sums (np.cumsum along a row: sequential left-to-right) -/

def cumsumFrom [Add α] (acc : α) : List α → List α
  | [] => []
  | x :: xs => (acc + x) :: cumsumFrom (acc + x) xs

/-- `np.cumsum(p)` : `out[0] = p[0]`, `out[i] = out[i-1] + p[i]` -/
def cumsum [Add α] : List α → List α
  | [] => []
  | x :: xs => x :: cumsumFrom x xs

/-- `MarkovChain.cdfs` : row-wise cumsum -/
def cdfsDense [Add α] (P : List (List α)) : List (List α) := P.map cumsum

/-- Python slice `x[lo:hi]` for nonnegative bounds -/
def slice (x : List α) (lo hi : Nat) : List α := (x.drop lo).take (hi - lo)

/-- `MarkovChain.cdfs1d`: `cdfs1d[indptr[i]:indptr[i+1]] = data[indptr[i]:indptr[i+1]].cumsum()`
    for `i < n`. For a canonical CSR structure (`indptr[0] = 0`, nondecreasing,
    `indptr[n] = nnz`; guaranteed by `scipy.sparse.csr_matrix`) the assignments tile the
    whole array, i.e. the result is the concatenation of the per-row cumsums. -/
def cdfs1d [Add α] (data : List α) (indptr : List Nat) (n : Nat) : List α :=
  (List.range n).flatMap fun i => cumsum (slice data (indptr.getD i 0) (indptr.getD (i + 1) 0))

/-! ### path kernels (markov/core.py 596-603, 641-651) -/

/-- `out[0] = init; out[t+1] = step(out[t], u[t])`; `none` if a step reads outside its arrays -/
def pathFrom (step : Nat → α → Option Nat) : Nat → List α → Option (List Nat)
  | s, [] => some [s]
  | s, u :: us =>
    match step s u with
    | none => none
    | some s' =>
      match pathFrom step s' us with
      | none => none
      | some rest => some (s :: rest)

/-- `searchsorted_cdf(P_cdfs[s], u)` -/
def denseStep [LT α] [DecidableLT α] [BEq α] (cdfs : List (List α)) (s : Nat) (u : α) : Option Nat :=
  match cdfs[s]? with
  | none => none
  | some row => if row.isEmpty then none else some (searchsortedCdf row u)

def pathDense [LT α] [DecidableLT α] [BEq α] (cdfs : List (List α)) (init : Nat) (us : List α) :
    Option (List Nat) :=
  pathFrom (denseStep cdfs) init us

/-- `k = searchsorted_cdf(cdfs1d[indptr[s]:indptr[s+1]], u); indices[indptr[s]+k]` -/
def sparseStep [LT α] [DecidableLT α] [BEq α] (c1d : List α) (indices indptr : List Nat)
    (s : Nat) (u : α) : Option Nat :=
  match indptr[s]?, indptr[s + 1]? with
  | some lo, some hi =>
    let row := slice c1d lo hi
    if row.isEmpty then none else indices[lo + searchsortedCdf row u]?
  | _, _ => none

def pathSparse [LT α] [DecidableLT α] [BEq α] (c1d : List α) (indices indptr : List Nat)
    (init : Nat) (us : List α) : Option (List Nat) :=
  pathFrom (sparseStep c1d indices indptr) init us

/-! ### initial states and output shape (markov/core.py 469-502) -/

inductive Init
  | none
  | scalar (i : Int)
  | arr (l : List Int)
deriving Repr

/-- `dim` = ndim of the returned array, `states` = `init_states` (length `k`) -/
structure InitRes where
  dim : Nat
  states : List Nat
deriving Repr, BEq

inductive Err | valueError | indexError
deriving Repr, BEq, DecidableEq

def inRange (n : Nat) (i : Int) : Bool := decide (-(n : Int) ≤ i) && decide (i < (n : Int))

/-- `np.tile(l, r)` -/
def tile {β : Type} (l : List β) : Nat → List β
  | 0 => []
  | r + 1 => l ++ tile l r

/-- `drawn` is what `rng_integers(random_state, n, size=k)` returned (used only for `init=None`);
    `randint(0, size=k)` raises `ValueError` unless `k = 0`. -/
def initStates (n : Nat) (init : Init) (numReps : Option Nat) (drawn : List Nat) : Except Err InitRes :=
  match init with
  | .arr l =>
    if l.all (inRange n) then
      let st := l.map fun i => (i % (n : Int)).toNat
      match numReps with
      | Option.none => .ok ⟨2, st⟩
      | some r => .ok ⟨2, tile st r⟩
    else .error .valueError
  | .none =>
    let (dim, k) := match numReps with
      | Option.none => (1, 1)
      | some r => (2, r)
    if n = 0 ∧ k ≠ 0 then .error .valueError else .ok ⟨dim, drawn.take k⟩
  | .scalar i =>
    let (dim, k) := match numReps with
      | Option.none => (1, 1)
      | some r => (2, r)
    if inRange n i then .ok ⟨dim, List.replicate k (i % (n : Int)).toNat⟩ else .error .valueError

/-- `MarkovChain.get_index` with `state_values=None`: only `0 ≤ value < n` is accepted -/
def getIndex (n : Nat) (init : Init) : Except Err Init :=
  let ok (i : Int) : Bool := decide (0 ≤ i) && decide (i < (n : Int))
  match init with
  | .none => .ok .none
  | .scalar i => if ok i then .ok (.scalar i) else .error .valueError
  | .arr l => if l.all ok then .ok (.arr l) else .error .valueError

structure SimRes where
  dim : Nat
  paths : List (List Nat)
deriving Repr, BEq

/-- all rows of `paths`, or `none` -/
def allPaths (f : Nat → List α → Option (List Nat)) : List Nat → List (List α) → Option (List (List Nat))
  | [], _ => some []
  | s :: ss, us :: uss =>
    match f s us, allPaths f ss uss with
    | some p, some ps => some (p :: ps)
    | _, _ => none
  | _ :: _, [] => none

/-- `simulate_indices` after `init_states` has been computed: `us` is the `(k, ts_length-1)`
    array `random_state.random(size=(k, ts_length-1))`, row `i` drives path `i`.
    `none` = the model was asked something outside its domain (wrong shape of the uniforms,
    read outside the arrays). -/
def simulateWith (f : Nat → List α → Option (List Nat)) (ir : InitRes) (us : List (List α)) :
    Option SimRes :=
  if ir.states.length ≠ us.length then none else
  match allPaths f ir.states us with
  | none => none
  | some ps => some ⟨ir.dim, ps⟩

/-- The whole of `simulate_indices` given the uniforms: `ts_length = operator.index(ts_length)`
    (fix d656660: every integer form — Python int, signed/unsigned NumPy ints, 0-d integer arrays —
    is the same natural number `ts`, so an unsigned 0 cannot wrap in `ts_length-1`), init handling,
    then `random_state.random(size=(k, ts_length-1))` (`ValueError` for `ts_length = 0`: negative
    dimension), then the kernel. `us` must have shape `(k, ts-1)`. -/
def simulateIndices (n : Nat) (f : Nat → List α → Option (List Nat)) (init : Init)
    (numReps : Option Nat) (drawn : List Nat) (ts : Nat) (us : List (List α)) :
    Except Err (Option SimRes) :=
  match initStates n init numReps drawn with
  | .error e => .error e
  | .ok ir =>
    if ts = 0 then .error .valueError
    else if us.all (fun r => r.length + 1 == ts) then .ok (simulateWith f ir us)
    else .ok Option.none

/-- `simulate` (554-564) with `state_values=None`: `get_index` first (only `0 ≤ init < n`),
    then `simulate_indices`. -/
def simulate (n : Nat) (f : Nat → List α → Option (List Nat)) (init : Init)
    (numReps : Option Nat) (drawn : List Nat) (ts : Nat) (us : List (List α)) :
    Except Err (Option SimRes) :=
  match getIndex n init with
  | .error e => .error e
  | .ok i => simulateIndices n f i numReps drawn ts us

/-! ### `simulate` with 1-D `state_values` (get_index 258-310, annotation 561-562) -/

/-- `_get_index`: `np.where(state_values == value)[0][0]`, `ValueError` if absent -/
def getIndexSV (sv : List Int) (init : Init) : Except Err Init :=
  match init with
  | .none => .ok .none
  | .scalar v =>
    match sv.findIdx? (· == v) with
    | some i => .ok (.scalar (Int.ofNat i))
    | Option.none => .error .valueError
  | .arr l =>
    match l.mapM (fun v => sv.findIdx? (· == v)) with
    | some is => .ok (.arr (is.map Int.ofNat))
    | Option.none => .error .valueError

/-- `X = state_values[X]`; `none` if an index is not a position of `state_values` -/
def annotate (sv : List Int) (paths : List (List Nat)) : Option (List (List Int)) :=
  paths.mapM fun p => p.mapM fun s => sv[s]?

/-- `simulate` when `state_values` is a 1-D integer array of length `n` -/
def simulateSV (sv : List Int) (n : Nat) (f : Nat → List α → Option (List Nat)) (init : Init)
    (numReps : Option Nat) (drawn : List Nat) (ts : Nat) (us : List (List α)) :
    Except Err (Option (Nat × List (List Int))) :=
  match getIndexSV sv init with
  | .error e => .error e
  | .ok i =>
    match simulateIndices n f i numReps drawn ts us with
    | .error e => .error e
    | .ok Option.none => .ok Option.none
    | .ok (some r) => .ok ((annotate sv r.paths).map fun X => (r.dim, X))

/-! ### `simulate` with 2-D `state_values` (get_index 258-278, `_get_index` 310-317, annotation 561-562)

Each state is labelled by a row of `state_values` (shape `(n, m)`); `init` is one row (ndim ≤ 1), an
array of rows (ndim 2), or `None`; anything of higher dimension is `ValueError('invalid value')`. -/

inductive Init2
  | none
  | row (v : List Int)              -- `np.asarray(value).ndim ≤ 1` (a scalar is never equal to a row: pass `bad`)
  | rows (l : List (List Int))      -- `ndim = 2`: one value per row
  | bad                             -- scalar, or `ndim ≥ 3`
deriving Repr

/-- `_get_index`, 2-D branch: `idx = 0; while idx < n: if array_equal(state_values[idx], value): return idx`
    (`array_equal` is `False` for different shapes, so a row of another length is never found) -/
def findRow (sv : List (List Int)) (v : List Int) : Option Nat := sv.findIdx? (· == v)

def getIndexSV2 (sv : List (List Int)) (init : Init2) : Except Err Init :=
  match init with
  | .none => .ok .none
  | .bad => .error .valueError
  | .row v =>
    match findRow sv v with
    | some i => .ok (.scalar (Int.ofNat i))
    | Option.none => .error .valueError
  | .rows l =>
    match l.mapM (findRow sv) with
    | some is => .ok (.arr (is.map Int.ofNat))
    | Option.none => .error .valueError

/-- `X = state_values[X]` for 2-D labels: every state index is replaced by its label row -/
def annotate2 (sv : List (List Int)) (paths : List (List Nat)) : Option (List (List (List Int))) :=
  paths.mapM fun p => p.mapM fun s => sv[s]?

/-- `simulate` when `state_values` is a 2-D integer array with `n` rows: the result has one more
    dimension than the index array (`dim + 1`) -/
def simulateSV2 (sv : List (List Int)) (n : Nat) (f : Nat → List α → Option (List Nat)) (init : Init2)
    (numReps : Option Nat) (drawn : List Nat) (ts : Nat) (us : List (List α)) :
    Except Err (Option (Nat × List (List (List Int)))) :=
  match getIndexSV2 sv init with
  | .error e => .error e
  | .ok i =>
    match simulateIndices n f i numReps drawn ts us with
    | .error e => .error e
    | .ok Option.none => .ok Option.none
    | .ok (some r) => .ok ((annotate2 sv r.paths).map fun X => (r.dim + 1, X))

/-! ### argument forms of `init` -/

/-- How `init` reaches `simulate_indices` / `simulate`:
    * `ok i` — `None`, an instance of `numbers.Integral` (Python `int`/`bool`, every NumPy integer
      scalar type), or an array-like whose elements are such after `np.asarray`;
    * `nonIntegral` — an object without `len()` that is not `numbers.Integral` (0-d array,
      `np.bool_`, `float`): `simulate_indices` raises `ValueError('init must be int, …')`,
      `get_index` (state_values `None`) raises `ValueError('value … not found')`;
    * `arrNI l` — an array-like that `np.asarray(init, dtype=int)` converts to `l` but whose
      elements are not `numbers.Integral` (bool / float arrays): accepted by `simulate_indices`,
      rejected element-wise by `get_index` (so only the empty one passes `simulate`). -/
inductive InitArg
  | ok (i : Init)
  | nonIntegral
  | arrNI (l : List Int)
deriving Repr

def simulateIndicesA (n : Nat) (f : Nat → List α → Option (List Nat)) (a : InitArg)
    (numReps : Option Nat) (drawn : List Nat) (ts : Nat) (us : List (List α)) :
    Except Err (Option SimRes) :=
  match a with
  | .ok i => simulateIndices n f i numReps drawn ts us
  | .nonIntegral => .error .valueError
  | .arrNI l => simulateIndices n f (.arr l) numReps drawn ts us

def simulateA (n : Nat) (f : Nat → List α → Option (List Nat)) (a : InitArg)
    (numReps : Option Nat) (drawn : List Nat) (ts : Nat) (us : List (List α)) :
    Except Err (Option SimRes) :=
  match a with
  | .ok i => simulate n f i numReps drawn ts us
  | .nonIntegral => .error .valueError
  | .arrNI l => if l.isEmpty then simulate n f (.arr []) numReps drawn ts us else .error .valueError

/-! ### histories on one `MarkovChain` object

The only attribute of the object that `simulate` reads besides `P` (and the cdf caches, which are
functions of `P`) is `state_values`; the model's object state is exactly that. -/

inductive HOp (α : Type)
  | setSV (sv : Option (List Int))
  | call (viaSim : Bool) (a : InitArg) (numReps : Option Nat) (drawn : List Nat) (ts : Nat)
      (us : List (List α))

inductive HOut
  | set (ok : Bool)                                       -- the setter returned / raised ValueError
  | idx (r : Except Err (Option SimRes))                   -- array of indices
  | vals (r : Except Err (Option (Nat × List (List Int))))  -- array of state values

/-- one operation: new `state_values`, and what the call returned.
    Setter (221-240): `None`, or a 1-D array of length `n` (else `ValueError`, attribute unchanged).
    `simulate_indices` ignores `state_values`; `simulate` uses the *current* ones. -/
def stepH (n : Nat) (f : Nat → List α → Option (List Nat)) (sv : Option (List Int)) :
    HOp α → Option (List Int) × HOut
  | .setSV Option.none => (Option.none, .set true)
  | .setSV (some l) => if l.length = n then (some l, .set true) else (sv, .set false)
  | .call false a reps drawn ts us => (sv, .idx (simulateIndicesA n f a reps drawn ts us))
  | .call true a reps drawn ts us =>
    match sv with
    | Option.none => (sv, .idx (simulateA n f a reps drawn ts us))
    | some l =>
      match a with
      | .ok i => (sv, .vals (simulateSV l n f i reps drawn ts us))
      | _ => (sv, .vals (.ok Option.none))      -- outside the modelled domain

def runH (n : Nat) (f : Nat → List α → Option (List Nat)) : Option (List Int) → List (HOp α) → List HOut
  | _, [] => []
  | sv, op :: ops => (stepH n f sv op).2 :: runH n f (stepH n f sv op).1 ops

def finalSV (n : Nat) (f : Nat → List α → Option (List Nat)) (sv : Option (List Int))
    (ops : List (HOp α)) : Option (List Int) :=
  ops.foldl (fun s op => (stepH n f s op).1) sv

/-! ### mc_sample_path (markov/core.py 704-715) -/

/-- `init` of `mc_sample_path`: a state, or an initial distribution with the uniform `u_0`
    drawn for it -/
inductive McInit (α : Type)
  | state (i : Int)
  | dist (d : List α) (u0 : α)

/-- `X_0 = init` or `searchsorted_cdf(cumsum(init), u_0)`, then
    `MarkovChain(P).simulate(ts_length=sample_size, init=X_0)` with one row of uniforms -/
def mcSamplePath [Add α] [LT α] [DecidableLT α] [BEq α] (P : List (List α)) (init : McInit α)
    (ts : Nat) (us : List (List α)) : Except Err (Option SimRes) :=
  let x0 : Int := match init with
    | .state i => i
    | .dist d u0 => searchsortedCdfPy (cumsum d) u0
  simulate P.length (pathDense (cdfsDense P)) (.scalar x0) Option.none [] ts us

/-! ### DiscreteRV.draw, random.draw -/

/-- `a.searchsorted(v, side='right')` on a sorted array: number of leading entries `≤ v` -/
def npSearchRight [LT α] [DecidableLT α] (a : List α) (v : α) : Nat :=
  (a.takeWhile fun y => !decide (v < y)).length

/-- `a.searchsorted(v, side='left')` on a sorted array: number of leading entries `< v` -/
def npSearchLeft [LT α] [DecidableLT α] (a : List α) (v : α) : Nat :=
  (a.takeWhile fun y => decide (y < v)).length

/-- `DiscreteRV(q).draw` with uniforms `us`; `none` = `IndexError` (`Q[-1]` of an empty `Q`). -/
def drvDraw [Add α] [LT α] [DecidableLT α] (q us : List α) : Option (List Nat) :=
  let Q := cumsum q
  match Q.getLast? with
  | none => none
  | some last =>
    some (us.map fun u =>
      let i := npSearchRight Q u
      if i = Q.length then npSearchLeft Q last else i)

/-- the same with the cumulative sums `Q` given (what `draw` reads; used when `Q` was accumulated in
    another precision, e.g. float32 masses) -/
def drvDrawQ [LT α] [DecidableLT α] (Q us : List α) : Option (List Nat) :=
  match Q.getLast? with
  | none => none
  | some last =>
    some (us.map fun u =>
      let i := npSearchRight Q u
      if i = Q.length then npSearchLeft Q last else i)

/-! ### histories on one `DiscreteRV` object: the state is the probability vector `q`
    (`Q` is recomputed by `__init__` and by the `q` setter, never elsewhere) -/

inductive DOp (α : Type)
  | setQ (q : List α)
  | draw (us : List α)

/-- output of one operation: `none` for an assignment, the draws (or `IndexError`) for `draw` -/
def stepD [Add α] [LT α] [DecidableLT α] (q : List α) : DOp α → List α × Option (Option (List Nat))
  | .setQ q' => (q', Option.none)
  | .draw us => (q, some (drvDraw q us))

def runD [Add α] [LT α] [DecidableLT α] : List α → List (DOp α) → List (Option (Option (List Nat)))
  | _, [] => []
  | q, op :: ops => (stepD q op).2 :: runD (stepD q op).1 ops

def finalQ [Add α] [LT α] [DecidableLT α] (q : List α) (ops : List (DOp α)) : List α :=
  ops.foldl (fun s op => (stepD s op).1) q

/-- `quantecon.random.draw(cdf, size)` with uniforms `us`: one index per uniform. For every
    `numbers.Integral` `size` (fix c73be8b: NumPy integers included) `len us = size` and an array is
    returned; for `size=None` one uniform, one (scalar) index. -/
def draw [LT α] [DecidableLT α] [BEq α] (cdf us : List α) : List Int :=
  us.map (searchsortedCdfPy cdf)

/-! ### the constructor's checks (markov/core.py 177-197), in exact arithmetic -/

/-- exact row sum -/
def rsum : List Rat → Rat
  | [] => 0
  | x :: xs => x + rsum xs

/-- `np.allclose(s, 1)`: `|s − 1| ≤ atol + rtol·|1|` with the default `rtol = 1e-5`, `atol = 1e-8`
    (as exact rationals; the code evaluates the same test in doubles on a rounded sum, which can
    differ only for sums within ~1e-15 of the boundary) -/
def closeToOne (s : Rat) : Bool :=
  let d := s - 1
  let a := if d < 0 then -d else d
  decide (a ≤ (1 : Rat) / 100000000 + (1 : Rat) / 100000)

/-- `MarkovChain.__init__`: square, nonnegative, rows summing to one within the tolerance;
    every failure is a `ValueError` -/
def acceptChain (P : List (List Rat)) : Except Err Unit :=
  if !(P.all fun r => r.length == P.length) then .error .valueError
  else if !(P.all fun r => r.all fun x => decide (0 ≤ x)) then .error .valueError
  else if !(P.all fun r => closeToOne (rsum r)) then .error .valueError
  else .ok ()

/-! ### line protocol -/

open QE

def parseInit? (s : String) : Option InitArg :=
  if s = "none" then some (.ok .none)
  else if s = "x" then some .nonIntegral
  else match s.splitOn ":" with
    | ["s", v] => (parseInt? v).map fun i => .ok (.scalar i)
    | ["a", v] => (parseList? parseInt? v).map fun l => .ok (.arr l)
    | ["b", v] => (parseList? parseInt? v).map .arrNI
    | _ => Option.none

def parseReps? (s : String) : Option (Option Nat) :=
  if s = "none" then some Option.none else (parseNat? s).map some

def showErr : Err → String
  | .valueError => "ERR:ValueError"
  | .indexError => "ERR:IndexError"

def showSim : Option SimRes → String
  | none => "model-out-of-domain"
  | some r => "dim=" ++ toString r.dim ++ "|k=" ++ toString r.paths.length ++ "|X=" ++ showMat toString r.paths

/-- the scalar-specific part of the protocol -/
structure Sc (α : Type) where
  list : List String → String → Option (List α)
  mat : List String → String → Option (List (List α))
  one : String → Option α
  shw : α → String

def scFloat : Sc Float := ⟨kvFloats, kvFloatMat, parseFloat?, showFloatBits⟩
def scRat : Sc Rat := ⟨kvRats, kvRatMat, parseRat?, showRat⟩

structure SimArgs where
  init : InitArg
  reps : Option Nat
  drawn : List Nat
  viaSim : Bool
  ts : Nat
  sv : Option (List Int) := Option.none

def simArgs (r : List String) : Option SimArgs :=
  match (kv r "init").bind parseInit?, (kv r "reps").bind parseReps?, kvNats r "drawn", kv r "via",
        kvNat r "ts" with
  | some i, some reps, some d, some via, some ts =>
    if via = "indices" then some ⟨i, reps, d, false, ts, Option.none⟩
    else if via = "simulate" then
      match kv r "sv" with
      | Option.none => some ⟨i, reps, d, true, ts, Option.none⟩
      | some t => (parseList? parseInt? t).map fun sv => ⟨i, reps, d, true, ts, some sv⟩
    else none
  | _, _, _, _, _ => none

/-- on the wire a `(k, 0)` array of uniforms cannot be told from a `(0, ·)` one (`-`);
    for `ts = 1` the rows are rebuilt from `k` -/
def fixUs (k ts : Nat) (us : List (List α)) : List (List α) :=
  if ts = 1 then List.replicate k [] else us

def showRes : Except Err (Option SimRes) → String
  | .error e => showErr e
  | .ok r => showSim r

def showResSV : Except Err (Option (Nat × List (List Int))) → String
  | .error e => showErr e
  | .ok Option.none => "model-out-of-domain"
  | .ok (some (dim, X)) => "dim=" ++ toString dim ++ "|k=" ++ toString X.length ++ "|X=" ++ showMat toString X

/-- number of paths the call will produce (0 when it raises), to rebuild `(k, 0)` uniform arrays -/
def kOf (n : Nat) (a : SimArgs) (sv : Option (List Int)) : Nat :=
  let init' : Except Err Init :=
    match a.viaSim, sv, a.init with
    | false, _, .ok i => .ok i
    | false, _, .arrNI l => .ok (.arr l)
    | true, Option.none, .ok i => getIndex n i
    | true, Option.none, .arrNI l => if l.isEmpty then .ok (.arr []) else .error .valueError
    | true, some sv, .ok i => getIndexSV sv i
    | _, _, _ => .error .valueError
  match init' with
  | .error _ => 0
  | .ok i => match initStates n i a.reps a.drawn with
    | .error _ => 0
    | .ok ir => ir.states.length

def showHOut : HOut → String
  | .set true => "set-ok"
  | .set false => "ERR:ValueError"
  | .idx r => showRes r
  | .vals r => showResSV r

def runSim (n : Nat) (f : Nat → List α → Option (List Nat)) (a : SimArgs) (us : List (List α)) : String :=
  let us' := fixUs (kOf n a a.sv) a.ts us
  showHOut (stepH n f a.sv (.call a.viaSim a.init a.reps a.drawn a.ts us')).2

def parseInit2? (s : String) : Option Init2 :=
  if s = "none" then some .none
  else if s = "bad" then some .bad
  else match s.splitOn ":" with
    | ["r", v] => (parseList? parseInt? v).map .row
    | ["m", v] => (parseMat? parseInt? v).map .rows
    | _ => Option.none

def showResSV2 : Except Err (Option (Nat × List (List (List Int)))) → String
  | .error e => showErr e
  | .ok Option.none => "model-out-of-domain"
  | .ok (some (dim, X)) => "dim=" ++ toString dim ++ "|k=" ++ toString X.length ++ "|X=" ++
      (if X.isEmpty then "-" else "/".intercalate (X.map (showMat toString)))

/-- `sim2`: one `simulate` call on a chain whose `state_values` are the 2-D array `sv2` -/
def runSim2 (n : Nat) (f : Nat → List α → Option (List Nat)) (umat : List String → String → Option (List (List α)))
    (r : List String) : String :=
  match kvIntMat r "sv2", (kv r "init2").bind parseInit2?, (kv r "reps").bind parseReps?, kvNats r "drawn",
        kvNat r "ts", umat r "u" with
  | some sv, some init, some reps, some drawn, some ts, some us =>
    let k := match getIndexSV2 sv init with
      | .error _ => 0
      | .ok i => match initStates n i reps drawn with
        | .error _ => 0
        | .ok ir => ir.states.length
    showResSV2 (simulateSV2 sv n f init reps drawn ts (fixUs k ts us))
  | _, _, _, _, _, _ => "bad-op"

/-- tokens `o<i>.key=value` of operation `i`, prefix removed -/
def opToks (toks : List String) (i : Nat) : List String :=
  let pre := ("o" ++ toString i ++ ".").toList
  toks.filterMap fun t => if pre.isPrefixOf t.toList then some (String.ofList (t.toList.drop pre.length)) else none

def parseSV? (s : String) : Option (Option (List Int)) :=
  if s = "none" then some Option.none else (parseList? parseInt? s).map some

/-- `hist`: a sequence of setter assignments and simulate calls on one object -/
def runHist (n : Nat) (f : Nat → List α → Option (List Nat)) (umat : List String → String → Option (List (List α)))
    (toks : List String) : String :=
  match (kv toks "sv0").bind parseSV?, kvNat toks "nops" with
  | some sv0, some nops =>
    let ops? : Option (List (Option (List Int) → HOp α)) := (List.range nops).mapM fun i =>
      let r := opToks toks i
      match kv r "kind" with
      | some "set" => ((kv r "sv").bind parseSV?).map fun sv => fun _ => HOp.setSV sv
      | some "call" =>
        match simArgs r, umat r "u" with
        | some a, some us => some fun cur =>
            HOp.call a.viaSim a.init a.reps a.drawn a.ts (fixUs (kOf n a cur) a.ts us)
        | _, _ => Option.none
      | _ => Option.none
    match ops? with
    | Option.none => "bad-op"
    | some mk =>
      -- (`fixUs` needs the current state_values; thread them while building the operations)
      let (_, ops) := mk.foldl (fun (acc : Option (List Int) × List (HOp α)) m =>
        let op := m acc.1
        ((stepH n f acc.1 op).1, acc.2 ++ [op])) (sv0, [])
      " ## ".intercalate ((runH n f sv0 ops).map showHOut)
  | _, _ => "bad-op"

def handleSc [Add α] [LT α] [DecidableLT α] [BEq α] (sc : Sc α) (toks : List String) : String :=
  match toks with
  | "ss" :: r =>
    match sc.list r "a", (kv r "v").bind sc.one with
    | some a, some v => toString (searchsorted a v)
    | _, _ => "bad-op"
  | "sscdf" :: r =>
    match sc.list r "a", (kv r "v").bind sc.one with
    | some a, some v => toString (searchsortedCdfPy a v)
    | _, _ => "bad-op"
  | "cumsum" :: r =>
    match sc.list r "a" with
    | some a => showList sc.shw (cumsum a)
    | _ => "bad-op"
  | "dense" :: r =>
    match sc.mat r "P", simArgs r, sc.mat r "u" with
    | some P, some a, some us =>
      -- `cdfs=`: the cumulative sums as accumulated by the code in another precision (float32 `P`)
      let c := match sc.mat r "cdfs" with
        | some c => c
        | none => cdfsDense P
      "cdfs=" ++ showMat sc.shw c ++ "|" ++ runSim P.length (pathDense c) a us
    | _, _, _ => "bad-op"
  | "dense2" :: r =>
    match sc.mat r "P" with
    | some P =>
      let c := match sc.mat r "cdfs" with
        | some c => c
        | none => cdfsDense P
      runSim2 P.length (pathDense c) sc.mat r
    | _ => "bad-op"
  | "sparse2" :: r =>
    match sc.list r "data", kvNats r "indices", kvNats r "indptr", kvNat r "n" with
    | some data, some indices, some indptr, some n =>
      let c := match sc.list r "c1d" with
        | some c => c
        | none => cdfs1d data indptr n
      runSim2 n (pathSparse c indices indptr) sc.mat r
    | _, _, _, _ => "bad-op"
  | "histdense" :: r =>
    match sc.mat r "P" with
    | some P =>
      let c := match sc.mat r "cdfs" with
        | some c => c
        | none => cdfsDense P
      runHist P.length (pathDense c) sc.mat r
    | _ => "bad-op"
  | "histsparse" :: r =>
    match sc.list r "data", kvNats r "indices", kvNats r "indptr", kvNat r "n" with
    | some data, some indices, some indptr, some n =>
      let c := match sc.list r "c1d" with
        | some c => c
        | none => cdfs1d data indptr n
      runHist n (pathSparse c indices indptr) sc.mat r
    | _, _, _, _ => "bad-op"
  | "sparse" :: r =>
    match sc.list r "data", kvNats r "indices", kvNats r "indptr", kvNat r "n", simArgs r, sc.mat r "u" with
    | some data, some indices, some indptr, some n, some a, some us =>
      let c := match sc.list r "c1d" with
        | some c => c
        | none => cdfs1d data indptr n
      "cdfs1d=" ++ showList sc.shw c ++ "|" ++ runSim n (pathSparse c indices indptr) a us
    | _, _, _, _, _, _ => "bad-op"
  | "drv" :: r =>
    match sc.list r "q", sc.list r "u" with
    | some q, some us =>
      let Q := match sc.list r "Q" with
        | some Q => Q
        | none => cumsum q
      match drvDrawQ Q us with
      | none => "ERR:IndexError"
      | some idx => "Q=" ++ showList sc.shw Q ++ "|" ++ showList toString idx
    | _, _ => "bad-op"
  | "drvhist" :: r =>
    -- a DiscreteRV object: q0, then operations o<i>.kind=set (o<i>.q=…) / draw (o<i>.u=…)
    match sc.list r "q0", kvNat r "nops" with
    | some q0, some nops =>
      let ops? : Option (List (DOp α)) := (List.range nops).mapM fun i =>
        let t := opToks r i
        match kv t "kind" with
        | some "set" => (sc.list t "q").map DOp.setQ
        | some "draw" => (sc.list t "u").map DOp.draw
        | _ => Option.none
      match ops? with
      | some ops => " ## ".intercalate ((runD q0 ops).map fun o =>
          match o with
          | Option.none => "set-ok"
          | some Option.none => "ERR:IndexError"
          | some (some idx) => showList toString idx)
      | Option.none => "bad-op"
    | _, _ => "bad-op"
  | "draw" :: r =>
    match sc.list r "cdf", sc.list r "u" with
    | some cdf, some us => showList toString (draw cdf us)
    | _, _ => "bad-op"
  | "mcsp" :: r =>
    -- mc_sample_path: X_0 = init (scalar) or searchsorted_cdf(cumsum(init), u_0) (distribution),
    -- then MarkovChain(P).simulate(ts_length, init=X_0) with the uniforms `u` (one row)
    match sc.mat r "P", sc.mat r "u" with
    | some P, some us =>
      let init? : Option (McInit α) :=
        match kvInt r "x0", sc.list r "dist", (kv r "u0").bind sc.one with
        | some i, _, _ => some (.state i)
        | none, some d, some u0 => some (.dist d u0)
        | _, _, _ => none
      match init?, kvNat r "ts" with
      | some init, some ts => showRes (mcSamplePath P init ts (fixUs 1 ts us))
      | _, _ => "bad-op"
    | _, _ => "bad-op"
  | _ => "bad-op"

def handleAccept (toks : List String) : String :=
  match kvRatMat toks "P" with
  | some P => match acceptChain P with
    | .ok _ => "ok"
    | .error e => showErr e
  | none => "bad-op"

def handle (toks : List String) : String :=
  if toks.head? == some "accept" then handleAccept toks else
  match kv toks "sc" with
  | some "float" => handleSc scFloat toks
  | some "rat" => handleSc scRat toks
  | _ => "bad-op"

end QE.C10
