/-
  QEModel.DriverLoop — the line-protocol loop shared by the per-property drivers
  (`Drivers/Cnn.lean`, built as `qedriver_cnn`). One request per input line:
      <property-id> <op> key=value …
  One canonical answer line per request. A request for another property, or one
  the handler does not understand, answers `bad-op`.
-/
namespace QE

def dispatchOne (pid : String) (handle : List String → String) (line : String) : String :=
  let toks := (line.splitOn " ").filter (· ≠ "")
  match toks with
  | p :: r => if p = pid then handle r else "bad-op"
  | _ => "bad-op"

partial def driverLoop (pid : String) (handle : List String → String)
    (h : IO.FS.Stream) (out : IO.FS.Stream) : IO Unit := do
  let line ← h.getLine
  if line.isEmpty then return ()
  let l := (line.dropEndWhile (fun c => c == '\n' || c == '\r')).toString
  out.putStrLn (dispatchOne pid handle l)
  driverLoop pid handle h out

def driverMain (pid : String) (handle : List String → String) : IO Unit := do
  let stdin ← IO.getStdin
  let stdout ← IO.getStdout
  driverLoop pid handle stdin stdout
  stdout.flush

end QE
