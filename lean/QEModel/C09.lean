/-
  QEModel.C09 — discrete dynamic programs: Bellman operator, greedy policies,
  policy evaluation, backward induction, conversion between the product form
  and the state-action-pair form, and the constructor's validation.
  Mirrors quantecon/markov/utilities.py (`_s_wise_max_argmax`, `_find_indices`,
  `_has_sorted_sa_indices`, `_generate_a_indptr`, `_fill_dense_Q`) and
  quantecon/markov/ddp.py (`DiscreteDP.__init__`, `_check_action_feasibility`,
  `to_sa_pair_form`, `to_product_form`, `RQ_sigma`, `bellman_operator`,
  `T_sigma`, `compute_greedy`, `evaluate_policy`, `controlled_mc`,
  `backward_induction`).

  Scalars are generic; rewards live in `Ext α` (`-inf` or a finite value).
  `np.linalg.solve` / `spsolve` is a parameter `solve` of `evalPolicy`
  (the driver instantiates it with an exact Gauss–Jordan elimination at `Rat`).
-/
import QEModel.Base
namespace QE.C09
open QE

/-! ### extended scalars: `-inf` or finite -/

inductive Ext (α : Type) where
  | ninf : Ext α
  | fin (x : α) : Ext α
deriving Repr, BEq, DecidableEq

namespace Ext
variable {α : Type}

instance : Inhabited (Ext α) := ⟨ninf⟩

/-- strict order of IEEE doubles restricted to `{-inf} ∪ finite` -/
protected def lt [LT α] : Ext α → Ext α → Prop
  | ninf, fin _ => True
  | fin a, fin b => a < b
  | ninf, ninf => False
  | fin _, ninf => False

instance [LT α] : LT (Ext α) := ⟨Ext.lt⟩

instance [LT α] [DecidableLT α] : DecidableLT (Ext α)
  | ninf, fin _ => isTrue trivial
  | fin a, fin b => inferInstanceAs (Decidable (a < b))
  | ninf, ninf => isFalse (fun h => h)
  | fin _, ninf => isFalse (fun h => h)

/-- `x + y` with `y` finite (`-inf + y = -inf`) -/
def addFin [Add α] : Ext α → α → Ext α
  | ninf, _ => ninf
  | fin x, y => fin (x + y)

def isNinf : Ext α → Bool
  | ninf => true
  | fin _ => false

def toOption : Ext α → Option α
  | ninf => none
  | fin x => some x

end Ext

/-! ### `_has_sorted_sa_indices`, `_generate_a_indptr` -/

/-- `_has_sorted_sa_indices(s_indices, a_indices)` -/
def hasSortedSa : List Nat → List Nat → Bool
  | s0 :: s1 :: ss, a0 :: a1 :: as =>
    if s0 > s1 then false
    else if s0 = s1 ∧ a0 ≥ a1 then false
    else hasSortedSa (s1 :: ss) (a1 :: as)
  | _, _ => true

/-- `while idx < L and s_indices[idx] == s: idx += 1`; the state is
    `(idx, s_indices[idx:])`. -/
def scanState (s : Nat) : List Nat → Nat → Nat × List Nat
  | [], idx => (idx, [])
  | x :: rest, idx => if x = s then scanState s rest (idx + 1) else (idx, x :: rest)

/-- the `for s in range(num_states-1)` loop: emits `out[s+1]` -/
def genLoop : List Nat → Nat → List Nat → List Nat
  | _, _, [] => []
  | rest, idx, s :: ss =>
    let r := scanState s rest idx
    r.1 :: genLoop r.2 r.1 ss

/-- `_generate_a_indptr(num_states, s_indices, out)` as repaired (bounded scan):
    `out[0] = 0`, `out[s+1]` from the scan, finally `out[num_states] = L`. -/
def generateAIndptr (n : Nat) (sInd : List Nat) : List Nat :=
  if n = 0 then [sInd.length]
  else 0 :: genLoop sInd 0 (List.range (n - 1)) ++ [sInd.length]

/-- the scan **before the repair**: `while s_indices[idx] == s: idx += 1`;
    `none` = a read at an index `≥ len(s_indices)`. -/
def scanStateU (s : Nat) : List Nat → Nat → Option (Nat × List Nat)
  | [], _ => none
  | x :: rest, idx => if x = s then scanStateU s rest (idx + 1) else some (idx, x :: rest)

def genLoopU : List Nat → Nat → List Nat → Option (List Nat)
  | _, _, [] => some []
  | rest, idx, s :: ss =>
    match scanStateU s rest idx with
    | none => none
    | some r => (genLoopU r.2 r.1 ss).map (r.1 :: ·)

/-- `_generate_a_indptr` with the unguarded scan (kept to document why the
    guard `idx < L` was needed). -/
def generateAIndptrUnbounded (n : Nat) (sInd : List Nat) : Option (List Nat) :=
  if n = 0 then some [sInd.length]
  else (genLoopU sInd 0 (List.range (n - 1))).map fun mid => 0 :: mid ++ [sInd.length]

/-! ### re-sorting of unsorted pairs (COO → CSR, `sort_indices`) -/

/-- lexicographic `(s, a)` comparison on `(s, a, original index)` triples -/
def saLe (x y : Nat × Nat × Nat) : Bool :=
  x.1 < y.1 || (x.1 == y.1 && x.2.1 ≤ y.2.1)

/-- `sa_ptrs.data`: the original pair indices in lexicographic `(s, a)` order -/
def resortPairs (sInd aInd : List Nat) : List Nat :=
  ((List.zip sInd (List.zip aInd (List.range sInd.length))).mergeSort saLe).map fun t => t.2.2

/-- CSR `indptr` of a matrix with `n` rows: `indptr[k]` = number of entries in rows `< k` -/
def countsIndptr (n : Nat) (sInd : List Nat) : List Nat :=
  (List.range (n + 1)).map fun k => sInd.countP (· < k)

/-- the rebuild loop `for i in range(n): for j in range(indptr[i], indptr[i+1]): _s[j] = i` -/
def rebuildS (n : Nat) (indptr : List Nat) : List Nat :=
  (List.range n).flatMap fun i => List.replicate (indptr.getD (i + 1) 0 - indptr.getD i 0) i

/-- `x[perm]` (fancy indexing by an index array) -/
def gather {β : Type} (x : List β) (perm : List Nat) (d : β) : List β := perm.map fun i => x.getD i d

/-! ### state-wise maximisation -/

section smax
variable {β : Type} [LT β] [DecidableLT β] [Inhabited β]

/-- `m = lo; for j in js: if vals[j] > vals[m]: m = j` (strict `>`: first maximum) -/
def maxIdxLoop (vals : List β) (m : Nat) (js : List Nat) : Nat :=
  js.foldl (fun m j => if vals.getD m default < vals.getD j default then j else m) m

/-- index (into the pair arrays) selected for state `i` by `_s_wise_max_argmax`;
    `none` when `a_indptr[i] == a_indptr[i+1]` (the out-arrays are left untouched). -/
def sWiseIdx (aIndptr : List Nat) (vals : List β) (i : Nat) : Option Nat :=
  let lo := aIndptr.getD i 0
  let hi := aIndptr.getD (i + 1) 0
  if lo ≠ hi then some (maxIdxLoop vals lo (List.range' (lo + 1) (hi - (lo + 1)))) else none

/-- `_s_wise_max_argmax(a_indices, a_indptr, vals, out_max, out_argmax)` per state:
    `some (out_max[i], out_argmax[i])`, or `none` if state `i` has no pair. -/
def sWiseMaxArgmax (aInd aIndptr : List Nat) (vals : List β) (n : Nat) : List (Option (β × Nat)) :=
  (List.range n).map fun i =>
    (sWiseIdx aIndptr vals i).map fun m => (vals.getD m default, aInd.getD m 0)

/-- `row.argmax()` of NumPy on NaN-free data: first maximum -/
def argmaxRow (row : List β) : Nat :=
  maxIdxLoop row 0 (List.range' 1 (row.length - 1))

end smax

/-- `_find_indices(a_indices, a_indptr, sigma, out)` per state: the last `j` in
    `range(a_indptr[i], a_indptr[i+1])` with `sigma[i] == a_indices[j]`;
    `none` = `out[i]` is never written (it keeps the contents of `np.empty`). -/
def findIndex (aInd aIndptr : List Nat) (i : Nat) (act : Nat) : Option Nat :=
  let lo := aIndptr.getD i 0
  let hi := aIndptr.getD (i + 1) 0
  (List.range' lo (hi - lo)).foldl (fun out j => if aInd[j]? = some act then some j else out) none

def findIndices (aInd aIndptr : List Nat) (sigma : List Nat) : List (Option Nat) :=
  (List.range sigma.length).map fun i => findIndex aInd aIndptr i (sigma.getD i 0)

/-! ### the two representations -/

/-- state-action-pair form (after the constructor: pairs in lexicographic order) -/
structure SaDDP (α : Type) where
  n : Nat
  beta : α
  R : List (Ext α)
  Q : List (List α)
  sInd : List Nat
  aInd : List Nat
  aIndptr : List Nat
deriving Repr

/-- product form: `R` is `n × m` (`-inf` = infeasible), `Q` is `n × m × n` -/
structure ProdDDP (α : Type) where
  n : Nat
  m : Nat
  beta : α
  R : List (List (Ext α))
  Q : List (List (List α))
deriving Repr

section arith
variable {α : Type} [Zero α] [Add α] [Mul α]

/-- `q.dot(v)` for one row -/
def dot : List α → List α → α
  | a :: as, b :: bs => a * b + dot as bs
  | _, _ => 0

/-- `r + beta * q.dot(v)` -/
def qval (beta : α) (r : Ext α) (q v : List α) : Ext α := r.addFin (beta * dot q v)

/-- `vals = R + beta * Q.dot(v)`, shape `(L,)` -/
def SaDDP.vals (d : SaDDP α) (v : List α) : List (Ext α) :=
  List.zipWith (fun r q => qval d.beta r q v) d.R d.Q

/-- `vals = R + beta * Q.dot(v)`, shape `(n, m)` -/
def ProdDDP.vals (d : ProdDDP α) (v : List α) : List (List (Ext α)) :=
  List.zipWith (fun rs qs => List.zipWith (fun r q => qval d.beta r q v) rs qs) d.R d.Q

variable [LT α] [DecidableLT α]

/-- `bellman_operator(v, Tv, sigma)` in SA-pair form: `(Tv, sigma)`.
    For a state without pairs the code leaves the out-arrays untouched; the
    constructor excludes that case (`checkFeasibleSa`), here it shows as `(-inf, 0)`. -/
def SaDDP.bellman (d : SaDDP α) (v : List α) : List (Ext α) × List Nat :=
  ((sWiseMaxArgmax d.aInd d.aIndptr (d.vals v) d.n).map fun o => o.getD (Ext.ninf, 0)).unzip

/-- `bellman_operator(v, Tv, sigma)` in product form: `argmax(axis=1)` then the value there -/
def ProdDDP.bellman (d : ProdDDP α) (v : List α) : List (Ext α) × List Nat :=
  ((d.vals v).map fun row => let a := argmaxRow row; (row.getD a Ext.ninf, a)).unzip

end arith

/-! ### constructor checks -/

/-- the constructor's rejections; every one of them is a `ValueError` in the code -/
inductive CtorErr where
  | reward (s : Nat)   -- 'for every state the reward must be finite for some action: violated for state s'
  | action (s : Nat)   -- 'for every state at least one action must be available: violated for state s'
  | beta               -- 'beta must be in [0, 1]'
  | shape              -- 'shapes of R and Q must be either (n, m) and (n, m, n), or (L,) and (L, n)'
  | length             -- 'length of s_indices and a_indices must be equal to the number of state-action pairs'
  | coo                -- SciPy's COO constructor: 'axis 0 index … exceeds matrix dimension …'
deriving Repr, DecidableEq

instance : ToString CtorErr where
  toString
    | .reward s => s!"ValueError:reward:{s}"
    | .action s => s!"ValueError:action:{s}"
    | .beta => "ValueError:beta"
    | .shape => "ValueError:shape"
    | .length => "ValueError:length"
    | .coo => "ValueError:coo"

section ctor
variable {α : Type}

/-- first index in `range n` satisfying `p` (`np.where(...)[0][0]`) -/
def firstIdx (n : Nat) (p : Nat → Bool) : Option Nat := (List.range n).find? p

/-- `_check_action_feasibility` in SA-pair form. `R_max = s_wise_max(R)` is
    written only for states with at least one pair. -/
def checkFeasibleSa [LT α] [DecidableLT α] (n : Nat) (R : List (Ext α)) (aInd aIndptr : List Nat) :
    Except CtorErr Unit :=
  let rmax := sWiseMaxArgmax aInd aIndptr R n
  match firstIdx n (fun i => match rmax.getD i none with
                             | some (x, _) => x.isNinf
                             | none => false) with
  | some s => .error (.reward s)
  | none =>
    match firstIdx n (fun i => aIndptr.getD (i + 1) 0 - aIndptr.getD i 0 == 0) with
    | some s => .error (.action s)
    | none => .ok ()

/-- `_check_action_feasibility` in product form: `R.max(axis=1) == -inf` -/
def checkFeasibleProd (R : List (List (Ext α))) : Except CtorErr Unit :=
  match firstIdx R.length (fun i => (R.getD i []).all Ext.isNinf) with
  | some s => .error (.reward s)
  | none => .ok ()

variable [Zero α] [One α] [LT α] [LE α] [DecidableLT α] [DecidableLE α]

def checkBeta (beta : α) : Except CtorErr Unit :=
  if 0 ≤ beta ∧ beta ≤ 1 then .ok () else .error .beta

/-- the arrays the constructor stores (lines 345-367): kept as they are when the pairs are in
    lexicographic order, otherwise re-sorted through the COO → CSR conversion -/
def arrangeSa (n : Nat) (beta : α) (R : List (Ext α)) (Q : List (List α)) (sInd aInd : List Nat) :
    SaDDP α :=
  if hasSortedSa sInd aInd then
    { n := n, beta := beta, R := R, Q := Q, sInd := sInd, aInd := aInd,
      aIndptr := generateAIndptr n sInd }
  else
    let perm := resortPairs sInd aInd
    let indptr := countsIndptr n sInd
    { n := n, beta := beta, R := gather R perm Ext.ninf, Q := gather Q perm [],
      sInd := rebuildS n indptr, aInd := gather aInd perm 0, aIndptr := indptr }

/-- `DiscreteDP(R, Q, beta, s_indices, a_indices)` with 2-dimensional `Q` (`n` = `Q.shape[1]`) -/
def mkSa (n : Nat) (beta : α) (R : List (Ext α)) (Q : List (List α)) (sInd aInd : List Nat) :
    Except CtorErr (SaDDP α) :=
  let L := Q.length
  if R.length ≠ L then .error .shape
  else if ¬ (sInd.length = L ∧ aInd.length = L) then .error .length
  else if ¬ hasSortedSa sInd aInd ∧ sInd.any (fun s => decide (n ≤ s)) then
    -- `sp.coo_matrix(..., shape=(n, max a + 1))` refuses a row index `≥ n`
    .error .coo
  else
    let d := arrangeSa n beta R Q sInd aInd
    match checkFeasibleSa n d.R d.aInd d.aIndptr with
    | .error e => .error e
    | .ok _ =>
      match checkBeta beta with
      | .error e => .error e
      | .ok _ => .ok d

/-- `DiscreteDP(R, Q, beta)` with 3-dimensional `Q` -/
def mkProd (beta : α) (R : List (List (Ext α))) (Q : List (List (List α))) :
    Except CtorErr (ProdDDP α) :=
  let n := R.length
  let m := (R.headD []).length
  if ¬ (R.all (·.length == m) ∧ Q.length = n ∧ Q.all (fun qs => qs.length == m && qs.all (·.length == n)))
  then .error .shape
  else
    match checkFeasibleProd R with
    | .error e => .error e
    | .ok _ =>
      match checkBeta beta with
      | .error e => .error e
      | .ok _ => .ok { n := n, m := m, beta := beta, R := R, Q := Q }

/-! ### form conversion -/

/-- `np.where(R > -inf)` in row-major order, with the rewards and `Q` rows there -/
def feasiblePairs (R : List (List (Ext α))) (Q : List (List (List α))) :
    List (Nat × Nat × α × List α) :=
  (List.range R.length).flatMap fun s =>
    let row := R.getD s []
    (List.range row.length).filterMap fun a =>
      match row.getD a Ext.ninf with
      | .ninf => none
      | .fin r => some (s, a, r, (Q.getD s []).getD a [])

/-- `to_sa_pair_form()` of a product-form instance -/
def toSaPair (d : ProdDDP α) : Except CtorErr (SaDDP α) :=
  let ps := feasiblePairs d.R d.Q
  mkSa d.n d.beta (ps.map fun p => Ext.fin p.2.2.1) (ps.map fun p => p.2.2.2)
    (ps.map fun p => p.1) (ps.map fun p => p.2.1)

/-- index of the last pair equal to `(s, a)` (the write `R[s_indices, a_indices] = R`
    and `_fill_dense_Q` visit the pairs in order, later writes win) -/
def lookupPair (sInd aInd : List Nat) (s a : Nat) : Option Nat :=
  (List.range sInd.length).foldl
    (fun out i => if sInd[i]? = some s ∧ aInd[i]? = some a then some i else out) none

/-- `to_product_form()` of an SA-pair instance -/
def toProduct (d : SaDDP α) : Except CtorErr (ProdDDP α) :=
  let na := d.aInd.foldl max 0 + 1
  let R := (List.range d.n).map fun s => (List.range na).map fun a =>
    match lookupPair d.sInd d.aInd s a with
    | some i => d.R.getD i Ext.ninf
    | none => Ext.ninf
  let Q := (List.range d.n).map fun s => (List.range na).map fun a =>
    match lookupPair d.sInd d.aInd s a with
    | some i => d.Q.getD i []
    | none => List.replicate d.n 0
  mkProd d.beta R Q

end ctor

/-! ### policies -/

section policy
variable {α : Type}

/-- `RQ_sigma(sigma)` in SA-pair form; `none` if some `sigma[i]` is not an action
    of state `i` (the code then indexes with uninitialised memory). -/
def SaDDP.rqSigma (d : SaDDP α) (sigma : List Nat) : Option (List (Ext α) × List (List α)) :=
  (findIndices d.aInd d.aIndptr (sigma.take d.n)).mapM (fun o => o) |>.map fun idx =>
    (gather d.R idx Ext.ninf, gather d.Q idx [])

/-- `RQ_sigma(sigma)` in product form; `none` if some `sigma[i] ≥ m` (IndexError) -/
def ProdDDP.rqSigma (d : ProdDDP α) (sigma : List Nat) : Option (List (Ext α) × List (List α)) :=
  if sigma.length = d.n ∧ sigma.all (· < d.m) then
    some ((List.range d.n).map (fun s => (d.R.getD s []).getD (sigma.getD s 0) Ext.ninf),
          (List.range d.n).map (fun s => (d.Q.getD s []).getD (sigma.getD s 0) []))
  else none

variable [Zero α] [Add α] [Mul α]

/-- `T_sigma(sigma)(v) = R_sigma + beta * Q_sigma.dot(v)` -/
def tSigmaOf (beta : α) (rq : List (Ext α) × List (List α)) (v : List α) : List (Ext α) :=
  List.zipWith (fun r q => qval beta r q v) rq.1 rq.2

def SaDDP.tSigma (d : SaDDP α) (sigma : List Nat) (v : List α) : Option (List (Ext α)) :=
  (d.rqSigma sigma).map fun rq => tSigmaOf d.beta rq v

def ProdDDP.tSigma (d : ProdDDP α) (sigma : List Nat) (v : List α) : Option (List (Ext α)) :=
  (d.rqSigma sigma).map fun rq => tSigmaOf d.beta rq v

variable [One α] [Sub α] [BEq α]

/-- `A = I - beta * Q_sigma` -/
def policyMatrix (beta : α) (Qs : List (List α)) : List (List α) :=
  Qs.mapIdx fun i row => row.mapIdx fun j q => (if i = j then (1 : α) else 0) - beta * q

/-- `evaluate_policy(sigma)`: `NotImplementedError` when `beta == 1`, else the
    solution of `(I - beta Q_sigma) v = R_sigma` by `solve`.
    `undef` = infeasible policy / `-inf` reward / `solve` failed (outside the modelled domain). -/
def evalPolicyOf (solve : List (List α) → List α → Option (List α)) (beta : α)
    (rq : Option (List (Ext α) × List (List α))) : Except String (List α) :=
  if beta == 1 then .error "NotImplementedError"
  else match rq with
    | none => .error "undef"
    | some (Rs, Qs) =>
      match Rs.mapM Ext.toOption with
      | none => .error "undef"
      | some b =>
        match solve (policyMatrix beta Qs) b with
        | none => .error "undef"
        | some x => .ok x

def SaDDP.evalPolicy (solve : List (List α) → List α → Option (List α)) (d : SaDDP α)
    (sigma : List Nat) : Except String (List α) := evalPolicyOf solve d.beta (d.rqSigma sigma)

def ProdDDP.evalPolicy (solve : List (List α) → List α → Option (List α)) (d : ProdDDP α)
    (sigma : List Nat) : Except String (List α) := evalPolicyOf solve d.beta (d.rqSigma sigma)

end policy

/-! ### exact Gauss–Jordan elimination (the driver's `solve`) -/

section gj
variable {α : Type} [Zero α] [Sub α] [Mul α] [Div α] [BEq α]

def gjStep (n : Nat) (st : Option (List (List α))) (c : Nat) : Option (List (List α)) :=
  st.bind fun rows =>
    match (List.range' c (n - c)).find? (fun p => !((rows.getD p []).getD c 0 == 0)) with
    | none => none
    | some p =>
      let rp := rows.getD p []
      let rc := rows.getD c []
      let rows1 := (rows.set p rc).set c rp
      let piv := rp.getD c 0
      let prow := rp.map (· / piv)
      some (rows1.mapIdx fun i r =>
        if i = c then prow
        else
          let f := r.getD c 0
          List.zipWith (fun x y => x - f * y) r prow)

def gaussJordan (A : List (List α)) (b : List α) : Option (List α) :=
  let n := A.length
  let aug := List.zipWith (fun r bi => r ++ [bi]) A b
  ((List.range n).foldl (gjStep n) (some aug)).map fun rows => rows.map fun r => r.getD n 0

/-- `A x` (rows of `A` dotted with `x`) -/
def mulVec [Add α] (A : List (List α)) (x : List α) : List α := A.map fun r => dot r x

/-- the driver's `solve`: Gauss–Jordan elimination whose answer is **checked**
    (`A x == b` exactly) before it is returned -/
def solveChecked [Add α] (A : List (List α)) (b : List α) : Option (List α) :=
  match gaussJordan A b with
  | some x => if x.length == A.length && mulVec A x == b then some x else none
  | none => none

end gj

/-! ### both forms under one type; backward induction -/

inductive DDP (α : Type) where
  | sa (d : SaDDP α)
  | prod (d : ProdDDP α)

section ddp
variable {α : Type}

def DDP.n : DDP α → Nat
  | .sa d => d.n
  | .prod d => d.n

def DDP.beta : DDP α → α
  | .sa d => d.beta
  | .prod d => d.beta

def DDP.rqSigma : DDP α → List Nat → Option (List (Ext α) × List (List α))
  | .sa d, s => d.rqSigma s
  | .prod d, s => d.rqSigma s

variable [Zero α] [Add α] [Mul α]

def DDP.tSigma (d : DDP α) (sigma : List Nat) (v : List α) : Option (List (Ext α)) :=
  (d.rqSigma sigma).map fun rq => tSigmaOf d.beta rq v

variable [LT α] [DecidableLT α]

/-- `bellman_operator(v, Tv, sigma)`: `(Tv, sigma)` -/
def DDP.bellman : DDP α → List α → List (Ext α) × List Nat
  | .sa d, v => d.bellman v
  | .prod d, v => d.bellman v

/-- the loop `for t in range(T, 0, -1)` of `backward_induction`, `k` iterations left,
    `v = vs[k]`; returns rows `vs[0..k-1]` and `sigmas[0..k-1]` (earliest first).
    `none` if a `-inf` value appears (excluded by the constructor's check). -/
def backwardLoop (d : DDP α) : Nat → List α → Option (List (List α) × List (List Nat))
  | 0, _ => some ([], [])
  | k + 1, v =>
    let r := d.bellman v
    match r.1.mapM Ext.toOption with
    | none => none
    | some tv =>
      match backwardLoop d k tv with
      | none => none
      | some (vs, ss) => some (vs ++ [tv], ss ++ [r.2])

/-- `backward_induction(ddp, T, v_term)`: `(vs, sigmas)` of shapes `(T+1, n)`, `(T, n)`;
    `v_term = None` is the zero vector. -/
def backwardInduction (d : DDP α) (T : Nat) (vTerm : Option (List α)) :
    Option (List (List α) × List (List Nat)) :=
  let vT := vTerm.getD (List.replicate d.n 0)
  (backwardLoop d T vT).map fun r => (r.1 ++ [vT], r.2)

end ddp

/-! ### argument handling of `__init__`: which formulation, or which `ValueError`

What the constructor decides from the *shapes* of its arguments alone (lines 299-349), before
any entry of `R`, `Q`, `s_indices`, `a_indices` is read: a sparse or 2-dimensional `Q` selects
the state-action-pair formulation, a 3-dimensional `Q` the product formulation; every
inconsistency is a `ValueError` with its own message. -/

/-- the constructor's arguments as far as the shape stage sees them -/
structure RawArgs where
  rShape : List Nat          -- `np.asarray(R).shape`
  qShape : List Nat          -- `Q.shape`
  qSparse : Bool             -- `sp.issparse(Q)` (then `Q` is 2-dimensional)
  sLen : Option Nat          -- `len(s_indices)`, `none` = not supplied
  aLen : Option Nat
deriving Repr, DecidableEq

/-- the `ValueError`s of the shape stage, in the order the code tests them -/
inductive ShapeErr where
  | qDim        -- 'Q must be 2- or 3-dimensional'
  | rDim        -- 'R must be 1- or 2-dimensional'
  | dimension   -- 'dimensions of R and Q must be either 1 and 2, or 2 and 3'
  | shape       -- 'shapes of R and Q must be either (n, m) and (n, m, n), or (L,) and (L, n)'
  | sMissing    -- 's_indices must be supplied'
  | aMissing    -- 'a_indices must be supplied'
  | length      -- 'length of s_indices and a_indices must be equal to the number of state-action pairs'
deriving Repr, DecidableEq

instance : ToString ShapeErr where
  toString
    | .qDim => "ValueError:qdim"
    | .rDim => "ValueError:rdim"
    | .dimension => "ValueError:dimension"
    | .shape => "ValueError:shape"
    | .sMissing => "ValueError:smissing"
    | .aMissing => "ValueError:amissing"
    | .length => "ValueError:length"

/-- the formulation selected: `sa L n sparse` (`num_sa_pairs, num_states = Q.shape`) or `prod n m` -/
inductive Form where
  | sa (L n : Nat) (sparse : Bool)
  | prod (n m : Nat)
deriving Repr, DecidableEq

def dispatch (x : RawArgs) : Except ShapeErr Form :=
  if !x.qSparse && x.qShape.length != 2 && x.qShape.length != 3 then .error .qDim
  else if x.rShape.length != 1 && x.rShape.length != 2 then .error .rDim
  else if x.qSparse || x.qShape.length == 2 then
    match x.qShape with
    | [L, n] =>
      if x.rShape.length != 1 then .error .dimension
      else if x.rShape != [L] then .error .shape
      else match x.sLen with
        | none => .error .sMissing
        | some sl =>
          match x.aLen with
          | none => .error .aMissing
          | some al => if sl = L ∧ al = L then .ok (.sa L n x.qSparse) else .error .length
    | _ => .error .qDim      -- a sparse matrix is always 2-dimensional
  else
    match x.rShape with
    | [n, m] => if x.qShape = [n, m, n] then .ok (.prod n m) else .error .shape
    | _ => .error .dimension

/-! ### the object as a state machine: attribute reassignment, in-place edits, queries

`DiscreteDP` keeps `R`, `Q`, `beta` as public attributes. `Op` lists what a caller can do to
one object between queries; `run` is the history semantics: setters replace the state, queries
answer **from the current state and their arguments only** and leave the state unchanged. -/

inductive Op (α : Type) where
  | setBeta (b : α)                         -- `ddp.beta = b`
  | setReward (j : Nat) (r : Ext α)         -- `ddp.R[j] = r` (SA: stored pair `j`; product: flat index `s*m+a`)
  | setRow (j : Nat) (q : List α)           -- `ddp.Q[j, :] = q` (same indexing)
  | bellman (v : List α)                    -- `ddp.bellman_operator(v)` (with or without output arrays)
  | tsigma (sigma : List Nat) (v : List α)  -- `ddp.T_sigma(sigma)(v)`

inductive Ans (α : Type) where
  | none
  | bell (tv : List (Ext α)) (sg : List Nat)
  | vec (x : Option (List (Ext α)))

section obj
variable {α : Type}

def DDP.setBeta : DDP α → α → DDP α
  | .sa d, b => .sa { d with beta := b }
  | .prod d, b => .prod { d with beta := b }

def DDP.setReward : DDP α → Nat → Ext α → DDP α
  | .sa d, j, r => .sa { d with R := d.R.set j r }
  | .prod d, j, r =>
    if d.m = 0 then .prod d
    else .prod { d with R := d.R.set (j / d.m) ((d.R.getD (j / d.m) []).set (j % d.m) r) }

def DDP.setRow : DDP α → Nat → List α → DDP α
  | .sa d, j, q => .sa { d with Q := d.Q.set j q }
  | .prod d, j, q =>
    if d.m = 0 then .prod d
    else .prod { d with Q := d.Q.set (j / d.m) ((d.Q.getD (j / d.m) []).set (j % d.m) q) }

/-- state after an operation: setters replace an attribute, queries change nothing -/
def Op.next (d : DDP α) : Op α → DDP α
  | .setBeta b => d.setBeta b
  | .setReward j r => d.setReward j r
  | .setRow j q => d.setRow j q
  | .bellman _ => d
  | .tsigma _ _ => d

variable [Zero α] [Add α] [Mul α] [LT α] [DecidableLT α]

/-- answer of an operation in state `d` -/
def Op.answer (d : DDP α) : Op α → Ans α
  | .bellman v => let b := d.bellman v; .bell b.1 b.2
  | .tsigma sigma v => .vec (d.tSigma sigma v)
  | _ => .none

/-- a history of operations on one object: the list of answers -/
def run (d : DDP α) : List (Op α) → List (Ans α)
  | [] => []
  | op :: rest => op.answer d :: run (op.next d) rest

end obj

/-! ### line protocol -/

def parseExt? (s : String) : Option (Ext Rat) :=
  if s = "ninf" then some .ninf else (parseRat? s).map .fin

def showExt : Ext Rat → String
  | .ninf => "ninf"
  | .fin q => showRat q

def kvExts (toks : List String) (key : String) : Option (List (Ext Rat)) :=
  (kv toks key).bind (parseList? parseExt?)

/-- split a list into consecutive chunks of length `m` (`k` chunks) -/
def chunks {β : Type} (m : Nat) : Nat → List β → List (List β)
  | 0, _ => []
  | k + 1, l => l.take m :: chunks m k (l.drop m)

def showSa (d : SaDDP Rat) : String :=
  "ok|indptr=" ++ showList toString d.aIndptr ++ "|s=" ++ showList toString d.sInd ++
  "|a=" ++ showList toString d.aInd ++ "|R=" ++ showList showExt d.R ++ "|Q=" ++ showMat showRat d.Q

def showProd (d : ProdDDP Rat) : String :=
  "ok|n=" ++ toString d.n ++ "|m=" ++ toString d.m ++ "|R=" ++ showMat showExt d.R ++
  "|Q=" ++ showMat showRat d.Q.flatten

def errKind (e : String) : String := "ERR:" ++ e

/-- parse the instance described on the line and run the model constructor -/
def parseDDP (r : List String) : Option (Except CtorErr (DDP Rat)) :=
  match kv r "form", kvRat r "beta" with
  | some "prod", some beta =>
    match kvNat r "n", kvNat r "m", kvExts r "R", kvRatMat r "Q" with
    | some n, some m, some R, some Q =>
      if R.length = n * m ∧ Q.length = n * m then
        some ((mkProd beta (chunks m n R) (chunks m n Q)).map DDP.prod)
      else none
    | _, _, _, _ => none
  | some "sa", some beta =>
    match kvNat r "n", kvExts r "R", kvRatMat r "Q", kvNats r "s", kvNats r "a" with
    | some n, some R, some Q, some s, some a => some ((mkSa n beta R Q s a).map DDP.sa)
    | _, _, _, _, _ => none
  | _, _ => none

def showExcept {ε β : Type} [ToString ε] (f : β → String) : Except ε β → String
  | .ok x => f x
  | .error e => errKind (toString e)

def rqShow (rq : Option (List (Ext Rat) × List (List Rat))) : String :=
  match rq with
  | some (R, Q) => "R=" ++ showList showExt R ++ "|Q=" ++ showMat showRat Q
  | none => "undef"

def parseOp? (t : String) : Option (Op Rat) :=
  match t.splitOn "~" with
  | ["B", b] => (parseRat? b).map .setBeta
  | ["R", j, r] => match j.toNat?, parseExt? r with
    | some j, some r => some (.setReward j r)
    | _, _ => none
  | ["Q", j, q] => match j.toNat?, parseList? parseRat? q with
    | some j, some q => some (.setRow j q)
    | _, _ => none
  | ["T", v] => (parseList? parseRat? v).map .bellman
  | ["S", sg, v] => match parseList? parseNat? sg, parseList? parseRat? v with
    | some sg, some v => some (.tsigma sg v)
    | _, _ => none
  | _ => none

def showAns : Ans Rat → String
  | .none => "."
  | .bell tv sg => "Tv=" ++ showList showExt tv ++ "|sigma=" ++ showList toString sg
  | .vec (some x) => showList showExt x
  | .vec none => "undef"

def runOp (op : String) (r : List String) (d : DDP Rat) : String :=
  match op with
  | "ctor" =>
    match d with
    | .sa d => showSa d
    | .prod d => showProd d
  | "bellman" =>
    match kvRats r "v" with
    | some v => let b := d.bellman v
                "Tv=" ++ showList showExt b.1 ++ "|sigma=" ++ showList toString b.2
    | none => "bad-op"
  | "bellmanTv" =>
    match kvRats r "v" with
    | some v => "Tv=" ++ showList showExt (d.bellman v).1
    | none => "bad-op"
  | "greedy" =>
    match kvRats r "v" with
    | some v => "sigma=" ++ showList toString (d.bellman v).2
    | none => "bad-op"
  | "rqsigma" =>
    match kvNats r "sigma" with
    | some s => rqShow (d.rqSigma s)
    | none => "bad-op"
  | "cmc" =>
    match kvNats r "sigma" with
    | some s => match d.rqSigma s with
                | some (_, Q) => "P=" ++ showMat showRat Q
                | none => "undef"
    | none => "bad-op"
  | "tsigma" =>
    match kvNats r "sigma", kvRats r "v" with
    | some s, some v => match d.tSigma s v with
                        | some x => showList showExt x
                        | none => "undef"
    | _, _ => "bad-op"
  | "evalpol" =>
    match kvNats r "sigma" with
    | some s => showExcept (showList showRat) (evalPolicyOf solveChecked d.beta (d.rqSigma s))
    | none => "bad-op"
  | "backward" =>
    match kvNat r "T", kv r "vterm" with
    | some T, some vt =>
      let vTerm : Option (Option (List Rat)) :=
        if vt = "none" then some none else (parseList? parseRat? vt).map some
      match vTerm with
      | none => "bad-op"
      | some vTerm =>
        match backwardInduction d T vTerm with
        | some (vs, ss) => "vs=" ++ showMat showRat vs ++ "|sigmas=" ++ showMat toString ss
        | none => "undef"
    | _, _ => "bad-op"
  | "hist" =>
    match (kv r "ops").bind fun t => (t.splitOn "|").mapM parseOp? with
    | some ops => "#".intercalate ((run d ops).map showAns)
    | none => "bad-op"
  | "tosa" =>
    match d with
    | .prod d => showExcept showSa (toSaPair d)
    | .sa d => showSa d
  | "toprod" =>
    match d with
    | .sa d => showExcept showProd (toProduct d)
    | .prod d => showProd d
  | "tosa_toprod" =>
    match d with
    | .prod d => match toSaPair d with
                 | .ok e => showExcept showProd (toProduct e)
                 | .error e => errKind (toString e)
    | .sa _ => "bad-op"
  | "toprod_tosa" =>
    match d with
    | .sa d => match toProduct d with
               | .ok e => showExcept showSa (toSaPair e)
               | .error e => errKind (toString e)
    | .prod _ => "bad-op"
  | _ => "bad-op"

def showForm : Form → String
  | .sa L n sp => s!"sa|L={L}|n={n}|sparse={if sp then 1 else 0}"
  | .prod n m => s!"prod|n={n}|m={m}"

def parseLenOpt? (s : String) : Option (Option Nat) :=
  if s = "none" then some none else s.toNat?.map some

def handle (toks : List String) : String :=
  match toks with
  | "dispatch" :: r =>
    match kvNats r "r", kvNats r "q", kvNat r "sparse", (kv r "s").bind parseLenOpt?, (kv r "a").bind parseLenOpt? with
    | some rs, some qs, some sp, some sl, some al =>
      if sp ≤ 1 then
        showExcept showForm (dispatch { rShape := rs, qShape := qs, qSparse := sp == 1, sLen := sl, aLen := al })
      else "bad-op"
    | _, _, _, _, _ => "bad-op"
  | "aindptr" :: r =>
    match kvNat r "n", kvNats r "s" with
    | some n, some s => showList toString (generateAIndptr n s)
    | _, _ => "bad-op"
  | "aindptrU" :: r =>
    match kvNat r "n", kvNats r "s" with
    | some n, some s => match generateAIndptrUnbounded n s with
                        | some l => showList toString l
                        | none => "ERR:IndexError"
    | _, _ => "bad-op"
  | "sorted" :: r =>
    match kvNats r "s", kvNats r "a" with
    | some s, some a => showBool (hasSortedSa s a)
    | _, _ => "bad-op"
  | op :: r =>
    match parseDDP r with
    | none => "bad-op"
    | some (.error e) => errKind (toString e)
    | some (.ok d) => runOp op r d
  | _ => "bad-op"

end QE.C09
