/-
  QEModel.C09 — executable model for property C09 (stub; to be filled in).
-/
import QEModel.Base
namespace QE.C09

def handle (_toks : List String) : String := "bad-op"

end QE.C09
