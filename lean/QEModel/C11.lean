/-
  QEModel.C11 — Lemke's algorithm for the linear complementarity problem.
  Mirrors quantecon/optimize/lcp_lemke.py (`lcp_lemke`, `_initialize_tableau`,
  `_get_solution`) on top of QEModel.Pivot (`_pivoting`, `_lex_min_ratio_test`).

  Inputs are total functions (`Mm i j`, `q i`, `d i`, read only for indices
  below `n`); the tableau is an `M α` of shape `n × (2n+2)` with the column
  order of the code: `w` (0..n-1), `z` (n..2n-1), `z0` (2n), right-hand side
  (2n+1); the basis is the function `row ↦ basic variable`.

  code lines → definitions
    126-130  trivial exit                       `trivialExit`, first branch of `lcpLemke`
    132-141, 196-258  tableau / basis set-up    `initTableau`, `initBasis` (d=None → caller passes ones)
    143-154  hand-written first ratio test      `firstStep`, `firstPivotRow` (repaired loop, `ratio_min = ratio`)
    156-157  first pivot, entering column       `firstPivot`
    162-185  main loop, ray / success / limit   `lemkeLoop` (fuel = max_iter - 1), `complement`, `setBasis`
    187, 261-291  read-out                      `getSolution`
    148/150  ZeroDivisionError (Numba python error model, `d[i] == 0`)   `divByZero`, `lcpLemkeE`
    162      signed `max_iter` (zero / negative limits)            `lcpLemkeI`
  parameters: `tolPiv`, `tolDiff` (= piv_options.tol_piv / tol_ratio_diff), `maxIter`.
  not part of the algorithm: `lemkeTies`/`firstTies`/`lcpTies`, `nearScan`/`lemkeNear`/`firstNear`/`lcpNear` (degeneracy and near-tie counters used by the
  harness), `firstStepBuggy`/`firstPivotRowBuggy`/`lemkeRunBuggy` (the pre-repair first ratio
  test, kept for the witness theorems).
-/
import QEModel.Base
import QEModel.Pivot
namespace QE.C11
open QE QE.Pivot

variable {α : Type} [Zero α] [One α] [Add α] [Sub α] [Mul α] [Div α] [Neg α] [LT α] [LE α]
  [DecidableLT α] [DecidableLE α] [BEq α]

/-- `_initialize_tableau` (lcp_lemke.py 239-253): `[ I | 0-M | -d | q ]`; the `M` block is written as
    `0. - M[i, j]` (so that unsigned integer `M` does not wrap, and a zero entry gives `+0.0`). -/
def initTableau (n : Nat) (Mm : Nat → Nat → α) (q d : Nat → α) : M α :=
  M.tab n (2 * n + 2) fun i j =>
    if j < n then (if j = i then 1 else 0)
    else if j < 2 * n then 0 - Mm i (j - n)
    else if j = 2 * n then - d i
    else q i

/-- `basis[i] = i` (lcp_lemke.py 255-256) -/
def initBasis : Nat → Nat := fun i => i

/-- one pass of the body of `for i in range(1, n)` (lcp_lemke.py 149-153), state
    `(pivrow, ratio_min)` — the code **as it is now** (`ratio_min = ratio`). -/
def firstStep (q d : Nat → α) (tolDiff : α) (st : Nat × α) (i : Nat) : Nat × α :=
  let ratio := q i / d i
  if ratio ≤ st.2 + tolDiff then (i, ratio) else st

/-- lcp_lemke.py 147-153: the hand-written first ratio test. -/
def firstPivotRow (n : Nat) (q d : Nat → α) (tolDiff : α) : Nat :=
  ((List.range' 1 (n - 1)).foldl (firstStep q d tolDiff) (0, q 0 / d 0)).1

/-- the loop body before the repair (`ratio = ratio_min`: the running minimum is
    never updated). Kept only to document why the repair was needed. -/
def firstStepBuggy (q d : Nat → α) (tolDiff : α) (st : Nat × α) (i : Nat) : Nat × α :=
  let ratio := q i / d i
  if ratio ≤ st.2 + tolDiff then (i, st.2) else st

def firstPivotRowBuggy (n : Nat) (q d : Nat → α) (tolDiff : α) : Nat :=
  ((List.range' 1 (n - 1)).foldl (firstStepBuggy q d tolDiff) (0, q 0 / d 0)).1

/-- `basis[pivrow] = pivcol` -/
def setBasis (basis : Nat → Nat) (r v : Nat) : Nat → Nat := fun i => if i = r then v else basis i

/-- complement of a variable `< 2n` (lcp_lemke.py 181-184): `w_i ↔ z_i` -/
def complement (n v : Nat) : Nat := if v < n then v + n else v - n

/-- result of the main loop: tableau, basis, status, num_iter -/
structure LoopOut (α : Type) where
  T : M α
  basis : Nat → Nat
  status : Nat
  numIter : Nat

/-- `while num_iter < max_iter:` (lcp_lemke.py 162-184); `fuel = max_iter - num_iter`.
    status 1: fuel exhausted, 2: no pivot row (ray), 0: the artificial variable `2n` left. -/
def lemkeLoop (n : Nat) (tolPiv tolDiff : α) : Nat → M α → (Nat → Nat) → Nat → Nat → LoopOut α
  | 0, T, basis, _, it => ⟨T, basis, 1, it⟩
  | fuel + 1, T, basis, pivcol, it =>
    let fr := lexMinRatio T pivcol 0 tolPiv tolDiff
    if fr.1 = false then ⟨T, basis, 2, it⟩
    else
      let pivrow := fr.2
      let T' := pivot T pivcol pivrow
      let leaving := basis pivrow
      let basis' := setBasis basis pivrow pivcol
      if leaving = 2 * n then ⟨T', basis', 0, it + 1⟩
      else lemkeLoop n tolPiv tolDiff fuel T' basis' (complement n leaving) (it + 1)

/-- `z[k] = v` -/
def setVec (z : Nat → α) (k : Nat) (v : α) : Nat → α := fun j => if j = k then v else z j

/-- `_get_solution` (lcp_lemke.py 284-289) as the function `j ↦ z[j]` -/
def getSolution (n : Nat) (T : M α) (basis : Nat → Nat) : Nat → α :=
  (List.range n).foldl (fun z i =>
    if n ≤ basis i ∧ basis i < 2 * n then setVec z (basis i - n) (T.get i (T.nc - 1)) else z)
    (fun _ => 0)

/-- state after lcp_lemke.py 141-157: initial tableau, first pivot on the
    artificial column in row `firstPivotRow` -/
def firstPivot (n : Nat) (Mm : Nat → Nat → α) (q d : Nat → α) (tolDiff : α) : M α × (Nat → Nat) × Nat :=
  let T0 := initTableau n Mm q d
  let r := firstPivotRow n q d tolDiff
  (pivot T0 (2 * n) r, setBasis initBasis r (2 * n), r + n)

/-- the non-trivial branch of `lcp_lemke` up to the end of the loop -/
def lemkeRun (n : Nat) (Mm : Nat → Nat → α) (q d : Nat → α) (maxIter : Nat) (tolPiv tolDiff : α) :
    LoopOut α :=
  let fp := firstPivot n Mm q d tolDiff
  lemkeLoop n tolPiv tolDiff (maxIter - 1) fp.1 fp.2.1 fp.2.2 1

/-- the run as it was before the repair of the first ratio test (`firstPivotRowBuggy`); kept
    only for the witness theorem `first_pivot_buggy_negative_z_witness` -/
def lemkeRunBuggy (n : Nat) (Mm : Nat → Nat → α) (q d : Nat → α) (maxIter : Nat) (tolPiv tolDiff : α) :
    LoopOut α :=
  let r := firstPivotRowBuggy n q d tolDiff
  lemkeLoop n tolPiv tolDiff (maxIter - 1) (pivot (initTableau n Mm q d) (2 * n) r)
    (setBasis initBasis r (2 * n)) (r + n) 1

/-- `(q >= 0).all()` -/
def trivialExit (n : Nat) (q : Nat → α) : Bool := (List.range n).all fun i => decide (0 ≤ q i)

structure LCPResult (α : Type) where
  z : Nat → α
  success : Bool
  status : Nat
  numIter : Nat
  /-- final basis (observable through the `basis=` argument); `none` on the trivial exit -/
  basis : Option (Nat → Nat)

/-- `lcp_lemke(M, q, d, max_iter, piv_options)` -/
def lcpLemke (n : Nat) (Mm : Nat → Nat → α) (q d : Nat → α) (maxIter : Nat) (tolPiv tolDiff : α) :
    LCPResult α :=
  if trivialExit n q then ⟨fun _ => 0, true, 0, 0, none⟩
  else
    let o := lemkeRun n Mm q d maxIter tolPiv tolDiff
    ⟨getSolution n o.T o.basis, o.status == 0, o.status, o.numIter, some o.basis⟩

/-! ### caller-supplied work / output buffers (`tableau=`, `basis=`, `z=`)

  The three optional arguments are arrays the caller may pass pre-filled with anything (garbage,
  NaN, the result of an earlier solve). The model takes their prior content as explicit inputs
  and performs the writes of the code; the theorems `lcpLemkeBuf_eq` (Properties/C11.lean) state
  that the prior content never influences the result — including on the trivial branch. -/

/-- `z[:] = 0` (lcp_lemke.py 127 and 287): every entry of the caller's buffer is overwritten -/
def zeroFill (_zbuf : Nat → α) : Nat → α := fun _ => 0

/-- `_initialize_tableau` as writes into the caller's `n × (2n+2)` buffer: columns `0..n-1`
    (zeroed, then the diagonal), `n..2n-1`, `2n` and `-1`; any other position keeps the old
    content (there is none for the documented shape). -/
def initTableauBuf (n : Nat) (Mm : Nat → Nat → α) (q d : Nat → α) (tbuf : M α) : M α :=
  M.tab n (2 * n + 2) fun i j =>
    if j < n then (if j = i then 1 else 0)
    else if j < 2 * n then 0 - Mm i (j - n)
    else if j = 2 * n then - d i
    else if j = 2 * n + 1 then q i
    else tbuf.get i j

/-- `for i in range(n): basis[i] = i` on the caller's length-`n` buffer -/
def initBasisBuf (_bbuf : Nat → Nat) : Nat → Nat := fun i => i

/-- `_get_solution` on the caller's `z` buffer: `z[:] = 0`, then the basic `z` entries -/
def getSolutionBuf (n : Nat) (T : M α) (basis : Nat → Nat) (zbuf : Nat → α) : Nat → α :=
  (List.range n).foldl (fun z i =>
    if n ≤ basis i ∧ basis i < 2 * n then setVec z (basis i - n) (T.get i (T.nc - 1)) else z)
    (zeroFill zbuf)

/-- `lcp_lemke(M, q, d, max_iter, piv_options, tableau=tbuf, basis=bbuf, z=zbuf)` -/
def lcpLemkeBuf (n : Nat) (Mm : Nat → Nat → α) (q d : Nat → α) (maxIter : Nat) (tolPiv tolDiff : α)
    (tbuf : M α) (bbuf : Nat → Nat) (zbuf : Nat → α) : LCPResult α :=
  if trivialExit n q then ⟨zeroFill zbuf, true, 0, 0, none⟩
  else
    let T0 := initTableauBuf n Mm q d tbuf
    let b0 := initBasisBuf bbuf
    let r := firstPivotRow n q d tolDiff
    let o := lemkeLoop n tolPiv tolDiff (maxIter - 1) (pivot T0 (2 * n) r) (setBasis b0 r (2 * n)) (r + n) 1
    ⟨getSolutionBuf n o.T o.basis zbuf, o.status == 0, o.status, o.numIter, some o.basis⟩

/-- `max_iter` as the signed integer the caller may pass: `while num_iter < max_iter` with
    `num_iter = 1` after the unconditional first pivot, so every `max_iter ≤ 1` (zero and negative
    values included) stops right after the first pivot. -/
def lcpLemkeI (n : Nat) (Mm : Nat → Nat → α) (q d : Nat → α) (maxIter : Int) (tolPiv tolDiff : α) :
    LCPResult α :=
  lcpLemke n Mm q d maxIter.toNat tolPiv tolDiff

/-- Numba's default error model: `q[i] / d[i]` (lcp_lemke.py 148, 150) raises
    `ZeroDivisionError` when `d[i] == 0`; the loop evaluates it for every `i < n`, after the
    trivial-exit test. No other division of the run can have a zero divisor (pivot elements are
    `> tol_piv ≥ 0`, the first one is `-d[pivrow]`). -/
def divByZero (n : Nat) (q d : Nat → α) : Bool :=
  !trivialExit n q && (List.range n).any fun i => d i == 0

/-- `lcp_lemke` including its exception path: `none` = `ZeroDivisionError` -/
def lcpLemkeE (n : Nat) (Mm : Nat → Nat → α) (q d : Nat → α) (maxIter : Nat) (tolPiv tolDiff : α) :
    Option (LCPResult α) :=
  if divByZero n q d then none else some (lcpLemke n Mm q d maxIter tolPiv tolDiff)

/-! ### degeneracy counters (driver-side instrumentation, not part of the algorithm) -/

/-- number of ratio tests along the run of `lemkeLoop` whose first pass (`test_col = -1`)
    left two or more candidate rows, i.e. in which the lexicographic tie-breaking columns
    were consulted. Mirrors the recursion of `lemkeLoop`. -/
def lemkeTies (n : Nat) (tolPiv tolDiff : α) : Nat → M α → (Nat → Nat) → Nat → Nat
  | 0, _, _, _ => 0
  | fuel + 1, T, basis, pivcol =>
    let a0 := minRatioNoTie T pivcol (T.nc - 1) (List.range T.nr) tolPiv tolDiff
    let t := if a0.length ≥ 2 then 1 else 0
    let fr := lexMinRatio T pivcol 0 tolPiv tolDiff
    if fr.1 = false then t
    else
      let pivrow := fr.2
      let leaving := basis pivrow
      if leaving = 2 * n then t
      else t + lemkeTies n tolPiv tolDiff fuel (pivot T pivcol pivrow) (setBasis basis pivrow pivcol)
                (complement n leaving)

/-- number of rows other than the chosen one whose ratio `q_i/d_i` is within `tolDiff`
    of the chosen row's ratio (ties of the first, hand-written ratio test) -/
def firstTies (n : Nat) (q d : Nat → α) (tolDiff : α) : Nat :=
  let r := firstPivotRow n q d tolDiff
  ((List.range n).filter fun i =>
    i != r && decide (q i / d i ≤ q r / d r + tolDiff) && decide (q r / d r ≤ q i / d i + tolDiff)).length

/-- ties met along the whole run of `lcpLemke` (0 on the trivial exit) -/
def lcpTies (n : Nat) (Mm : Nat → Nat → α) (q d : Nat → α) (maxIter : Nat) (tolPiv tolDiff : α) : Nat :=
  if trivialExit n q then 0
  else
    let fp := firstPivot n Mm q d tolDiff
    firstTies n q d tolDiff + lemkeTies n tolPiv tolDiff (maxIter - 1) fp.1 fp.2.1 fp.2.2

/-! ### near-tie counters (driver-side instrumentation, exact reference run only)

  A comparison of the run is *fragile* under rounding when its exact margin is small: two candidate
  ratios within `tolDiff + eps·max(1,|ratio|,|min|)` of each other (this includes exact ties), or a
  non-zero pivot-column entry within `eps` of the pivot tolerance. On runs without fragile
  comparison the floating-point code must follow the exact path; on the others it may not. -/

def absG (x : α) : α := if x < 0 then - x else x
def maxG (x y : α) : α := if x < y then y else x

/-- fragile comparisons of one no-tie-breaking scan (first pass of a ratio test) -/
def nearScan (T : M α) (pivotc testc : Nat) (cands : List Nat) (tolPiv tolDiff eps : α) : Nat :=
  (cands.foldl (fun (acc : MRState α × Nat) i =>
      let st := acc.1
      let e := T.get i pivotc
      let nearPiv : Nat := if !(e == 0) && decide (absG (e - tolPiv) < eps) then 1 else 0
      let nearRatio : Nat :=
        if e ≤ tolPiv then 0
        else
          let ratio := T.get i testc / e
          match st.1 with
          | none => 0
          | some rmin =>
            if absG (ratio - rmin) ≤ tolDiff + eps * maxG 1 (maxG (absG ratio) (absG rmin)) then 1 else 0
      (minRatioStep T pivotc testc tolPiv tolDiff st i, acc.2 + nearPiv + nearRatio))
    ((none, []), 0)).2

/-- fragile comparisons along the main loop (mirrors the recursion of `lemkeLoop`) -/
def lemkeNear (n : Nat) (tolPiv tolDiff eps : α) : Nat → M α → (Nat → Nat) → Nat → Nat
  | 0, _, _, _ => 0
  | fuel + 1, T, basis, pivcol =>
    let t := nearScan T pivcol (T.nc - 1) (List.range T.nr) tolPiv tolDiff eps
    let fr := lexMinRatio T pivcol 0 tolPiv tolDiff
    if fr.1 = false then t
    else
      let pivrow := fr.2
      let leaving := basis pivrow
      if leaving = 2 * n then t
      else t + lemkeNear n tolPiv tolDiff eps fuel (pivot T pivcol pivrow) (setBasis basis pivrow pivcol)
                (complement n leaving)

/-- fragile comparisons of the first, hand-written ratio test -/
def firstNear (n : Nat) (q d : Nat → α) (tolDiff eps : α) : Nat :=
  ((List.range' 1 (n - 1)).foldl (fun (acc : (Nat × α) × Nat) i =>
      let ratio := q i / d i
      let rmin := acc.1.2
      let nr : Nat :=
        if absG (ratio - rmin) ≤ tolDiff + eps * maxG 1 (maxG (absG ratio) (absG rmin)) then 1 else 0
      (firstStep q d tolDiff acc.1 i, acc.2 + nr))
    ((0, q 0 / d 0), 0)).2

def lcpNear (n : Nat) (Mm : Nat → Nat → α) (q d : Nat → α) (maxIter : Nat) (tolPiv tolDiff eps : α) : Nat :=
  if trivialExit n q then 0
  else
    let fp := firstPivot n Mm q d tolDiff
    firstNear n q d tolDiff eps + lemkeNear n tolPiv tolDiff eps (maxIter - 1) fp.1 fp.2.1 fp.2.2

/-! ### line protocol -/

def showResult (sh : α → String) (n : Nat) (r : LCPResult α) : String :=
  "success=" ++ showBool r.success ++ " status=" ++ toString r.status ++
  " num_iter=" ++ toString r.numIter ++
  " basis=" ++ (match r.basis with
    | none => "-"
    | some b => showList toString ((List.range n).map b)) ++
  " z=" ++ showList sh ((List.range n).map r.z)

instance : Zero Float := ⟨0.0⟩
instance : One Float := ⟨1.0⟩

def fnOfList {β : Type} [Zero β] (l : List β) : Nat → β := fun i => l.getD i 0
def fnOfMat {β : Type} [Zero β] (l : List (List β)) : Nat → Nat → β := fun i j => (l.getD i []).getD j 0

def wellShaped {β : Type} (n : Nat) (Mm : List (List β)) (q d : List β) : Bool :=
  n ≥ 1 && Mm.length == n && Mm.all (fun r => r.length == n) && q.length == n && d.length == n

def handle (toks : List String) : String :=
  match toks with
  | "lemke" :: r =>
    -- exact reference: Rat, tolerances given (0 for the theorems' setting)
    match kvNat r "n", kvRatMat r "M", kvRats r "q", kvRats r "d", kvNat r "maxiter",
          kvRat r "tolpiv", kvRat r "toldiff" with
    | some n, some Mm, some q, some d, some mi, some tp, some td =>
      if wellShaped n Mm q d then
        match lcpLemkeE n (fnOfMat Mm) (fnOfList q) (fnOfList d) mi tp td with
        | none => "ERR:ZeroDivisionError"
        | some res => showResult showRat n res ++
            " ties=" ++ toString (lcpTies n (fnOfMat Mm) (fnOfList q) (fnOfList d) mi tp td) ++
            " near=" ++ toString (lcpNear n (fnOfMat Mm) (fnOfList q) (fnOfList d) mi tp td
              ((kvRat r "eps").getD (1 / 1000000000)))
      else "bad-op"
    | _, _, _, _, _, _, _ => "bad-op"
  | "lemkef" :: r =>
    -- IEEE doubles, the code's tolerances passed as bit patterns
    match kvNat r "n", kvFloatMat r "M", kvFloats r "q", kvFloats r "d", kvNat r "maxiter",
          (kv r "tolpiv").bind parseFloat?, (kv r "toldiff").bind parseFloat? with
    | some n, some Mm, some q, some d, some mi, some tp, some td =>
      if wellShaped n Mm q d then
        match lcpLemkeE n (fnOfMat Mm) (fnOfList q) (fnOfList d) mi tp td with
        | none => "ERR:ZeroDivisionError"
        | some res => showResult showFloatBits n res
      else "bad-op"
    | _, _, _, _, _, _, _ => "bad-op"
  | "lemkefi" :: r =>
    -- IEEE doubles, signed `max_iter` (zero / negative limits)
    match kvNat r "n", kvFloatMat r "M", kvFloats r "q", kvFloats r "d", kvInt r "maxiter",
          (kv r "tolpiv").bind parseFloat?, (kv r "toldiff").bind parseFloat? with
    | some n, some Mm, some q, some d, some mi, some tp, some td =>
      if wellShaped n Mm q d then
        if divByZero n (fnOfList q) (fnOfList d) then "ERR:ZeroDivisionError"
        else showResult showFloatBits n (lcpLemkeI n (fnOfMat Mm) (fnOfList q) (fnOfList d) mi tp td)
      else "bad-op"
    | _, _, _, _, _, _, _ => "bad-op"
  | "lemkefb" :: r =>
    -- IEEE doubles with caller-supplied buffers (prior content on the wire)
    match kvNat r "n", kvFloatMat r "M", kvFloats r "q", kvFloats r "d", kvNat r "maxiter",
          (kv r "tolpiv").bind parseFloat?, (kv r "toldiff").bind parseFloat?,
          kvFloatMat r "tbuf", kvInts r "bbuf", kvFloats r "zbuf" with
    | some n, some Mm, some q, some d, some mi, some tp, some td, some tb, some bb, some zb =>
      if wellShaped n Mm q d && zb.length == n && bb.length == n && tb.length == n &&
          tb.all (fun row => row.length == 2 * n + 2) then
        if divByZero n (fnOfList q) (fnOfList d) then "ERR:ZeroDivisionError"
        else showResult showFloatBits n
          (lcpLemkeBuf n (fnOfMat Mm) (fnOfList q) (fnOfList d) mi tp td (M.ofRows tb)
            (fun i => (bb.getD i 0).toNat) (fnOfList zb))
      else "bad-op"
    | _, _, _, _, _, _, _, _, _, _ => "bad-op"
  | "lemkebuggy" :: r =>
    -- pre-repair run (documentation only; not compared with the code)
    match kvNat r "n", kvRatMat r "M", kvRats r "q", kvRats r "d", kvNat r "maxiter" with
    | some n, some Mm, some q, some d, some mi =>
      if wellShaped n Mm q d then
        let o := lemkeRunBuggy n (fnOfMat Mm) (fnOfList q) (fnOfList d) mi (0 : Rat) 0
        "status=" ++ toString o.status ++ " z=" ++
          showList showRat ((List.range n).map (getSolution n o.T o.basis))
      else "bad-op"
    | _, _, _, _, _ => "bad-op"
  | "firstrow" :: r =>
    match kvNat r "n", kvRats r "q", kvRats r "d", kvRat r "toldiff" with
    | some n, some q, some d, some td =>
      if q.length == n && d.length == n && n ≥ 1 then
        toString (firstPivotRow n (fnOfList q) (fnOfList d) td)
      else "bad-op"
    | _, _, _, _ => "bad-op"
  | "firstrowf" :: r =>
    match kvNat r "n", kvFloats r "q", kvFloats r "d", (kv r "toldiff").bind parseFloat? with
    | some n, some q, some d, some td =>
      if q.length == n && d.length == n && n ≥ 1 then
        toString (firstPivotRow n (fnOfList q) (fnOfList d) td)
      else "bad-op"
    | _, _, _, _ => "bad-op"
  | _ => "bad-op"

end QE.C11
