/-
  QEModel.C11 — executable model for property C11 (stub; to be filled in).
-/
import QEModel.Base
namespace QE.C11

def handle (_toks : List String) : String := "bad-op"

end QE.C11
