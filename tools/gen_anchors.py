#!/venv/bin/python
"""Rewrites anchors.json (AST fingerprints of the anchored files) from /repo's current tree.
Run only on a tree on which every check has just passed."""
import importlib, json, os, sys
V = os.path.dirname(os.path.dirname(os.path.abspath(__file__)))
sys.path.insert(0, V)
from harness.common import anchor_hashes
out = {}
for l in open(os.path.join(V, "properties.jsonl")):
    p = json.loads(l)
    files = list(p["anchors"]["files"])
    try:
        sys.path.insert(0, "/repo")
        mod = importlib.import_module("harness.%s" % p["id"].lower())
        for f in getattr(mod, "FILES", []):
            if f not in files:
                files.append(f)
    except Exception as e:
        pass
    out[p["id"]] = anchor_hashes(files)
json.dump(out, open(os.path.join(V, "anchors.json"), "w"), indent=1, sort_keys=True)
print("anchors for", len(out), "properties")
