#!/usr/bin/env python3
"""Run our checks against the seeded breaking changes kept under /verif/seeded/<name>/.

    tools/seeded_run.py [name ...] [--tier quick|thorough] [--in-repo] [--demo]

Default mode: for every seeded change, make a scratch git worktree of /repo under /tmp,
apply patch.diff there, run `./check <property>` with VERIF_REPO pointing at the worktree
(evidence and replays redirected to a scratch directory so the real evidence is untouched),
record exit code and VIOLATION lines in seeded/<name>/result.json, remove the worktree.
--in-repo applies the patch to /repo itself (git apply / git checkout -- .), the way the
task statement describes; use only when nothing else is using /repo.
--demo also runs the demonstration script on the clean and on the patched tree.
"""
import argparse
import json
import os
import shutil
import subprocess
import sys
import time

V = os.path.dirname(os.path.dirname(os.path.abspath(__file__)))
SEEDED = os.path.join(V, "seeded")


def sh(cmd, cwd=None, env=None, timeout=3600):
    p = subprocess.run(cmd, cwd=cwd, env=env, stdout=subprocess.PIPE, stderr=subprocess.STDOUT, text=True,
                       timeout=timeout, shell=isinstance(cmd, str))
    return p.returncode, p.stdout


def run_one(name, tier, in_repo, demo, seed):
    d = os.path.join(SEEDED, name)
    meta = json.load(open(os.path.join(d, "meta.json")))
    pid = meta["property"]
    patch = os.path.join(d, "patch.diff")
    res = {"name": name, "property": pid, "tier": tier, "seed": seed, "mode": "in-repo" if in_repo else "worktree"}
    scratch = "/tmp/seedrun-%s-%d" % (name, os.getpid())
    os.makedirs(scratch, exist_ok=True)
    wt = "/repo" if in_repo else os.path.join(scratch, "wt")
    try:
        if not in_repo:
            rc, out = sh(["git", "-C", "/repo", "worktree", "add", "--detach", wt, "HEAD"])
            if rc != 0:
                res["error"] = "worktree add failed: " + out[-300:]
                return res
        if demo:
            demos = [f for f in os.listdir(d) if f.startswith("demo") and f.endswith(".py")]
            if demos:
                rc, out = sh(["/venv/bin/python", os.path.join(d, demos[0])], cwd=wt,
                             env={**os.environ, "PYTHONPATH": wt, "NUMBA_CACHE_DIR": os.path.join(scratch, "nb")})
                res["demo_clean_exit"] = rc
        rc, out = sh(["git", "-C", wt, "apply", patch])
        if rc != 0:
            res["error"] = "patch does not apply: " + out[-300:]
            return res
        if demo and demos:
            rc, out = sh(["/venv/bin/python", os.path.join(d, demos[0])], cwd=wt,
                         env={**os.environ, "PYTHONPATH": wt, "NUMBA_CACHE_DIR": os.path.join(scratch, "nb")})
            res["demo_patched_exit"] = rc
            res["demo_patched_tail"] = out[-400:]
        env = {**os.environ, "VERIF_REPO": wt, "VERIF_SEED": str(seed),
               "VERIF_EVIDENCE_DIR": os.path.join(scratch, "evidence"),
               "VERIF_REPLAY_DIR": os.path.join(d, "replays"),
               "NUMBA_CACHE_DIR": os.path.join(scratch, "nbcheck")}
        t0 = time.time()
        rc, out = sh([os.path.join(V, "check"), pid, "--tier", tier], cwd=V, env=env, timeout=3000)
        res["check_exit"] = rc
        res["wall_s"] = round(time.time() - t0, 1)
        res["violation_lines"] = [l for l in out.splitlines() if l.startswith("VIOLATION")]
        res["tail"] = out.splitlines()[-3:]
        res["detected"] = rc == 1 and bool(res["violation_lines"])
        res["with_failing_input"] = any("no-failing-input-found" not in l for l in res["violation_lines"])
    finally:
        if in_repo:
            sh(["git", "-C", "/repo", "checkout", "--", "."])
        else:
            sh(["git", "-C", "/repo", "worktree", "remove", "--force", wt])
        shutil.rmtree(scratch, ignore_errors=True)
    return res


def main():
    ap = argparse.ArgumentParser()
    ap.add_argument("names", nargs="*")
    ap.add_argument("--tier", default="quick")
    ap.add_argument("--in-repo", action="store_true")
    ap.add_argument("--demo", action="store_true")
    ap.add_argument("--seed", type=int, default=0)
    a = ap.parse_args()
    names = a.names or sorted(n for n in os.listdir(SEEDED) if os.path.exists(os.path.join(SEEDED, n, "patch.diff")))
    rows = []
    for n in names:
        r = run_one(n, a.tier, a.in_repo, a.demo, a.seed)
        rows.append(r)
        key = "result_%s.json" % a.tier
        json.dump(r, open(os.path.join(SEEDED, n, key), "w"), indent=1)
        print("%-28s %s exit=%s detected=%s failing_input=%s %s" % (
            n, r["property"], r.get("check_exit"), r.get("detected"), r.get("with_failing_input"),
            r.get("error", "")))
    return 0


if __name__ == "__main__":
    sys.exit(main())
