#!/usr/bin/env python3
"""seeded_import.py Cnn [suffix] — copy a mutation agent's deliverables from /tmp/mut/Cnn<suffix>-work into /verif/seeded/<Cnn>-<A|B>[suffix]/
and verify them independently in a scratch worktree of /repo's HEAD: patch applies, demo passes on clean / fails on patched,
whole test suite with the patch == baseline (533 passed, only test_notebooks failing). Writes meta.json."""
import json, os, re, shutil, subprocess, sys
V = os.path.dirname(os.path.dirname(os.path.abspath(__file__)))
pid = sys.argv[1]; suf = sys.argv[2] if len(sys.argv) > 2 else ""
work = "/tmp/mut/%s%s-work" % (pid, suf)
notes = json.load(open(os.path.join(work, "notes.json")))
def sh(cmd, cwd=None, env=None):
    p = subprocess.run(cmd, cwd=cwd, env=env, stdout=subprocess.PIPE, stderr=subprocess.STDOUT, text=True)
    return p.returncode, p.stdout
for k in ("A", "B"):
    if not os.path.exists(os.path.join(work, "%s.diff" % k)):
        continue
    name = "%s-%s%s" % (pid, k, suf)
    d = os.path.join(V, "seeded", name)
    os.makedirs(d, exist_ok=True)
    shutil.copy(os.path.join(work, "%s.diff" % k), os.path.join(d, "patch.diff"))
    shutil.copy(os.path.join(work, "demo_%s.py" % k), os.path.join(d, "demo.py"))
    wt = "/tmp/seedverify-%s" % name
    sh(["git", "-C", "/repo", "worktree", "remove", "--force", wt])
    rc, out = sh(["git", "-C", "/repo", "worktree", "add", "--detach", wt, "HEAD"])
    env = {**os.environ, "PYTHONPATH": wt, "NUMBA_CACHE_DIR": wt + "-nb", "PYTHONDONTWRITEBYTECODE": "1"}
    meta = {"property": pid, "name": name, "summary": notes.get(k, {}).get("summary"), "needs": notes.get(k, {}).get("needs"),
            "agent_tests_run": notes.get(k, {}).get("tests_run")}
    try:
        rc0, o0 = sh(["/venv/bin/python", os.path.join(d, "demo.py")], cwd=wt, env=env)
        rca, oa = sh(["git", "-C", wt, "apply", os.path.join(d, "patch.diff")])
        if rca != 0:
            rca, oa = sh(["git", "-C", wt, "apply", "--3way", os.path.join(d, "patch.diff")])
            if rca == 0:   # regenerate the patch against the current HEAD
                _, diff = sh(["git", "-C", wt, "diff", "HEAD"])
                open(os.path.join(d, "patch.diff"), "w").write(diff)
        meta["patch_applies"] = rca == 0
        # fresh Numba cache for the patched tree: Numba keys cached kernels by the defining file only, so an edit in
        # a callee's file would otherwise keep running the clean tree's machine code
        env = {**env, "NUMBA_CACHE_DIR": wt + "-nb2"}
        rc1, o1 = sh(["/venv/bin/python", os.path.join(d, "demo.py")], cwd=wt, env=env)
        meta["demo_clean_exit"], meta["demo_patched_exit"] = rc0, rc1
        meta["demo_patched_tail"] = o1[-300:]
        rct, ot = sh(["/venv/bin/python", "-m", "pytest", "-q", "-p", "no:cacheprovider", "--timeout=900", "-x", "--deselect",
                      "quantecon/util/tests/test_notebooks.py"], cwd=wt, env=env)
        tail = [l for l in ot.splitlines() if re.search(r"\d+ passed", l)]
        meta["suite_with_patch"] = tail[-1] if tail else ot[-300:]
        meta["suite_ok"] = bool(tail) and "failed" not in tail[-1] and "error" not in tail[-1]
        meta["what_i_ran"] = ["git worktree of /repo HEAD; demo.py on clean (exit %d) and patched (exit %d); "
                              "pytest whole suite minus network-only test_notebooks.py with the patch" % (rc0, rc1)]
        meta["confirmed"] = bool(meta["patch_applies"] and rc0 == 0 and rc1 != 0 and meta["suite_ok"])
    finally:
        sh(["git", "-C", "/repo", "worktree", "remove", "--force", wt]); shutil.rmtree(wt + "-nb", ignore_errors=True); shutil.rmtree(wt + "-nb2", ignore_errors=True)
    json.dump(meta, open(os.path.join(d, "meta.json"), "w"), indent=1)
    print(name, "confirmed" if meta.get("confirmed") else "NOT CONFIRMED", meta.get("suite_with_patch"), meta["demo_clean_exit"], meta["demo_patched_exit"])
