#!/usr/bin/env python3
"""Regenerates MANIFEST.json from tools/claims.json (one entry per property)."""
import json, os
V = os.path.dirname(os.path.dirname(os.path.abspath(__file__)))
claims = json.load(open(os.path.join(V, "tools", "claims.json")))
props = [json.loads(l) for l in open(os.path.join(V, "properties.jsonl"))]
checks, na = [], []
for p in props:
    pid = p["id"]
    c = claims.get(pid)
    if not c or not c.get("claimed"):
        na.append({"property_id": pid, "reason": (c or {}).get("reason", "check not built yet in this round; see DESIGN.md section 6 for the planned model and theorems")})
        continue
    checks.append({
        "property_id": pid,
        "quick_cmd": "./check %s --tier quick" % pid,
        "thorough_cmd": "./check %s --tier thorough" % pid,
        "evidence_file": "evidence/%s.json" % pid,
        "replay_cmd_template": "./check %s --replay {path}" % pid,
        "engine": "lean4-model-proof+correspondence",
        "level_claimed": {"category": "proof", "text": c["text"], "design_ref": c.get("design_ref", "DESIGN.md section 6, %s" % pid)},
        "level_note": c["note"],
        "technique": c.get("technique", "Lean 4 theorems about a hand-written executable model (lean/QEModel/%s.lean), tied to /repo on every run by differential correspondence through the qedriver line protocol; failing-input search = exact spec evaluation on the code's outputs" % pid),
    })
m = {
    "version": 1,
    "setup_cmd": "cd lean && lake build",
    "hooks": {"guard": "QUANTECON_PY_VERIF", "enable": "no source hooks are needed: ./check sets QUANTECON_PY_VERIF=1 (reserved), observes the public API, injects random streams through RandomState/Generator subclasses and uses NUMBA_BOUNDSCHECK=1 in child processes", "baseline_off_cmd": "cd /repo && /venv/bin/python -m pytest -ra -q -p no:cacheprovider --timeout=900 --continue-on-collection-errors", "source_commits": [], "add_only": True},
    "engines": [{"name": "lean4-model-proof+correspondence", "path": "lean/ (models QEModel/*, theorems QEProofs/Properties/*, drivers Drivers/Cnn.lean), harness/ (correspondence + spec run), check", "serves_properties": [c["property_id"] for c in checks], "kind_free_text": "machine-checked proof in Lean 4 about hand-written executable models; model tied to the code by a differential correspondence check on every run"}],
    "checks": checks,
    "notes": "fix: commits in /repo and known findings are listed in known_findings.txt; DESIGN.md explains the verdict logic. Exit 2 = tool failure (never a verdict).",
    "not_applicable": na,
}
json.dump(m, open(os.path.join(V, "MANIFEST.json"), "w"), indent=1)
print("claimed", [c["property_id"] for c in checks], "unclaimed", len(na))
