#!/bin/bash
# tools/sweep.sh <first-seed> <last-seed> [tier] [ids...] — harness-only runs (no Lean) over many seeds, in parallel;
# evidence/replays go to a scratch directory; prints every run that is not OK.
cd "$(dirname "$0")/.." || exit 2
a=$1; b=$2; tier=${3:-quick}; shift 3
ids=${@:-$(python3 -c "import json;print(' '.join(c['property_id'] for c in json.load(open('MANIFEST.json'))['checks']))")}
out=/tmp/sweep-$$; mkdir -p $out
export VERIF_EVIDENCE_DIR=$out/ev VERIF_REPLAY_DIR=$out/rp
for s in $(seq $a $b); do for id in $ids; do echo "$id $s"; done; done | \
  xargs -P 10 -L 1 bash -c 'r=$(VERIF_SEED=$1 timeout 1800 ./check $0 --tier '$tier' --no-lean 2>&1 | tail -1); case "$r" in OK*) ;; *) echo "$0 seed=$1 :: $r";; esac'
echo "sweep done: seeds $a..$b tier=$tier ids: $ids ; replays (if any) in $out/rp"
