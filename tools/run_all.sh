#!/bin/bash
# tools/run_all.sh [tier] [seed ...]  — run every claimed check, one line each
cd "$(dirname "$0")/.." || exit 2
tier=${1:-quick}; shift
seeds=${@:-0}
ids=$(python3 -c "import json;print(' '.join(c['property_id'] for c in json.load(open('MANIFEST.json'))['checks']))")
for s in $seeds; do for id in $ids; do
  t0=$(date +%s)
  out=$(VERIF_SEED=$s timeout 3000 ./check $id --tier $tier 2>&1); rc=$?
  echo "$id seed=$s rc=$rc $(($(date +%s)-t0))s :: $(echo "$out" | grep -E '^(VIOLATION|KNOWN-FINDING)' | head -3 | tr '\n' ' ') $(echo "$out" | tail -1)"
done; done
