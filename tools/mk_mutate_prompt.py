#!/usr/bin/env python3
"""mk_mutate_prompt.py Cnn -> writes /tmp/mut/prompt_Cnn.txt (contains only the property's text; nothing from /verif)"""
import json, sys, os
V = os.path.dirname(os.path.dirname(os.path.abspath(__file__)))
pid = sys.argv[1]
suffix = sys.argv[2] if len(sys.argv) > 2 else ""
t = open(os.path.join(V, "tools/prompts/mutate.txt")).read()
for l in open(os.path.join(V, "properties.jsonl")):
    p = json.loads(l)
    if p["id"] == pid:
        break
wt = "/tmp/mut/%s%s" % (pid, suffix)
t = (t.replace("{WT}", wt).replace("{PID}", pid + suffix).replace("{TITLE}", p["title"]).replace("{STATEMENT}", p["statement"])
     .replace("{QUANT}", p["quantifier"]["text"]).replace("{FILES}", ", ".join(p["anchors"]["files"])))
extra = open("/tmp/mut/baseline_note.txt").read() if os.path.exists("/tmp/mut/baseline_note.txt") else ""
open("/tmp/mut/prompt_%s%s.txt" % (pid, suffix), "w").write(t + "\n" + extra)
print(wt)
