#!/usr/bin/env python3
"""Rewrite the summary table and the totals sentence of DESIGN.md §6 from evidence/Cnn.json (last run) and `wc -l`.

The last column ("what the partial theorems leave out") is kept from the existing row unless the property has no
partial theorem any more (then "—")."""
import glob
import json
import os
import re
import subprocess

V = os.path.dirname(os.path.dirname(os.path.abspath(__file__)))


def wc(pattern):
    n = 0
    for f in glob.glob(os.path.join(V, pattern), recursive=True):
        n += sum(1 for _ in open(f, errors="replace"))
    return n


def fmt(n):
    return "{:,}".format(n).replace(",", " ")


def main():
    p = os.path.join(V, "DESIGN.md")
    s = open(p).read()
    tot = part = 0
    for i in range(1, 21):
        pid = "C%02d" % i
        e = json.load(open(os.path.join(V, "evidence", pid + ".json")))
        c = e["coverage"]
        nth, npart = len(c["theorems"]), len(c.get("partial_theorems", []))
        tot += nth
        part += npart
        m = re.search(r"^\| %s \| [^|]*\| [^|]*\| [^|]*\| (.*) \|$" % pid, s, re.M)
        last = m.group(1) if m else "—"
        if npart == 0:
            last = "—"
        row = "| %s | %d (%d) | %s | %d s | %s |" % (pid, nth, npart, fmt(c["evaluations"]), round(e["wall_s"]), last)
        s = s[:m.start()] + row + s[m.end():] if m else s
    models = wc("lean/QEModel/*.lean") + wc("lean/Drivers/*.lean")
    proofs = wc("lean/QEProofs/**/*.lean")
    harness = wc("harness/*.py")
    s = re.sub(r"Totals: [^;]*;\s*[^.]*\.",
               "Totals: %.1f k lines of models\n(`lean/QEModel`, `lean/Drivers`), %d k lines of proofs (`lean/QEProofs`), %d k lines of\n"
               "harness; %d audited theorems of which %d are named `…_partial`." % (
                   models / 1000.0, round(proofs / 1000.0), round(harness / 1000.0), tot, part), s, count=1)
    open(p, "w").write(s)
    print("theorems", tot, "partial", part, "models", models, "proofs", proofs, "harness", harness)


if __name__ == "__main__":
    main()
