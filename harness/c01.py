"""C01 — DiscreteDP.solve returns an optimal / eps-optimal policy and value:
correspondence + spec run.

Three layers are exercised on every generated instance (each in product form, as
state-action pairs in random order, and with a sparse transition matrix):

* correspondence: `solve(method=vi|pi|mpi)` against the `Rat` run of the Lean model
  (`sigma`, `num_iter` exactly, `v` bit-exactly on the runs where every double operation
  is exact, inside 1e-9*(1+|v|) otherwise), `solve(method=lp)` against the model run on
  doubles in the operation order of the Numba kernels (`sigma`, `num_iter` exactly, bits of
  `v` counted), `bellman_operator`/`compute_greedy` on integer vectors (bit-exact, ties
  included; product form also against the literal `-inf` scan), `evaluate_policy` (envelope);
* spec run (independent of the model): exact optimal value by brute-force enumeration
  of all policies (small instances) and exact policy iteration in Fractions, certified by
  the optimality equation `T v* = v*`; the code's `(v, sigma)` is tested for feasibility,
  `|v - v*|` (solver precision for pi/lp, `< eps/2` for vi/mpi that stop before the cap)
  and `|v_sigma - v*|` (`0` up to solver precision for pi/lp, `<= eps` for vi/mpi);
* the Lean side's own exact checker (`spec` op: exact PI in the model) is run on the code's
  outputs and must reproduce the Python oracle's distances digit for digit.

Two further streams are judged by the exact oracle only (round 3):
* argument forms: the same problem handed over with s_indices / a_indices as int8..int64,
  uint8..uint64, intp, list, tuple, strided view, each in sorted / action-major / reversed /
  shuffled pair order; R, Q as float64 / float32 / integer arrays, lists, F-ordered, non-contiguous;
  sparse Q as csr / csc / coo / lil with int32 / int64 index arrays; beta, epsilon, max_iter, k,
  v_init as NumPy scalars, 0-d arrays, ints, lists, tuples, float32 / int64 / strided arrays;
* histories on ONE DiscreteDP: several solve calls (all methods, misleading v_init, large epsilon,
  tiny max_iter) interleaved with bellman_operator / compute_greedy / evaluate_policy /
  controlled_mc; every returned array is kept, must stay bitwise what it was when returned, is
  re-judged after every later call, must not share memory with another kept array, an input or
  the object's arrays; the inputs and the object's R, Q, index arrays must stay unchanged.

A discrete output can legitimately differ between doubles and exact arithmetic when a
comparison of the code is decided by rounding (an exact tie, or a gap below the noise).  The
model reports the smallest gap met along the run (`margin`) and the binary size of the iterates
(`bits`, `dyadic`); see `make_cmp` for the three regimes (exact / robust / fragile).
"""
import itertools
import json
import math
import os
import sys
import warnings
from fractions import Fraction

import numpy as np
import scipy.sparse as sp

from .common import Case, fx, fxs, ints, rat, rats, ratm, parse_rats, parse_ints

FILES = ["quantecon/markov/ddp.py", "quantecon/markov/utilities.py",
         "quantecon/markov/_ddp_linprog_simplex.py", "quantecon/optimize/linprog_simplex.py",
         "quantecon/optimize/pivoting.py"]

F = Fraction
if hasattr(sys, "set_int_max_str_digits"):
    sys.set_int_max_str_digits(0)

# ----------------------------------------------------------------------------
# exact oracle (Fractions; independent of the Lean model)


def solve_exact(A, b):
    """Gauss-Jordan in Fractions; A non-singular"""
    n = len(A)
    M = [list(A[i]) + [b[i]] for i in range(n)]
    for c in range(n):
        p = next(i for i in range(c, n) if M[i][c] != 0)
        M[c], M[p] = M[p], M[c]
        pv = M[c][c]
        M[c] = [x / pv for x in M[c]]
        for i in range(n):
            if i != c and M[i][c] != 0:
                f = M[i][c]
                M[i] = [x - f * y for x, y in zip(M[i], M[c])]
    return [M[i][n] for i in range(n)]


class Inst:
    """n states, m actions; R[s][a] is an int/Fraction or None (-inf); Q[s][a] a list of
    n Fractions (a probability vector, also for infeasible pairs); beta a double"""

    def __init__(self, n, m, R, Q, beta, tags=()):
        self.n, self.m, self.R, self.Q, self.beta = n, m, R, Q, beta
        self.b = F(beta)
        self.tags = tuple(tags)
        self.feas = [[a for a in range(m) if R[s][a] is not None] for s in range(n)]

    def qv(self, s, a, v):
        return F(self.R[s][a]) + self.b * sum(q * x for q, x in zip(self.Q[s][a], v))

    def T(self, v):
        return [max(self.qv(s, a, v) for a in self.feas[s]) for s in range(self.n)]

    def eval(self, sigma):
        n = self.n
        A = [[(1 if i == j else 0) - self.b * self.Q[i][sigma[i]][j] for j in range(n)] for i in range(n)]
        return solve_exact(A, [F(self.R[i][sigma[i]]) for i in range(n)])

    def greedy_first(self, v):
        out = []
        for s in range(self.n):
            best = None
            for a in self.feas[s]:
                x = self.qv(s, a, v)
                if best is None or x > best[0]:
                    best = (x, a)
            out.append(best[1])
        return out

    def vstar(self):
        """exact optimum: policy iteration, certified by T v = v; brute force when small"""
        sigma = [f[0] for f in self.feas]
        for _ in range(10000):
            v = self.eval(sigma)
            new = self.greedy_first(v)
            # keep the old action when it is still maximal (guarantees termination)
            new = [sigma[s] if self.qv(s, sigma[s], v) == self.qv(s, new[s], v) else new[s] for s in range(self.n)]
            if new == sigma:
                break
            sigma = new
        if self.T(v) != v:
            raise RuntimeError("oracle: PI did not reach a fixed point of T")
        npol = 1
        for f in self.feas:
            npol *= len(f)
        brute = False
        if npol <= 100:
            brute = True
            best = None
            for pol in itertools.product(*self.feas):
                vp = self.eval(list(pol))
                best = vp if best is None else [max(x, y) for x, y in zip(best, vp)]
            if best != v:
                raise RuntimeError("oracle: brute-force optimum differs from the certified fixed point")
        return v, brute


def dist(v, w):
    return max(abs(F(a) - F(b)) for a, b in zip(v, w))


# ----------------------------------------------------------------------------
# generators


def prob_row(rng, n, den, support=None):
    """random probability vector with entries k/den"""
    k = [0] * n
    idx = list(range(n)) if support is None else support
    for _ in range(den):
        k[rng.choice(idx)] += 1
    return [F(x, den) for x in k]


def unit(n, j):
    return [F(1) if i == j else F(0) for i in range(n)]


def gen_instance(rng, nmax, mmax, exact_bias):
    n = rng.randint(1, nmax)
    m = rng.randint(1, mmax)
    tags = []
    if exact_bias:
        beta = rng.choice([0.0, 0.5, 0.5, 0.75, 0.25])
        den = rng.choice([1, 2, 4, 8])
    else:
        beta = rng.choice([0.0, 0.5, 0.75, 0.9, 0.95, 0.3, 0.99])
        den = rng.choice([1, 2, 8, 8, 16])
    rmaxv = rng.choice([1, 2, 4, 9])
    R = [[rng.randint(-rmaxv, rmaxv) for _ in range(m)] for _ in range(n)]
    Q = [[prob_row(rng, n, den) for _ in range(m)] for _ in range(n)]
    # infeasible actions (never a whole state)
    if rng.random() < 0.7:
        for s in range(n):
            for a in range(m):
                if rng.random() < 0.2:
                    R[s][a] = None
            if all(x is None for x in R[s]):
                R[s][rng.randrange(m)] = rng.randint(-rmaxv, rmaxv)
        if any(x is None for row in R for x in row):
            tags.append("ninf")
    style = rng.randrange(8)
    if style == 0 and n >= 2:
        # absorbing state: every action of state s0 stays there
        s0 = rng.randrange(n)
        for a in range(m):
            Q[s0][a] = unit(n, s0)
        tags.append("absorbing")
    elif style == 1 and n >= 2:
        # periodic controlled chain: action a0 moves s -> s+1 mod n deterministically
        a0 = rng.randrange(m)
        for s in range(n):
            Q[s][a0] = unit(n, (s + 1) % n)
            if R[s][a0] is None:
                R[s][a0] = rng.randint(-rmaxv, rmaxv)
        tags.append("periodic")
    elif style == 2 and m >= 2:
        # duplicated action: exact tie in every value comparison of that state
        s0 = rng.randrange(n)
        a0, a1 = rng.sample(range(m), 2)
        if R[s0][a0] is None:
            R[s0][a0] = rng.randint(-rmaxv, rmaxv)
        R[s0][a1] = R[s0][a0]
        Q[s0][a1] = list(Q[s0][a0])
        tags.append("duplicate")
    elif style == 3:
        # all rewards equal: every policy optimal
        c = rng.randint(-2, 2)
        R = [[(c if x is not None else None) for x in row] for row in R]
        tags.append("flat")
    elif style == 4 and n >= 3:
        # two closed classes under some actions
        h = n // 2
        for s in range(n):
            for a in range(m):
                if rng.random() < 0.7:
                    sup = list(range(h)) if s < h else list(range(h, n))
                    Q[s][a] = prob_row(rng, n, den, sup)
        tags.append("blocks")
    elif style == 5:
        # all transitions deterministic
        for s in range(n):
            for a in range(m):
                Q[s][a] = unit(n, rng.randrange(n))
        tags.append("deterministic")
    elif style == 7 and n >= 2:
        # twin states: state s+h is a relabelled copy of state s (s < h = n//2), so that the LP's criterion
        # row, the value differences and the greedy comparisons contain exact ties across states
        h = n // 2
        perm = [(j + h if j < h else (j - h if j < 2 * h else j)) for j in range(n)]
        for s0 in range(h):
            R[s0 + h] = list(R[s0])
            for a in range(m):
                row = Q[s0][a]
                new = [F(0)] * n
                for j in range(n):
                    new[perm[j]] = row[j]
                Q[s0 + h][a] = new
        tags.append("twins")
    elif style == 6 and not exact_bias:
        # generic double data: rewards with two decimals, transition rows = normalised random doubles
        # (row sums are 1 only up to rounding; the oracle and the model work with the exact doubles)
        for s in range(n):
            for a in range(m):
                if R[s][a] is not None:
                    R[s][a] = F(float(round(rng.uniform(-3, 3), 2)))
                w = [rng.random() if rng.random() < 0.8 else 0.0 for _ in range(n)]
                if sum(w) == 0.0:
                    w[rng.randrange(n)] = 1.0
                tot = sum(w)
                Q[s][a] = [F(float(x / tot)) for x in w]
        tags.append("float-data")
    if beta == 0.0:
        tags.append("beta0")
    return Inst(n, m, R, Q, beta, tags)


def small_scope():
    """every DDP with n = 2 states, m = 2 actions, rewards in {0, 1} (action 1 of state 1 also -inf),
    transition rows in {(1,0), (0,1), (1/2,1/2)}: 2*2*2*3 * 3^4 = 1944 instances"""
    rows = [[F(1), F(0)], [F(0), F(1)], [F(1, 2), F(1, 2)]]
    for r00, r01, r10 in itertools.product([0, 1], repeat=3):
        for r11 in (0, 1, None):
            for q in itertools.product(rows, repeat=4):
                yield Inst(2, 2, [[r00, r01], [r10, r11]], [[q[0], q[1]], [q[2], q[3]]], 0.5, tags=["small-scope"])


def np_forms(inst, rng):
    """the three formulations of one instance: [(form, kwargs for the wire, DiscreteDP factory)]"""
    n, m = inst.n, inst.m
    Rn = np.array([[(-np.inf if x is None else float(x)) for x in row] for row in inst.R], dtype=float).reshape(n, m)
    Qn = np.array([[[float(q) for q in inst.Q[s][a]] for a in range(m)] for s in range(n)], dtype=float).reshape(n, m, n)
    pairs = [(s, a) for s in range(n) for a in inst.feas[s]]
    out = []
    Rw = ";".join(",".join("ninf" if x is None else rat(x) for x in row) for row in inst.R)
    Qw = ratm([inst.Q[s][a] for s in range(n) for a in range(m)])
    out.append(("prod", "form=prod n=%d m=%d R=%s Q=%s" % (n, m, Rw, Qw), ("prod", Rn, Qn, None, None)))
    for form in ("sa", "sp"):
        ps = list(pairs)
        order = rng.randrange(4)
        if order == 1:
            ps.reverse()
        elif order >= 2:
            rng.shuffle(ps)
        s_idx = [p[0] for p in ps]
        a_idx = [p[1] for p in ps]
        Rl = np.array([float(inst.R[s][a]) for s, a in ps])
        Ql = np.array([[float(q) for q in inst.Q[s][a]] for s, a in ps], dtype=float).reshape(len(ps), n)
        wire = "form=sa n=%d s=%s a=%s R=%s Q=%s" % (
            n, ints(s_idx), ints(a_idx), rats([inst.R[s][a] for s, a in ps]), ratm([inst.Q[s][a] for s, a in ps]))
        out.append((form, wire, (form, Rl, Ql, np.array(s_idx), np.array(a_idx))))
    return out


def build(spec, beta):
    from quantecon.markov import DiscreteDP
    form, R, Q, s_idx, a_idx = spec
    if form == "prod":
        return DiscreteDP(R.copy(), Q.copy(), beta)
    if form == "sp":
        return DiscreteDP(R.copy(), sp.csr_matrix(Q), beta, s_idx.copy(), a_idx.copy())
    return DiscreteDP(R.copy(), Q.copy(), beta, s_idx.copy(), a_idx.copy())


def err_str(e):
    return "ERR:" + type(e).__name__


# ----------------------------------------------------------------------------
# comparison of one solve() result with the model's answer


def parse_kv(s):
    d = {}
    for t in s.split(" "):
        if "=" in t:
            k, v = t.split("=", 1)
            d[k] = v
    return d


def make_cmp(ctx, method, scale):
    """regimes:
       exact   — the model's iterates are dyadic and small (`bits <= 40`), the method uses no
                 linear solve: every double operation of the code is exact, so sigma, num_iter
                 and v (bit for bit) must coincide, ties included;
       robust  — the smallest gap met along the model's run is > 1e-7*(1+scale): sigma and
                 num_iter must coincide, v inside 1e-9*(1+|v|);
       fragile — a comparison was (almost) tied: the discrete outputs are only counted; when
                 they happen to agree v is still compared inside the envelope (vi, pi only: for
                 mpi an intermediate tie changes v through the partial evaluation)."""
    def cmp(mo, impl):
        if mo.startswith("ERR") or impl.startswith("ERR"):
            return None if mo == impl else "error kinds differ"
        a, b = parse_kv(mo), parse_kv(impl)
        vm = parse_rats(a["v"])
        vc = parse_rats(b["v"])
        margin = None if a["margin"] == "none" else F(a["margin"])
        exact = (method in ("vi", "mpi") and a["dyadic"] == "1" and int(a["bits"]) <= 40)
        robust = margin is None or margin > F(1, 10 ** 7) * (1 + scale)
        same = (a["sigma"] == b["sigma"] and a["iters"] == b["iters"])
        ctx.count("%s:stopped=%s" % (method, a["stopped"]))
        if margin == 0:
            ctx.count("%s:exact-tie-met" % method)
        if exact:
            ctx.count("%s:regime-exact" % method)
            if not same:
                return "exact regime: sigma/num_iter differ"
            if vm != vc:
                return "exact regime: v differs from the exact iterate"
            return None
        if robust:
            ctx.count("%s:regime-robust" % method)
            if not same:
                return "robust regime: sigma/num_iter differ (margin %s)" % a["margin"]
        else:
            ctx.count("%s:regime-fragile" % method)
            ctx.count("%s:fragile-%s" % (method, "agree" if same else "differ"))
            if not same or method == "mpi" or (method == "pi" and a["stopped"] == "0"):
                # (mpi: a tie at an *intermediate* improvement step changes the partial evaluation and hence v,
                #  even when the final sigma and num_iter coincide — observed, see the false-alarm log)
                return None
        if len(vm) != len(vc):
            return "length of v"
        tol = F(1, 10 ** 9) * (1 + max(abs(x) for x in vm))
        if dist(vm, vc) > tol:
            return "v outside the envelope: %.3e" % float(dist(vm, vc))
        return None
    return cmp


def make_cmp_lp(ctx):
    """linear programming: the model is run on doubles in the operation order of the Numba kernels
    (`_initialize_tableau`, `_pivoting`, `_pivot_col`, `_lex_min_ratio_test` contain no library call), so
    sigma and num_iter must coincide exactly; the bits of v are counted (trace fidelity) and v must lie inside
    1e-9*(1+|v|) of the model's double result; the exact (`Rat`) run of the same program is compared for
    information (its pivot choices can legitimately differ on ties decided by rounding)."""
    def cmp(mo, impl):
        a, b = parse_kv(mo), parse_kv(impl)
        if a["sigma"] != b["sigma"] or a["iters"] != b["iters"]:
            return "lp: sigma/num_iter differ from the double run of the model"
        ctx.count("lp:ok=%s" % a["ok"])
        if a["v"] == b["v"]:
            ctx.count("lp:trace-fidelity-bits-equal")
        else:
            ctx.count("lp:trace-fidelity-bits-differ")
            vm, vc = parse_rats(a["v"]), parse_rats(b["v"])
            if dist(vm, vc) > F(1, 10 ** 9) * (1 + max(abs(x) for x in vm)):
                return "lp: v outside the envelope of the model's double run"
        # hypothesis of theorem `lp_exit_optimal`: the n initial pivots onto the start policy are valid
        ctx.count("lp:start-validation-holds" if a.get("rstart") == "1" else "lp:start-validation-FAILS")
        if a.get("rstart") != "1":
            return "lp: the initial pivots met a zero pivot or a negative right-hand side (exact run)"
        if a["rok"] == "1":
            # hypothesis of theorem `lp_certified` on the exact run of the model
            ctx.count("lp:exact-run-certificate-holds" if a["rcert"] == "1" else "lp:exact-run-certificate-FAILS")
            if a["rcert"] != "1":
                return "lp: the exact run reports success but its (sigma, v) fail the certificate T_sigma v = v"
        if a["rsigma"] == b["sigma"] and a["riters"] == b["iters"]:
            ctx.count("lp:exact-run-agrees")
            vm, vc = parse_rats(a["rv"]), parse_rats(b["v"])
            if a["rok"] == "1" and dist(vm, vc) > F(1, 10 ** 9) * (1 + max(abs(x) for x in vm)):
                return "lp: v outside the envelope of the exact run"
        else:
            ctx.count("lp:exact-run-differs(tie decided by rounding)")
        return None
    return cmp


# ----------------------------------------------------------------------------


# ----------------------------------------------------------------------------
# round 3: argument forms of every constructor / solve input, and call histories on one object


def judge(ctx, inst, vstar, method, v, sigma, num_iter, cap, eps, replay, where):
    """exact-oracle judgement of one (v, sigma) returned by `method`; `where` prefixes the finding key"""
    tol9 = F(1, 10 ** 9)
    scale = max(abs(x) for x in vstar)
    slack = tol9 * (1 + scale)
    v = [float(x) for x in v]
    sigma = [int(x) for x in sigma]
    if len(sigma) != inst.n or any(sigma[s] not in inst.feas[s] for s in range(inst.n)):
        ctx.spec_fail("%s%s_infeasible_policy" % (where, method), "returned policy uses an infeasible action", replay)
        return False
    if len(v) != inst.n or not all(math.isfinite(x) for x in v):
        ctx.spec_fail("%s%s_nonfinite_value" % (where, method), "returned value is not finite", replay)
        return False
    if num_iter >= cap:
        return True
    dv = dist(v, vstar)
    ds = dist(inst.eval(sigma), vstar)
    ok = True
    if method in ("pi", "lp"):
        if dv > slack:
            ctx.spec_fail("%s%s_value_not_optimal" % (where, method), "|v - v*| = %.3e" % float(dv), replay)
            ok = False
        if ds > slack:
            ctx.spec_fail("%s%s_policy_not_optimal" % (where, method), "|v_sigma - v*| = %.3e" % float(ds), replay)
            ok = False
    else:
        if not dv < F(eps) / 2 + slack:
            ctx.spec_fail("%s%s_value_not_within_half_eps" % (where, method),
                          "|v - v*| = %.3e, eps/2 = %.3e" % (float(dv), float(eps) / 2), replay)
            ok = False
        if not ds <= F(eps) + slack:
            ctx.spec_fail("%s%s_policy_not_eps_optimal" % (where, method),
                          "|v_sigma - v*| = %.3e, eps = %.3e" % (float(ds), float(eps)), replay)
            ok = False
    return ok


INDEX_KINDS = ["int8", "int16", "int32", "int64", "uint8", "uint16", "uint32", "uint64", "intp",
               "list", "tuple", "strided"]
ORDERS = ["sorted", "action-major", "reversed", "shuffled"]
DENSE_KINDS = ["float64", "float32", "F-order", "non-contiguous", "list", "int-if-possible"]
SPARSE_KINDS = [("csr", "int32"), ("csr", "int64"), ("csc", "int32"), ("coo", "int64"), ("lil", "int32"),
                ("csc", "int64"), ("coo", "int32")]


def as_index(vals, kind):
    vals = [int(x) for x in vals]
    if kind == "list":
        return list(vals)
    if kind == "tuple":
        return tuple(vals)
    if kind == "strided":
        big = np.zeros(2 * len(vals) + 1, dtype=np.int64)
        big[1::2] = vals
        return big[1::2]
    return np.array(vals, dtype=getattr(np, kind))


def as_dense(arr, kind, rng):
    """arr: float64 ndarray (1-, 2- or 3-dimensional) with exactly representable entries"""
    arr = np.asarray(arr, dtype=np.float64)
    if kind == "float32":
        return arr.astype(np.float32)
    if kind == "F-order":
        return np.asfortranarray(arr)
    if kind == "non-contiguous":
        big = np.zeros(tuple(2 * d for d in arr.shape), dtype=np.float64)
        sl = tuple(slice(rng.randrange(2), None, 2) for _ in arr.shape)
        big[sl] = arr
        return big[sl]
    if kind == "list":
        return arr.tolist()
    if kind == "int-if-possible":
        if np.all(np.isfinite(arr)) and np.all(arr == np.round(arr)):
            return arr.astype(np.int64)
        return arr
    return arr.copy()


def as_sparse(Ql, fmt, idt):
    M = getattr(sp, fmt + "_matrix")(np.asarray(Ql, dtype=np.float64))
    dt = np.int32 if idt == "int32" else np.int64
    if fmt in ("csr", "csc"):
        M.indices = M.indices.astype(dt)
        M.indptr = M.indptr.astype(dt)
    elif fmt == "coo":
        M.row = M.row.astype(dt)
        M.col = M.col.astype(dt)
    return M


def scalar_form(x, kind):
    if kind == "np.float64":
        return np.float64(x)
    if kind == "np.float32":
        return np.float32(x)
    if kind == "0-d array":
        return np.array(float(x))
    return float(x)


def int_form(x, kind):
    if kind == "np.int64":
        return np.int64(x)
    if kind == "np.int32":
        return np.int32(x)
    if kind == "np.intp":
        return np.intp(x)
    return int(x)


def vinit_form(v, kind):
    if v is None:
        return None
    if kind == "list":
        return [int(x) for x in v]
    if kind == "tuple":
        return tuple(float(x) for x in v)
    if kind == "float32":
        return np.array(v, dtype=np.float32)
    if kind == "int64":
        return np.array(v, dtype=np.int64)
    if kind == "strided":
        big = np.zeros(2 * len(v), dtype=np.float64)
        big[::2] = v
        return big[::2]
    return np.array(v, dtype=np.float64)


def pair_order(inst, order, rng):
    pairs = [(s, a) for s in range(inst.n) for a in inst.feas[s]]
    if order == "action-major":
        pairs.sort(key=lambda p: (p[1], p[0]))
    elif order == "reversed":
        pairs.reverse()
    elif order == "shuffled":
        rng.shuffle(pairs)
    return pairs


FREE_IDX = ["int64", "list", "tuple", "intp"]          # all reach the jitted kernels as C-contiguous int64
FREE_DENSE_SA = ["float64", "list"]                     # C-contiguous float64
FREE_DENSE_PROD = ["float64", "list", "F-order", "non-contiguous"]   # fancy indexing normalises the layout


def quick_signature_choice(seed):
    """quick tier: which of the dtype / layout signatures that reach Numba kernels are drawn this run (every new
    signature costs a compilation on a cold cache); rotated by the seed so that all of them are met over time.
    The thorough tier (and every run after an anchored file changed) uses all of them."""
    return {"unsigned": ["uint8", "uint16", "uint32", "uint64"][seed % 4],
            "other_idx": ["int8", "int16", "int32", "strided"][(seed // 4 + seed) % 4],
            "dense": ["float32", "F-order", "non-contiguous", "int-if-possible"][(seed // 2 + seed) % 4],
            "beta": ["np.float32", "0-d array"][(seed // 3 + seed) % 2],
            "np.int32": seed % 3 == 0}


def restrict_sa(choice, c, ctr):
    """map a full-cross combination to one whose jitted signature is drawn this run; at most one of
    (index dtype, data kind, beta kind, integer kind) deviates from the baseline at a time"""
    c = dict(c)
    special_idx = (choice["unsigned"], choice["other_idx"])
    if c["ikind"] in special_idx:
        c["akind"] = c["ikind"]
        c["rk"] = FREE_DENSE_SA[ctr % 2]
        if c["qk"] is not None:
            c["qk"] = FREE_DENSE_SA[(ctr // 2) % 2]
        c["bkind"] = ["float", "np.float64"][ctr % 2]
        c["special_int"] = False
        return c
    if c["ikind"] not in FREE_IDX:
        c["ikind"] = FREE_IDX[ctr % len(FREE_IDX)]
    c["akind"] = FREE_IDX[(ctr // 3) % len(FREE_IDX)]
    slot = ctr % 4
    want_dense = (slot == 1 and c["qk"] is not None)
    c["rk"] = choice["dense"] if want_dense else FREE_DENSE_SA[ctr % 2]
    if c["qk"] is not None:
        c["qk"] = choice["dense"] if want_dense else FREE_DENSE_SA[(ctr // 2) % 2]
    c["bkind"] = choice["beta"] if slot == 2 else ["float", "np.float64"][ctr % 2]
    c["special_int"] = (slot == 3 and choice["np.int32"])
    return c



def argument_forms(ctx):
    """every legal way of handing the same problem to DiscreteDP / solve must give a correct answer"""
    from quantecon.markov import DiscreteDP
    rng = ctx.rng
    ninst = ctx.n(5, 40)
    combo = 0
    dense_ctr = [0]
    choice = quick_signature_choice(ctx.seed)
    if not ctx.thorough:
        ctx.extra["quick_jit_signatures"] = choice
    for it in range(ninst):
        inst = gen_instance(rng, 4, 3, True)
        if inst.n < 2 and it % 3:
            inst = gen_instance(rng, 4, 3, True)
        # data exactly representable in float32 too: integer rewards, rows k/den with den | 8, dyadic beta
        vstar, _ = inst.vstar()
        n, m = inst.n, inst.m
        eps = rng.choice([0.5, 0.125, 2.0 ** -6])
        v_init = None if rng.random() < 0.5 else [rng.randint(-4, 4) for _ in range(n)]
        k = rng.choice([0, 1, 5])
        for ikind0 in INDEX_KINDS:
            for order in ORDERS:
                combo += 1
                sparse = (combo % 3 == 0)
                if not sparse:
                    dense_ctr[0] += 1
                c = {"ikind": ikind0,
                     "akind": INDEX_KINDS[(combo * 5 + 3) % len(INDEX_KINDS)] if combo % 2 else ikind0,
                     "rk": DENSE_KINDS[(combo // 2) % len(DENSE_KINDS)],
                     "qk": None if sparse else DENSE_KINDS[dense_ctr[0] % len(DENSE_KINDS)],
                     "bkind": ["float", "np.float64", "np.float32", "0-d array"][combo % 4],
                     "special_int": True}
                if not ctx.thorough:
                    c = restrict_sa(choice, c, combo)
                ikind, akind, rk, bkind = c["ikind"], c["akind"], c["rk"], c["bkind"]
                pairs = pair_order(inst, order, rng)
                s_idx = as_index([p[0] for p in pairs], ikind)
                a_idx = as_index([p[1] for p in pairs], akind)
                Rl = np.array([float(inst.R[s][a]) for s, a in pairs])
                Ql = np.array([[float(q) for q in inst.Q[s][a]] for s, a in pairs]).reshape(len(pairs), n)
                if sparse:
                    fmt, idt = SPARSE_KINDS[combo % len(SPARSE_KINDS)]
                    Qarg = as_sparse(Ql, fmt, idt)
                    qdesc = "sparse:%s:%s" % (fmt, idt)
                else:
                    Qarg = as_dense(Ql, c["qk"], rng)
                    qdesc = "dense:" + c["qk"]
                Rarg = as_dense(Rl, rk, rng)
                beta_arg = scalar_form(inst.beta, bkind)
                if inst.beta == 0.0 and combo % 5 == 0 and (ctx.thorough or bkind in ("float", "np.float64")):
                    beta_arg, bkind = 0, "int"
                desc = {"stream": "forms", "formulation": "sa", "s_indices": ikind, "a_indices": akind, "order": order,
                        "Q": qdesc, "R": rk, "beta_form": bkind, "beta": inst.beta,
                        "pairs": [list(p) for p in pairs],
                        "R_prod": [[None if x is None else int(x) for x in row] for row in inst.R],
                        "Q_prod": [[[str(q) for q in inst.Q[s][a]] for a in range(m)] for s in range(n)]}
                ctx.count("forms:index=%s" % ikind)
                ctx.count("forms:order=%s" % order)
                ctx.count("forms:Q=%s" % qdesc)
                try:
                    ddp = DiscreteDP(Rarg, Qarg, beta_arg, s_idx, a_idx)
                except Exception as e:
                    ctx.spec_fail("forms_constructor_refuses_legal_input",
                                  "DiscreteDP raised %s: %s" % (type(e).__name__, str(e)[:200]), desc)
                    continue
                solve_forms(ctx, inst, vstar, ddp, desc, combo, eps, v_init, k, sparse, c["special_int"])
        # product form in the various array forms
        Rn = np.array([[(-np.inf if x is None else float(x)) for x in row] for row in inst.R]).reshape(n, m)
        Qn = np.array([[[float(q) for q in inst.Q[s][a]] for a in range(m)] for s in range(n)]).reshape(n, m, n)
        for rk in DENSE_KINDS:
            combo += 1
            qk = DENSE_KINDS[combo % len(DENSE_KINDS)]
            bkind = ["float", "np.float64", "np.float32", "0-d array"][combo % 4]
            special_int = True
            if not ctx.thorough:
                # (the LP method converts to pairs: R / Q dtypes other than float64 reach the jitted LP kernel)
                special_int = False
                bkind = ["float", "np.float64"][combo % 2]
                if rk == choice["dense"] or (rk not in FREE_DENSE_PROD and choice["dense"] in FREE_DENSE_PROD):
                    rk = qk = choice["dense"]
                else:
                    if rk not in FREE_DENSE_PROD:
                        rk = FREE_DENSE_PROD[combo % 4]
                    qk = FREE_DENSE_PROD[(combo // 2) % 4]
            desc = {"stream": "forms", "formulation": "product", "R": rk, "Q": qk, "beta_form": bkind, "beta": inst.beta,
                    "R_prod": [[None if x is None else int(x) for x in row] for row in inst.R],
                    "Q_prod": [[[str(q) for q in inst.Q[s][a]] for a in range(m)] for s in range(n)]}
            ctx.count("forms:product:R=%s" % rk)
            try:
                ddp = DiscreteDP(as_dense(Rn, rk, rng), as_dense(Qn, qk, rng), scalar_form(inst.beta, bkind))
            except Exception as e:
                ctx.spec_fail("forms_constructor_refuses_legal_input",
                              "DiscreteDP raised %s: %s" % (type(e).__name__, str(e)[:200]), desc)
                continue
            solve_forms(ctx, inst, vstar, ddp, desc, combo, eps, v_init, k, False, special_int)


def solve_forms(ctx, inst, vstar, ddp, desc, combo, eps, v_init, k, sparse, special_int=True):
    vk = ["float64", "list", "tuple", "float32", "int64", "strided"][combo % 6]
    ek = ["float", "np.float64", "np.float32"][combo % 3]
    ik = ["int", "np.int64", "np.int32", "np.intp"][combo % 4]
    if ik == "np.int32" and not special_int:
        ik = "np.intp"
    max_iter = None if combo % 3 else 400
    for method in ("vi", "pi", "mpi", "lp"):
        if method == "lp" and sparse:
            continue
        kw = {}
        vi_arg = vinit_form(v_init, vk)
        if vi_arg is not None:
            kw["v_init"] = vi_arg
        if max_iter is not None:
            kw["max_iter"] = int_form(max_iter, ik)
        if method in ("vi", "mpi"):
            kw["epsilon"] = scalar_form(eps, ek)
        if method == "mpi":
            kw["k"] = int_form(k, ik)
        rep = dict(desc, method=method, eps=eps, eps_form=ek, k=k, int_form=ik, max_iter=max_iter,
                   v_init=v_init, v_init_form=vk)
        try:
            res = ddp.solve(method=method, **kw)
        except Exception as e:
            ctx.spec_fail("forms_solve_raises_on_legal_input",
                          "solve(%s) raised %s: %s" % (method, type(e).__name__, str(e)[:200]), rep)
            continue
        cap = max_iter if max_iter is not None else (250 * inst.n if method == "lp" else 250)
        rep.update(v=[float(x) for x in res.v], sigma=[int(x) for x in res.sigma], num_iter=int(res.num_iter))
        ctx.count("forms:solved")
        judge(ctx, inst, vstar, method, res.v, res.sigma, int(res.num_iter), cap, eps, rep, "forms_")


def frozen(a):
    a = np.asarray(a)
    return (a.dtype.str, a.shape, a.tobytes())


def object_arrays(ddp):
    out = {}
    for name in ("R", "Q", "s_indices", "a_indices", "a_indptr"):
        x = getattr(ddp, name, None)
        if x is None:
            continue
        if sp.issparse(x):
            for part in ("data", "indices", "indptr"):
                out["%s.%s" % (name, part)] = getattr(x, part)
        else:
            out[name] = x
    return out


def histories(ctx):
    """several calls on ONE DiscreteDP; every array ever returned is kept, must stay bitwise what it was when
    returned, must not share memory with another kept array, an input or the object's own arrays, and is
    re-judged by the exact oracle after every later call"""
    from quantecon.markov import DiscreteDP
    rng = ctx.rng
    nhist = ctx.n(18, 150)
    for it in range(nhist):
        inst = gen_instance(rng, 4, 3, it % 2 == 0)
        if "float-data" in inst.tags:
            continue
        if not any(len(f) >= 2 for f in inst.feas):
            inst = gen_instance(rng, 4, 3, True)
        vstar, _ = inst.vstar()
        n, m = inst.n, inst.m
        formulation = ("prod", "sa", "sp")[it % 3]
        spec = [f for f in np_forms(inst, rng) if f[0] == formulation][0][2]
        form, Rin, Qin, s_in, a_in = spec
        Qarg = sp.csr_matrix(Qin) if form == "sp" else Qin
        inputs = {"R_in": Rin, "s_in": s_in, "a_in": a_in}
        if form != "sp":
            inputs["Q_in"] = Qin
        inputs = {k_: v_ for k_, v_ in inputs.items() if v_ is not None}
        in_frozen = {k_: frozen(v_) for k_, v_ in inputs.items()}     # before the constructor sees them
        if form == "prod":
            ddp = DiscreteDP(Rin, Qarg, inst.beta)
        else:
            ddp = DiscreteDP(Rin, Qarg, inst.beta, s_in, a_in)
        for name_, arr_ in inputs.items():
            if frozen(arr_) != in_frozen[name_]:
                ctx.spec_fail("history_constructor_modified_input", "DiscreteDP(...) modified the caller's %s" % name_,
                              {"stream": "history", "formulation": form, "beta": inst.beta,
                               "pairs": None if s_in is None else [[int(a), int(b)] for a, b in zip(s_in, a_in)],
                               "R_prod": [[None if x is None else int(x) for x in row] for row in inst.R],
                               "Q_prod": [[[str(q) for q in inst.Q[s][a]] for a in range(m)] for s in range(n)]})
                in_frozen[name_] = frozen(arr_)
        obj_frozen = {k_: frozen(v_) for k_, v_ in object_arrays(ddp).items()}
        kept = []       # dicts: name, arr, frozen, rejudge (callable on the current content) or None
        log = []
        base = {"stream": "history", "formulation": form, "beta": inst.beta,
                "R_prod": [[None if x is None else int(x) for x in row] for row in inst.R],
                "Q_prod": [[[str(q) for q in inst.Q[s][a]] for a in range(m)] for s in range(n)],
                "pairs": None if s_in is None else [[int(a), int(b)] for a, b in zip(s_in, a_in)]}

        def keep(name, arr, rejudge=None, explicit_out=False):
            kept.append({"name": name, "arr": arr, "frozen": frozen(arr), "rejudge": rejudge, "out": explicit_out,
                         "step": len(log)})

        nops = rng.randint(5, 9)
        for step in range(nops):
            op = rng.choice(["solve", "solve", "solve", "greedy", "bellman", "evalpol", "mc"])
            if step == 0:
                op = "solve"
            if op == "solve":
                method = rng.choice(["vi", "pi", "mpi", "lp"])
                if method == "lp" and form == "sp":
                    method = "pi"
                eps = rng.choice([4.0, 1.0, 0.125, 1e-3])
                k = rng.choice([0, 1, 5, 20])
                max_iter = rng.choice([None, None, 1, 2, 3])
                v_init = rng.choice([None, [rng.randint(-9, 9) for _ in range(n)], [rng.choice([-50, 50]) * (s % 2) for s in range(n)]])
                kw = {}
                vin_arr = None
                if v_init is not None:
                    vin_arr = np.array(v_init, dtype=float)
                    kw["v_init"] = vin_arr
                if max_iter is not None:
                    kw["max_iter"] = max_iter
                if method in ("vi", "mpi"):
                    kw["epsilon"] = eps
                if method == "mpi":
                    kw["k"] = k
                res = ddp.solve(method=method, **kw)
                cap = max_iter if max_iter is not None else (250 * n if method == "lp" else 250)
                call = {"op": "solve", "method": method, "eps": eps, "k": k, "max_iter": max_iter, "v_init": v_init}
                log.append(call)
                num_iter = int(res.num_iter)

                def rj(res=res, method=method, cap=cap, eps=eps, num_iter=num_iter, call=call, at=len(log)):
                    rep = dict(base, calls=list(log), judged_call=at, judged=call,
                               v=[float(x) for x in res.v], sigma=[int(x) for x in res.sigma], num_iter=num_iter)
                    ok = judge(ctx, inst, vstar, method, res.v, res.sigma, num_iter, cap, eps, rep, "history_")
                    try:
                        P = res.mc.P
                        P = np.asarray(P.toarray() if hasattr(P, "toarray") else P)
                        if [[F(float(x)) for x in row] for row in P] != \
                                [inst.Q[s][int(res.sigma[s])] for s in range(n)]:
                            ctx.spec_fail("history_%s_mc_not_Q_sigma" % method,
                                          "res.mc.P is not the chain of res.sigma (after %d later calls)" % (len(log) - at), rep)
                            ok = False
                    except (IndexError, ValueError):
                        pass
                    return ok
                rj()
                keep("call%d:%s.v" % (len(log), method), res.v, rj)
                keep("call%d:%s.sigma" % (len(log), method), res.sigma, None)
                P = res.mc.P
                if sp.issparse(P):
                    keep("call%d:%s.mc.P.data" % (len(log), method), P.data)
                else:
                    keep("call%d:%s.mc.P" % (len(log), method), P)
                if vin_arr is not None:
                    if frozen(vin_arr) != frozen(np.array(v_init, dtype=float)):
                        ctx.spec_fail("history_v_init_modified", "solve(%s) modified the caller's v_init" % method,
                                      dict(base, calls=list(log)))
            elif op == "greedy":
                v = [rng.randint(-9, 9) for _ in range(n)]
                use_out = rng.random() < 0.3
                out = np.empty(n, dtype=int) if use_out else None
                sig = ddp.compute_greedy(np.array(v, dtype=float), sigma=out)
                log.append({"op": "compute_greedy", "v": v, "own_out": use_out})
                ex = inst.T(v)
                exact_ok = F(inst.beta).denominator <= 4
                for s in range(n):
                    a = int(sig[s])
                    if a not in inst.feas[s] or (exact_ok and inst.qv(s, a, v) != ex[s]):
                        ctx.spec_fail("history_compute_greedy", "greedy action is infeasible or not maximal",
                                      dict(base, calls=list(log), sigma=[int(x) for x in sig]))
                        break
                keep("call%d:greedy" % len(log), sig, None, explicit_out=use_out)
            elif op == "bellman":
                v = [rng.randint(-9, 9) for _ in range(n)]
                use_out = rng.random() < 0.3
                Tv_out = np.empty(n) if use_out else None
                sg_out = np.empty(n, dtype=int) if rng.random() < 0.5 else None
                Tv = ddp.bellman_operator(np.array(v, dtype=float), Tv=Tv_out, sigma=sg_out)
                log.append({"op": "bellman_operator", "v": v, "own_Tv": use_out, "own_sigma": sg_out is not None})
                ex = inst.T(v)
                if dist([float(x) for x in Tv], ex) > F(1, 10 ** 8):
                    ctx.spec_fail("history_bellman_operator", "T v is wrong", dict(base, calls=list(log)))
                keep("call%d:Tv" % len(log), Tv, None, explicit_out=use_out)
                if sg_out is not None:
                    keep("call%d:bellman.sigma" % len(log), sg_out, None, explicit_out=True)
            elif op == "evalpol":
                pol = [rng.choice(f) for f in inst.feas]
                vp = ddp.evaluate_policy(np.array(pol))
                log.append({"op": "evaluate_policy", "sigma": pol})
                exv = inst.eval(pol)
                if dist([float(x) for x in vp], exv) > F(1, 10 ** 9) * (1 + max(abs(x) for x in exv)):
                    ctx.spec_fail("history_evaluate_policy", "evaluate_policy is wrong", dict(base, calls=list(log)))
                keep("call%d:v_sigma" % len(log), vp)
            else:
                pol = [rng.choice(f) for f in inst.feas]
                try:
                    mc = ddp.controlled_mc(np.array(pol))
                except ValueError:
                    continue
                log.append({"op": "controlled_mc", "sigma": pol})
                P = mc.P
                Pd = np.asarray(P.toarray() if hasattr(P, "toarray") else P)
                if [[F(float(x)) for x in row] for row in Pd] != [inst.Q[s][pol[s]] for s in range(n)]:
                    ctx.spec_fail("history_controlled_mc", "controlled_mc(sigma).P is not Q_sigma", dict(base, calls=list(log)))
                keep("call%d:mc.P" % len(log), P.data if sp.issparse(P) else P)
            ctx.count("history:op=%s" % op)
            # ---- after every call: nothing returned earlier, no input, no array of the object may have changed ----
            rep = dict(base, calls=list(log))
            for kk in kept:
                if frozen(kk["arr"]) != kk["frozen"]:
                    ctx.spec_fail("history_earlier_result_overwritten",
                                  "%s (returned by call %d) was changed by a later call (now call %d)"
                                  % (kk["name"], kk["step"], len(log)),
                                  dict(rep, changed=kk["name"], now=np.asarray(kk["arr"]).tolist()))
                    kk["frozen"] = frozen(kk["arr"])
                if kk["rejudge"] is not None:
                    kk["rejudge"]()
            for name, arr in inputs.items():
                if frozen(arr) != in_frozen[name]:
                    ctx.spec_fail("history_input_modified", "the caller's %s was modified" % name, rep)
                    in_frozen[name] = frozen(arr)
            for name, arr in object_arrays(ddp).items():
                if name not in obj_frozen or frozen(arr) != obj_frozen[name]:
                    ctx.spec_fail("history_object_array_modified", "ddp.%s changed during the history" % name, rep)
                    obj_frozen[name] = frozen(arr)
            # ---- aliasing ----
            for i in range(len(kept)):
                for j in range(i + 1, len(kept)):
                    if np.shares_memory(kept[i]["arr"], kept[j]["arr"]):
                        ctx.spec_fail("history_results_share_memory",
                                      "%s and %s share memory" % (kept[i]["name"], kept[j]["name"]), rep)
                if kept[i]["out"]:
                    continue
                for name, arr in list(inputs.items()) + list(object_arrays(ddp).items()):
                    if isinstance(arr, np.ndarray) and np.shares_memory(kept[i]["arr"], arr):
                        ctx.spec_fail("history_result_aliases_%s" % ("input" if name.endswith("_in") else "object"),
                                      "%s shares memory with %s" % (kept[i]["name"], name), rep)
        ctx.count("history:objects")
        ctx.count("history:kept-arrays", len(kept))



def caller_arrays(ctx):
    """sa-pair formulation from the caller's own ndarrays in unsorted pair orders: the constructor and the solvers
    must leave R, Q, s_indices, a_indices bitwise unchanged, and a second instance as well as the sparse formulation
    built afterwards from the SAME arrays must still solve the problem as originally described"""
    from quantecon.markov import DiscreteDP
    rng = ctx.rng
    for it in range(ctx.n(10, 120)):
        inst = gen_instance(rng, 4, 3, True)
        tries = 0
        while sum(len(f) for f in inst.feas) < 3 and tries < 5:
            inst = gen_instance(rng, 4, 3, True)
            tries += 1
        vstar, _ = inst.vstar()
        n, m = inst.n, inst.m
        pairs = [(s, a) for s in range(n) for a in inst.feas[s]]
        L = len(pairs)
        order = ["rotation", "shuffle", "action-major", "reversed", "shuffle", "rotation"][it % 6]
        if order == "rotation":
            r = rng.randint(1, max(1, L - 1))
            pairs = pairs[r:] + pairs[:r]
        elif order == "shuffle":
            rng.shuffle(pairs)
        elif order == "action-major":
            pairs.sort(key=lambda p_: (p_[1], p_[0]))
        else:
            pairs.reverse()
        is_sorted = pairs == sorted(pairs)
        layout = "C" if (is_sorted or it % 2 == 0) else "F"
        R = np.array([float(inst.R[s][a]) for s, a in pairs], dtype=np.float64)
        Q = np.array([[float(q) for q in inst.Q[s][a]] for s, a in pairs], dtype=np.float64).reshape(L, n)
        if layout == "F":
            Q = np.asfortranarray(Q)
        s_idx = np.array([p_[0] for p_ in pairs], dtype=np.int64)
        a_idx = np.array([p_[1] for p_ in pairs], dtype=np.int64)
        arrays = {"R": R, "Q": Q, "s_indices": s_idx, "a_indices": a_idx}
        snap = {k_: frozen(v_) for k_, v_ in arrays.items()}
        base = {"stream": "caller-arrays", "order": order, "Q_layout": layout, "beta": inst.beta,
                "pairs": [list(p_) for p_ in pairs],
                "R_prod": [[None if x is None else int(x) for x in row] for row in inst.R],
                "Q_prod": [[[str(q) for q in inst.Q[s][a]] for a in range(m)] for s in range(n)]}
        ctx.count("caller-arrays:order=%s" % order)
        ctx.count("caller-arrays:layout=%s" % layout)
        if is_sorted:
            ctx.count("caller-arrays:happens-to-be-sorted")

        def unchanged(when):
            for k_, v_ in arrays.items():
                if frozen(v_) != snap[k_]:
                    ctx.spec_fail("caller_array_modified",
                                  "the caller's %s was modified (%s)" % (k_, when), dict(base, when=when, array=k_,
                                                                                       now=np.asarray(v_).tolist()))
                    snap[k_] = frozen(v_)

        eps = rng.choice([0.5, 0.125, 2.0 ** -6])
        k = rng.choice([0, 1, 5])

        def solve_all(ddp, label, sparse):
            for method in ("vi", "pi", "mpi", "lp"):
                if method == "lp" and sparse:
                    continue
                kw = {}
                if method in ("vi", "mpi"):
                    kw["epsilon"] = eps
                if method == "mpi":
                    kw["k"] = k
                res = ddp.solve(method=method, **kw)
                cap = 250 * n if method == "lp" else 250
                rep = dict(base, instance=label, method=method, eps=eps, k=k, v=[float(x) for x in res.v],
                           sigma=[int(x) for x in res.sigma], num_iter=int(res.num_iter))
                judge(ctx, inst, vstar, method, res.v, res.sigma, int(res.num_iter), cap, eps, rep,
                      "caller_arrays_%s_" % label)
                unchanged("after %s.solve(%s)" % (label, method))

        ddp1 = DiscreteDP(R, Q, inst.beta, s_idx, a_idx)
        unchanged("by the constructor of the first instance")
        solve_all(ddp1, "first", False)
        # a second instance and the sparse formulation from the very same arrays
        ddp2 = DiscreteDP(R, Q, inst.beta, s_idx, a_idx)
        unchanged("by the constructor of the second instance")
        solve_all(ddp2, "second", False)
        ddp3 = DiscreteDP(R, sp.csr_matrix(Q), inst.beta, s_idx, a_idx)
        unchanged("by the constructor of the sparse instance")
        solve_all(ddp3, "sparse", True)
        # the first instance still answers correctly
        res = ddp1.solve(method="pi")
        judge(ctx, inst, vstar, "pi", res.v, res.sigma, int(res.num_iter), 250, eps,
              dict(base, instance="first-again", method="pi", v=[float(x) for x in res.v],
                   sigma=[int(x) for x in res.sigma]), "caller_arrays_first_again_")
        ctx.count("caller-arrays:objects", 3)


def slow_gain_instance(rng):
    """high discount factor; 'slow-gain' gadgets: state g can stay (reward r0) or take a myopically worse action
    (reward r0 - delta) that moves with small probability p to an absorbing state with reward r0 + c.  At the
    all-stay policy the one-step gain of switching is rel*|v| with rel in [2e-6, 8e-6] (far above rounding and above
    the LP's fea_tol in absolute terms, far below 1e-5*|v|), but it accumulates by the factor ~1/(1-beta)."""
    beta = rng.choice([0.99, 0.999, 0.9999])
    r0 = rng.choice([1.0, 1.0, 10.0])
    ngad = rng.choice([1, 1, 2])
    nfill = rng.choice([0, 0, 1, 2])
    n = 2 * ngad + nfill
    m = 2
    R = [[None] * m for _ in range(n)]
    Q = [[None] * m for _ in range(n)]
    states = list(range(n))
    rng.shuffle(states)
    V = r0 / (1 - beta)
    for gi in range(ngad):
        g, h = states[2 * gi], states[2 * gi + 1]
        p = rng.choice([2.0 ** -10, 0.001, 0.004])
        c = r0 * rng.choice([0.01, 0.02, 0.05])
        rel = rng.choice([2e-6, 4e-6, 6e-6, 8e-6])
        gross = beta * p * c / (1 - beta)
        g1 = min(rel * V, 0.8 * gross)
        delta = gross - g1
        a_stay = rng.randrange(2)
        row_stay = [0.0] * n
        row_stay[g] = 1.0
        row_move = [0.0] * n
        row_move[g] = 1.0 - p
        row_move[h] = p
        R[g][a_stay], Q[g][a_stay] = r0, row_stay
        R[g][1 - a_stay], Q[g][1 - a_stay] = r0 - delta, row_move
        row_h = [0.0] * n
        row_h[h] = 1.0
        R[h][0], Q[h][0] = r0 + c, row_h
        if rng.random() < 0.5:      # a clearly dominated second action in the absorbing state
            R[h][1], Q[h][1] = r0 * 0.5, row_h
        else:
            Q[h][1] = row_h
    for f in states[2 * ngad:]:
        # filler: one action, or two with identical transitions and clearly different rewards
        w = [rng.randint(0, 4) for _ in range(n)]
        if sum(w) == 0:
            w[f] = 1
        tot = sum(w)
        den = 8
        row = [F(x, tot) for x in w]
        rowf = [float(x) for x in row]
        rowf[rowf.index(max(rowf))] += 1.0 - sum(rowf)
        R[f][0], Q[f][0] = r0 * rng.choice([0.25, 0.5, 0.75]), rowf
        if rng.random() < 0.5:
            R[f][1], Q[f][1] = R[f][0] - r0 * 0.125, rowf
        else:
            Q[f][1] = rowf
    Rx = [[None if x is None else F(float(x)) for x in row] for row in R]
    Qx = [[[F(float(q)) for q in Q[s][a]] for a in range(m)] for s in range(n)]
    return Inst(n, m, Rx, Qx, beta, tags=["slow-gain"])


def slow_gain(ctx):
    """high-discount stream (beta in {0.99, 0.999, 0.9999}); all formulations and methods; exact-oracle judgement"""
    rng = ctx.rng
    for it in range(ctx.n(6, 120)):
        inst = slow_gain_instance(rng)
        vstar, _ = inst.vstar()
        scale = max(abs(x) for x in vstar)
        # the exact gap between the best and the all-"myopic" policy must be far above the rounding slack
        myopic = [max(f, key=lambda a: inst.R[s][a]) for s, f in enumerate(inst.feas)]
        gap = dist(inst.eval(myopic), vstar)
        if gap <= F(1, 10 ** 6) * (1 + scale):
            ctx.count("slow-gain:gap-too-small-skipped")
            continue
        ctx.count("slow-gain:beta=%s" % inst.beta)
        v_init = rng.choice([None, None, [0.0] * inst.n, [float(scale)] * inst.n])
        eps = rng.choice([1e-2, 1e-1])
        for form, wire, spec in np_forms(inst, rng):
            ddp = build(spec, inst.beta)
            for method in ("pi", "lp", "vi", "mpi"):
                if method == "lp" and form == "sp":
                    continue
                if method == "vi" and not ctx.thorough:
                    continue        # (always at the cap of 250 sweeps for these discount factors: nothing to judge)
                kw = {}
                if v_init is not None:
                    kw["v_init"] = np.array(v_init, dtype=float)
                if method in ("vi", "mpi"):
                    kw["epsilon"] = eps
                if method == "mpi":
                    kw["k"] = 20
                res = ddp.solve(method=method, **kw)
                cap = 250 * inst.n if method == "lp" else 250
                rep = {"stream": "slow-gain", "form": form, "method": method, "beta": inst.beta, "eps": eps,
                       "v_init": v_init, "v": [float(x) for x in res.v], "sigma": [int(x) for x in res.sigma],
                       "num_iter": int(res.num_iter), "v_star": [float(x) for x in vstar],
                       "R": [[None if x is None else float(x) for x in row] for row in inst.R],
                       "Q": [[[float(q) for q in inst.Q[s][a]] for a in range(inst.m)] for s in range(inst.n)]}
                judge(ctx, inst, vstar, method, res.v, res.sigma, int(res.num_iter), cap, eps, rep, "slow_gain_")
                ctx.count("slow-gain:%s:%s" % (method, "before-cap" if int(res.num_iter) < cap else "at-cap"))



def method_names(ctx, cases):
    """`solve(method=name)`: the eight accepted names select the four methods, anything else raises ValueError"""
    from quantecon.markov import DiscreteDP
    rng = ctx.rng
    R = np.array([[5.0, 10.0], [-1.0, -np.inf]])
    Q = np.array([[[0.5, 0.5], [0.0, 1.0]], [[0.0, 1.0], [0.5, 0.5]]])
    ddp = DiscreteDP(R, Q, 0.5)
    long_of = {"value iteration": "vi", "policy iteration": "pi", "modified policy iteration": "mpi",
               "linear programming": "lp"}
    valid = ["value_iteration", "vi", "policy_iteration", "pi", "modified_policy_iteration", "mpi",
             "linear_programming", "lp"]
    malformed = ["", "VI", "Pi", "value iteration", "policy-iteration", "lp ", " vi", "howard", "simplex", "mpi2",
                 "valueiteration", "LP", "policy_iteration_", "v", "modified_policy"]
    letters = "vipmlo_"
    for _ in range(ctx.n(10, 60)):
        malformed.append("".join(rng.choice(letters) for _ in range(rng.randint(1, 4))))
    for name in valid + malformed:
        try:
            res = ddp.solve(method=name)
            got = long_of.get(res.method, "?:" + str(res.method))
        except ValueError:
            got = "ERR:ValueError"
        if name in valid:
            ctx.count("method-name:valid")
            want = {"value_iteration": "vi", "policy_iteration": "pi", "modified_policy_iteration": "mpi",
                    "linear_programming": "lp"}.get(name, name)
            if got != want:
                ctx.spec_fail("solve_method_name", "solve(method=%r) ran %s" % (name, got), {"method": name, "got": got})
        else:
            ctx.count("method-name:%s" % ("rejected" if got == "ERR:ValueError" else "accepted-nonstandard"))
        cases.append(Case("C01 method hex=%s" % name.encode("ascii").hex(), got, nontrivial=False, tag="method-name"))



def run(ctx):
    warnings.simplefilter("ignore")
    rng = ctx.rng
    cases = []
    spec_cases = []     # (case for the Lean spec op, python distances)
    ctx.rule = ("corpus (harness/corpus/c01_instances.json) + random DDPs n<=%d, m<=%d: integer rewards with ties, "
                "~14%% -inf entries (never a whole state), transition rows k/den (den in 1..16), planted absorbing / "
                "periodic / duplicated-action / flat / block / deterministic / generic-double structure, beta in "
                "{0,.25,.3,.5,.75,.9,.95,.99}, eps dyadic or decimal, v_init default or random integers, k in "
                "{0,1,5,20}, max_iter default or 1..6; each in product form, as pairs (sorted / reversed / shuffled) "
                "dense and sparse, solved by vi, pi, mpi, lp; thorough tier adds all 1944 DDPs of a small scope; "
                "plus an argument-form stream (index dtypes x pair orders x array kinds x scalar kinds) and a "
                "call-history stream on single objects, both judged by the exact oracle; "
                "non-trivial = at least one state with two feasible actions; distinct by request line"
                % (ctx.n(5, 6), ctx.n(4, 5)))
    ninst = ctx.n(110, 1500)
    nmax, mmax = ctx.n(5, 6), ctx.n(4, 5)
    tol9 = F(1, 10 ** 9)

    def todo():
        # corpus first: hand-written instances (library docstring / test-suite examples, tie and
        # degenerate structures that once mattered)
        path = os.path.join(ctx.corpus_dir, "c01_instances.json")
        if os.path.exists(path):
            for d in json.load(open(path)):
                R = [[None if x is None else F(x) for x in row] for row in d["R"]]
                Q = [[[F(q) for q in row] for row in st] for st in d["Q"]]
                inst = Inst(len(R), len(R[0]), R, Q, float(d["beta"]), tags=["corpus"])
                for eps in d.get("eps", [1e-3]):
                    for k in d.get("k", [20]):
                        yield inst, eps, k, d.get("max_iter"), d.get("v_init")
        if ctx.thorough:
            for inst in small_scope():
                yield inst, 0.25, 1, None, None
        for it in range(ninst):
            exact_bias = (it % 2 == 0)
            inst = gen_instance(rng, nmax, mmax, exact_bias)
            beta = inst.beta
            if exact_bias:
                eps = rng.choice([1.0, 0.5, 0.125, 2.0 ** -6])
            else:
                eps = rng.choice([1e-1, 1e-2, 1e-3, 0.5])
            if beta >= 0.9 or "float-data" in inst.tags:
                eps = rng.choice([0.5, 1e-1, 1e-2])   # keeps the exact re-run of the model cheap
            k = rng.choice([0, 1, 5, 20])
            max_iter = rng.choice([None, None, None, None, rng.randint(1, 6)])
            v_init = None if rng.random() < 0.5 else [rng.randint(-5, 5) for _ in range(inst.n)]
            yield inst, eps, k, max_iter, v_init

    for inst, eps, k, max_iter, v_init in todo():
        for t in inst.tags:
            ctx.count("gen:" + t)
        ctx.count("gen:n=%d" % inst.n)
        nontriv = any(len(f) >= 2 for f in inst.feas)
        vstar, brute = inst.vstar()
        ctx.count("oracle:brute-force" if brute else "oracle:exact-PI+certificate")
        scale = max(abs(x) for x in vstar)
        beta = inst.beta
        forms = np_forms(inst, rng)
        results = {}
        for form, wire, spec in forms:
            try:
                ddp = build(spec, beta)
            except Exception as e:  # the generator only produces valid instances
                raise RuntimeError("constructor refused a valid instance: %r" % e)
            common = "%s beta=%s" % (wire, fx(beta))
            # ---- bellman_operator / compute_greedy on an integer vector (exact doubles) ----
            for _ in range(2):
                v = [rng.randint(-4, 4) for _ in range(inst.n)]
                sig = np.empty(inst.n, dtype=int)
                Tv = ddp.bellman_operator(np.array(v, dtype=float), sigma=sig)
                ex = inst.T(v)
                # beta in {0, 1/4, 1/2, 3/4}, integer v, rows k/den: every double operation is exact
                exact_ok = (F(beta).denominator <= 4) and "float-data" not in inst.tags
                if exact_ok:
                    if [F(float(x)) for x in Tv] != ex:
                        ctx.spec_fail("bellman_operator", "T v differs from max_a r + beta q.v",
                                      {"form": form, "wire": common, "v": v, "got": [float(x) for x in Tv]})
                elif dist([float(x) for x in Tv], ex) > tol9 * 20:
                    ctx.spec_fail("bellman_operator", "T v differs from max_a r + beta q.v by more than 2e-8",
                                  {"form": form, "wire": common, "v": v, "got": [float(x) for x in Tv]})
                # the greedy action must be feasible and attain the maximum
                for s in range(inst.n):
                    a = int(sig[s])
                    if a not in inst.feas[s] or (inst.qv(s, a, v) != ex[s] if exact_ok else
                                                 ex[s] - inst.qv(s, a, v) > tol9 * 20):
                        ctx.spec_fail("compute_greedy", "greedy action does not attain the maximum",
                                      {"form": form, "wire": common, "v": v, "sigma": sig.tolist()})
                impl = "Tv=%s sigma=%s" % (rats([F(float(x)) for x in Tv]), ints(sig))

                def cmpb(mo, impl, exact_ok=exact_ok):
                    a, b = parse_kv(mo), parse_kv(impl)
                    if exact_ok:
                        ctx.count("bellman:exact")
                        if a["margin"] == "0":
                            ctx.count("bellman:exact-with-tie")
                        return None if (a["Tv"] == b["Tv"] and a["sigma"] == b["sigma"]) else "bellman differs"
                    mg = None if a["margin"] == "none" else F(a["margin"])
                    if mg is not None and mg <= F(1, 10 ** 9):
                        ctx.count("bellman:fragile")
                        return None
                    ctx.count("bellman:robust")
                    if a["sigma"] != b["sigma"]:
                        return "greedy policy differs"
                    if dist(parse_rats(a["Tv"]), parse_rats(b["Tv"])) > tol9 * (1 + 10):
                        return "Tv outside the envelope"
                    return None
                cases.append(Case("C01 bellman %s v=%s" % (common, ints(v)), impl, nontrivial=nontriv, cmp=cmpb,
                                  tag="bellman"))
                if form == "prod":
                    implp = "Tv=%s sigma=%s" % (",".join(rat(F(float(x))) for x in Tv), ints(sig))
                    if exact_ok:
                        cases.append(Case("C01 bellmanprod %s v=%s" % (common, ints(v)), implp, nontrivial=nontriv,
                                          tag="bellmanprod"))
            # ---- the four methods ---------------------------------------------------------
            for method in ("vi", "pi", "mpi", "lp"):
                kw = {}
                if v_init is not None:
                    kw["v_init"] = np.array(v_init, dtype=float)
                if max_iter is not None:
                    kw["max_iter"] = max_iter
                if method in ("vi", "mpi"):
                    kw["epsilon"] = eps
                if method == "mpi":
                    kw["k"] = k
                try:
                    res = ddp.solve(method=method, **kw)
                except NotImplementedError as e:
                    if method == "lp" and form == "sp":
                        ctx.count("lp:sparse-not-implemented")
                        continue
                    raise
                v = [float(x) for x in res.v]
                sigma = [int(x) for x in res.sigma]
                num_iter = int(res.num_iter)
                cap = max_iter if max_iter is not None else (250 * inst.n if method == "lp" else 250)
                before_cap = num_iter < cap
                results[(form, method)] = (v, sigma, num_iter)
                replay = {"form": form, "method": method, "wire": common, "beta": beta, "eps": eps, "k": k,
                          "max_iter": max_iter, "v_init": v_init, "v": v, "sigma": sigma, "num_iter": num_iter,
                          "R": [[None if x is None else int(x) for x in row] for row in inst.R],
                          "Q": [[[str(q) for q in inst.Q[s][a]] for a in range(inst.m)] for s in range(inst.n)]}
                # ---- spec: feasibility ----
                feas = len(sigma) == inst.n and all(sigma[s] in inst.feas[s] for s in range(inst.n))
                if not feas:
                    ctx.spec_fail("%s_infeasible_policy" % method, "returned policy uses an infeasible action", replay)
                    continue
                if not all(math.isfinite(x) for x in v):
                    ctx.spec_fail("%s_nonfinite_value" % method, "returned value is not finite", replay)
                    continue
                if num_iter > cap:
                    # (not part of the property; happens for lp with max_iter < n: the n initial pivots are
                    #  always performed and counted)
                    ctx.count("%s:num_iter>max_iter" % method)
                # the controlled chain reported with the result is the one of the returned policy
                try:
                    mcP = np.asarray(res.mc.P.toarray() if hasattr(res.mc.P, "toarray") else res.mc.P)
                    if [[F(float(x)) for x in row] for row in mcP] != [inst.Q[s][sigma[s]] for s in range(inst.n)]:
                        ctx.spec_fail("%s_mc_not_Q_sigma" % method, "res.mc.P is not Q_sigma", replay)
                    else:
                        ctx.count("mc-equals-Q_sigma")
                except Exception as e:   # MarkovChain refuses rows that do not sum to 1 (generic double data)
                    ctx.count("mc-unavailable:" + type(e).__name__)
                dv = dist(v, vstar)
                vs = inst.eval(sigma)
                ds = dist(vs, vstar)
                slack = tol9 * (1 + scale)
                if before_cap:
                    ctx.count("%s:before-cap" % method)
                    if method in ("pi", "lp"):
                        if dv > slack:
                            ctx.spec_fail("%s_value_not_optimal" % method,
                                          "|v - v*| = %.3e" % float(dv), replay)
                        if ds > slack:
                            ctx.spec_fail("%s_policy_not_optimal" % method,
                                          "|v_sigma - v*| = %.3e" % float(ds), replay)
                        ctx.count("%s:policy-exactly-optimal" % method if ds == 0 else "%s:policy-optimal-to-1e-9" % method)
                    else:
                        if not dv < F(eps) / 2 + slack:
                            ctx.spec_fail("%s_value_not_within_half_eps" % method,
                                          "|v - v*| = %.3e, eps/2 = %.3e" % (float(dv), eps / 2), replay)
                        if not ds <= F(eps) + slack:
                            ctx.spec_fail("%s_policy_not_eps_optimal" % method,
                                          "|v_sigma - v*| = %.3e, eps = %.3e" % (float(ds), eps), replay)
                        if ds == 0:
                            ctx.count("%s:policy-exactly-optimal" % method)
                else:
                    ctx.count("%s:at-cap" % method)
                # ---- correspondence ----
                impl = "sigma=%s iters=%d v=%s" % (ints(sigma), num_iter, fxs(v))
                vin = "none" if v_init is None else ints(v_init)
                if method == "vi":
                    line = "C01 vi %s eps=%s maxiter=%d vinit=%s" % (common, fx(eps), cap, vin)
                elif method == "pi":
                    line = "C01 pi %s maxiter=%d vinit=%s" % (common, cap, vin)
                elif method == "mpi":
                    line = "C01 mpi %s eps=%s maxiter=%d k=%d vinit=%s" % (common, fx(eps), cap, k, vin)
                else:
                    line = None
                    cases.append(Case("C01 lp %s maxiter=%d vinit=%s" % (common, cap, vin), impl, nontrivial=nontriv,
                                      cmp=make_cmp_lp(ctx), tag="lp:" + form))
                if line is not None:
                    cases.append(Case(line, impl, nontrivial=nontriv, cmp=make_cmp(ctx, method, scale),
                                      tag=method + ":" + form))
                # ---- the Lean checker on the code's outputs (one form per instance is enough) ----
                if form == "prod" or (form == "sa" and method == "lp"):
                    spec_cases.append(Case("C01 spec %s v=%s sigma=%s" % (common, fxs(v), ints(sigma)),
                                           "feasible=1 stopped=1 dv=%s dsigma=%s" % (rat(dv), rat(ds)),
                                           nontrivial=nontriv, tag="spec:" + method))
            # ---- evaluate_policy on a random feasible policy ----
            pol = [rng.choice(f) for f in inst.feas]
            vp = [float(x) for x in ddp.evaluate_policy(np.array(pol))]
            exv = inst.eval(pol)
            if dist(vp, exv) > tol9 * (1 + max(abs(x) for x in exv)):
                ctx.spec_fail("evaluate_policy", "evaluate_policy is not the solution of (I - beta Q_s) v = R_s",
                              {"form": form, "wire": common, "sigma": pol, "got": vp})

            def cmpe(mo, impl):
                if not mo.startswith("v="):
                    return "model: " + mo
                vm, vc = parse_rats(mo[2:]), parse_rats(impl[2:])
                return None if dist(vm, vc) <= tol9 * (1 + max(abs(x) for x in vm)) else "evaluate_policy outside the envelope"
            cases.append(Case("C01 evalpol %s sigma=%s" % (common, ints(pol)), "v=" + fxs(vp), nontrivial=nontriv,
                              cmp=cmpe, tag="evalpol"))
        # ---- formulations agree (value of the stopped exact methods) ----
        for method in ("pi", "lp"):
            vals = [results[(f, method)][0] for f in ("prod", "sa", "sp") if (f, method) in results]
            for w in vals[1:]:
                if dist(vals[0], w) > 2 * tol9 * (1 + scale) and max_iter is None:
                    ctx.spec_fail("forms_disagree_%s" % method, "two formulations give different optimal values",
                                  {"inst_R": str(inst.R), "beta": beta, "values": vals})

    # ---- error paths --------------------------------------------------------------------------
    from quantecon.markov import DiscreteDP
    for eidx in range(ctx.n(6, 42)):
        inst = gen_instance(rng, 3, 3, True)
        forms = np_forms(inst, rng)
        kind = eidx % 3
        for form, wire, spec in forms[:2]:
            if kind == 0:       # beta = 1: every method refuses
                b = 1.0
                try:
                    d = build(spec, b)
                    out = []
                    for method in ("vi", "pi", "mpi"):
                        try:
                            d.solve(method=method)
                            out.append("no-error")
                        except Exception as e:
                            out.append(err_str(e))
                    got = out
                except Exception as e:
                    got = [err_str(e)] * 3
                for method, g in zip(("vi", "pi", "mpi"), got):
                    if g != "ERR:NotImplementedError":
                        ctx.spec_fail("beta1_%s" % method, "beta=1 accepted by %s" % method, {"wire": wire})
                    extra = " eps=1/2" if method != "pi" else ""
                    extra += " k=1" if method == "mpi" else ""
                    cases.append(Case("C01 %s %s beta=1%s maxiter=5 vinit=none" % (method, wire, extra), g,
                                      nontrivial=False, tag="err:beta1"))
                ctx.count("err:beta=1")
            elif kind == 1:     # beta outside [0,1]
                b = rng.choice([-0.5, 1.5])
                try:
                    build(spec, b)
                    g = "no-error"
                except Exception as e:
                    g = err_str(e)
                cases.append(Case("C01 pi %s beta=%s maxiter=5 vinit=none" % (wire, fx(b)), g, nontrivial=False,
                                  tag="err:beta-range"))
                ctx.count("err:beta-range")
            else:               # a state without feasible action (product form only)
                if form != "prod":
                    continue
                s0 = rng.randrange(inst.n)
                R2 = [list(r) for r in inst.R]
                R2[s0] = [None] * inst.m
                inst2 = Inst(inst.n, inst.m, R2, inst.Q, 0.5)
                f2 = np_forms(inst2, rng)[0]
                try:
                    build(f2[2], 0.5)
                    g = "no-error"
                except Exception as e:
                    g = err_str(e)
                cases.append(Case("C01 pi %s beta=1/2 maxiter=5 vinit=none" % f2[1], g, nontrivial=False,
                                  tag="err:no-action"))
                ctx.count("err:no-feasible-action")

    method_names(ctx, cases)
    argument_forms(ctx)
    histories(ctx)
    caller_arrays(ctx)
    slow_gain(ctx)

    ctx.run_cases(cases)
    ctx.run_cases(spec_cases)
    if ctx.thorough:
        ctx.extra["exhaustive_scope"] = ("all 1944 DDPs with n=2, m=2, rewards in {0,1} (one entry also -inf), rows in "
                                         "{(1,0),(0,1),(1/2,1/2)}, beta=1/2, eps=1/4, k=1: every method x formulation; "
                                         "the random part of the run is sampled, not exhaustive")
    ctx.assumptions.append("np.linalg.solve / spsolve / BLAS dot are not modelled: evaluate_policy is compared inside "
                           "1e-9*(1+|v|); discrete outputs of runs whose comparisons are decided by rounding "
                           "(model margin <= 1e-7*(1+|v*|)) are counted, not compared")
    ctx.assumptions.append("linear-programming method: the model (tableau, n initial pivots, C04's solve_tableau with the "
                           "lexicographic ratio test) is compared through its double instance (sigma, num_iter exact, bits "
                           "of v counted); theorems lp_exit_optimal / lp_terminates / lp_correct are for tolerances 0, "
                           "lp_exit_partial for the code's tolerances; the exact run's start validation (`rstart`, proved "
                           "to hold by lp_start_valid) and output certificate (`rcert`) are asserted on every case")
