"""C19 — closed-form statistics agree with their definitions: correspondence + spec run.

Model ops (lean/QEModel/C19.lean, exact in Rat): gini, lorenz, ecdf, bb (BetaBinomial), polys / impulse / psi /
acov / specdens (ARMA), hamilton (with p: exact OLS; without p), pgram (index set), smooth (flat / bartlett).
Real-valued outputs of the code are compared with the model's exact rational inside a stated envelope; polynomial
coefficient vectors, nan patterns, index sets, lengths and exception kinds are compared exactly.
The spec oracles (ctx.spec_fail) are computed with Fractions / direct O(n^2) DFT from the definitions and do not
use the model.  FFT-, freqz- and dimpulse-based clauses are *tests* (labelled `test:` in the counters).
"""
import io
import json
import math
import os
import contextlib
from fractions import Fraction

import numpy as np

from .common import Case, fx, unfx, rat, rats, ints

FILES = ["quantecon/_inequality.py", "quantecon/_ecdf.py", "quantecon/distributions.py", "quantecon/_arma.py",
         "quantecon/_filter.py", "quantecon/_estspec.py"]

F = Fraction


# ----------------------------------------------------------------------------------------------------
# canonical strings and envelope comparison


def fnum(x):
    x = float(x)
    return "nan" if math.isnan(x) else fx(x)


def flist(v):
    v = list(v)
    return ",".join(fnum(e) for e in v) if v else "-"


def parse_tok(t):
    if t == "nan":
        return None
    if t.startswith("x"):
        v = unfx(t)
        if math.isnan(v):
            return None
        if math.isinf(v):
            return v
        return F(v)
    return F(t)


def env_cmp(tol, scale=None, exact_sections=()):
    """model sections 'a,b|c,d' (rationals / nan) vs code sections (double bits / nan):
    |model − code| ≤ tol·max(1, |model|, scale); nan patterns and lengths exactly."""
    def cmp(mo, im):
        if mo.startswith("ERR") or im.startswith("ERR"):
            return None if mo == im else "error kinds differ"
        ms, cs = mo.split("|"), im.split("|")
        if len(ms) < len(cs):
            return "section count differs"
        for si, (a, b) in enumerate(zip(ms, cs)):
            if si in exact_sections:
                if a != b:
                    return "section %d differs (exact)" % si
                continue
            la = [] if a == "-" else a.split(",")
            lb = [] if b == "-" else b.split(",")
            if len(la) != len(lb):
                return "section %d: lengths %d vs %d" % (si, len(la), len(lb))
            for k, (x, y) in enumerate(zip(la, lb)):
                px, py = parse_tok(x), parse_tok(y)
                if px is None or py is None:
                    if px is not py:
                        return "section %d[%d]: nan pattern differs" % (si, k)
                    continue
                if isinstance(py, float):
                    return "section %d[%d]: code returned inf" % (si, k)
                bound = tol * max(1, abs(px), scale or 0)
                if abs(px - py) > bound:
                    return "section %d[%d]: model %s code %s |diff|=%.3e > %.3e" % (
                        si, k, float(px), float(py), float(abs(px - py)), float(bound))
        return None
    return cmp


def close(a, b, tol, scale=1):
    return abs(F(a) - F(b)) <= F(tol) * max(1, abs(F(b)), scale)


# ----------------------------------------------------------------------------------------------------
# gini / lorenz / ecdf


def gini_exact(y):
    """definition: mean absolute difference / (2·mean), via the sorted-sample identity (independent of the
    double loop of the code and of the model)"""
    n = len(y)
    ys = sorted(y)
    tot = sum(ys)
    return F(2 * sum((2 * (i + 1) - n - 1) * v for i, v in enumerate(ys)), 2 * n * tot)


def gini_mad(y):
    n = len(y)
    mad = F(sum(abs(a - b) for a in y for b in y), n * n)
    return mad / (2 * F(sum(y), n))


def gen_sample(ctx, n):
    kind = ctx.rng.randrange(6)
    if kind == 0:      # many ties
        vals = [F(ctx.rng.randint(1, 4)) for _ in range(n)]
        ctx.count("sample:ties")
    elif kind == 1:    # zeros present
        vals = [F(ctx.rng.choice([0, 0, 1, 2, 5, 40]), ctx.rng.choice([1, 2, 8])) for _ in range(n)]
        if sum(vals) == 0:
            vals[0] = F(3)
        ctx.count("sample:zeros")
    elif kind == 2:    # heavy tail
        vals = [F(ctx.rng.randint(1, 64), 64) ** ctx.rng.choice([1, 1, -1]) for _ in range(n)]
        vals = [F(int(v * 256), 256) + F(1, 256) for v in vals]
        ctx.count("sample:heavy-tail")
    elif kind == 3:    # constant
        c = F(ctx.rng.randint(1, 40), 8)
        vals = [c] * n
        ctx.count("sample:constant")
    elif kind == 4:    # sorted / reverse sorted integers
        vals = sorted(F(ctx.rng.randint(1, 1000)) for _ in range(n))
        if ctx.rng.random() < 0.5:
            vals.reverse()
        ctx.count("sample:sorted")
    else:
        vals = [F(ctx.rng.randint(1, 4096), 16) for _ in range(n)]
        ctx.count("sample:generic")
    return vals


def inequality_cases(ctx, cases):
    from quantecon._inequality import gini_coefficient, lorenz_curve
    sizes = [1, 1, 2, 2, 3, 3, 4, 5, 7, 10, 16, 31, 50, 100, 200] + [ctx.rng.randint(1, 200) for _ in range(ctx.n(12, 400))]
    if not ctx.thorough:
        sizes = [s for s in sizes if s <= 120] + [200]
    for n in sizes:
        y = gen_sample(ctx, n)
        yf = np.array([float(v) for v in y])
        g = float(gini_coefficient(yf))
        ge = gini_exact(y)
        rep = {"op": "gini", "y": [str(v) for v in y], "got": g}
        if not close(g, ge, 1e-12):
            ctx.spec_fail("gini_def", "gini_coefficient=%r, mean-abs-difference/(2 mean)=%r" % (g, float(ge)), rep)
        if n <= 20 and gini_mad(y) != ge:
            raise AssertionError("oracle self-check: sorted identity")
        # permutation and positive rescaling (on the code)
        perm = list(y)
        ctx.rng.shuffle(perm)
        gp = float(gini_coefficient(np.array([float(v) for v in perm])))
        if not close(gp, g, 1e-12):
            ctx.spec_fail("gini_perm", "gini changes under permutation: %r vs %r" % (g, gp), dict(rep, perm=[str(v) for v in perm]))
        c = F(ctx.rng.choice([2, 3, 7, 1000]), ctx.rng.choice([1, 4, 1024]))
        gs = float(gini_coefficient(np.array([float(c * v) for v in y])))
        if not close(gs, g, 1e-12):
            ctx.spec_fail("gini_scale", "gini changes under rescaling by %s: %r vs %r" % (c, g, gs), dict(rep, c=str(c)))
        cases.append(Case("C19 gini y=%s" % rats(y), fnum(g), nontrivial=(n >= 2 and len(set(y)) >= 2),
                          cmp=env_cmp(1e-12), tag="gini"))
        if all(v.denominator == 1 and 0 <= v < 2 ** 16 for v in y):
            gu = float(gini_coefficient(np.array([int(v) for v in y], np.uint64)))     # one extra Numba signature per run
            ctx.count("gini:unsigned-twin")
            if not close(gu, ge, 1e-12):
                ctx.spec_fail("gini_unsigned_dtype", "gini_coefficient(uint64 array)=%r, exact %r" % (gu, float(ge)), dict(rep, dtype="uint64"))
        # Lorenz curve
        cp, ci = lorenz_curve(yf)
        cp, ci = [float(v) for v in cp], [float(v) for v in ci]
        ys = sorted(y)
        tot = sum(ys)
        ref_i, acc = [F(0)], F(0)
        for v in ys:
            acc += v
            ref_i.append(acc / tot)
        ref_p = [F(i, n) for i in range(n + 1)]
        repl = {"op": "lorenz", "y": [str(v) for v in y]}
        bad = None
        if len(cp) != n + 1 or len(ci) != n + 1:
            bad = "length"
        elif cp[0] != 0.0 or ci[0] != 0.0 or cp[-1] != 1.0 or ci[-1] != 1.0:
            bad = "end points (%r,%r)..(%r,%r)" % (cp[0], ci[0], cp[-1], ci[-1])
        elif any(not close(a, b, 1e-13) for a, b in zip(cp, ref_p)) or any(not close(a, b, 1e-13) for a, b in zip(ci, ref_i)):
            bad = "values differ from cumulative shares"
        elif any(ci[i + 1] < ci[i] for i in range(n)) or any(cp[i + 1] <= cp[i] for i in range(n)):
            bad = "not non-decreasing"
        elif any((ci[i + 2] - ci[i + 1]) - (ci[i + 1] - ci[i]) < -1e-13 for i in range(n - 1)):
            bad = "not convex"
        if bad:
            ctx.spec_fail("lorenz_curve", "lorenz_curve: " + bad, repl)
        # gini = 1 − 2·area under the code's Lorenz curve
        area = sum((F(ci[i]) + F(ci[i + 1])) / (2 * n) for i in range(n))
        if not close(g, 1 - 2 * area, 1e-11):
            ctx.spec_fail("gini_lorenz_area", "gini=%r but 1−2·area=%r" % (g, float(1 - 2 * area)), repl)
        cases.append(Case("C19 lorenz y=%s" % rats(y), flist(cp) + "|" + flist(ci), nontrivial=(n >= 2),
                          cmp=env_cmp(1e-13), tag="lorenz"))
        # trace fidelity (reported, never an alarm): the model at Float against the bits of the Numba loop
        yt = yf / 3.0 if ctx.rng.random() < 0.5 else yf        # non-dyadic data so that rounding really happens
        cpt, cit = lorenz_curve(yt)

        def fid(mo, im, ctx=ctx):
            ctx.count("trace-fidelity:lorenz-bits-equal" if mo == im else "trace-fidelity:lorenz-bits-differ")
            return None
        cases.append(Case("C19 lorenz_float y=%s" % flist(yt), flist(cpt) + "|" + flist(cit), nontrivial=False,
                          cmp=fid, tag="lorenz-float"))
    # error path: the all-zero sample / empty sample divide by zero
    for y in ([0.0], [0.0, 0.0, 0.0]):
        for fn, op in ((gini_coefficient, "gini"), (lorenz_curve, "lorenz")):
            try:
                fn(np.array(y))
                out = "no-error"
            except ZeroDivisionError:
                out = "ERR:ZeroDivisionError"
            ctx.count("ineq:zero-division")
            cases.append(Case("C19 %s y=%s" % (op, rats([F(v) for v in y])), out, nontrivial=False, tag=op + "-err"))


def mobility_cases(ctx, cases):
    from quantecon._inequality import shorrocks_index, rank_size
    from .common import ratm
    for it in range(ctx.n(20, 200)):
        m = ctx.rng.randint(2, 6)
        kind = ctx.rng.randrange(4) if it >= 2 else it * 2      # first two: identity, stochastic
        if kind == 0:
            A = [[F(1) if i == j else F(0) for j in range(m)] for i in range(m)]; ctx.count("shorrocks:identity")
        elif kind == 1:
            nc = m + ctx.rng.choice([-1, 1])
            A = [[F(ctx.rng.randint(0, 8), 8) for _j in range(nc)] for _i in range(m)]; ctx.count("shorrocks:non-square")
        else:
            A = []
            for _i in range(m):                      # dyadic stochastic rows
                cuts = sorted(ctx.rng.randint(0, 16) for _j in range(m - 1))
                A.append([F(b - a, 16) for a, b in zip([0] + cuts, cuts + [16])])
            ctx.count("shorrocks:stochastic")
        try:
            got = float(shorrocks_index([[float(v) for v in r] for r in A]))
            impl = fnum(got)
            ref = (m - sum(A[i][i] for i in range(m))) / F(m - 1)
            if F(got) != F(float(ref)) and not close(got, ref, 1e-15):
                ctx.spec_fail("shorrocks_index", "shorrocks_index=%r, (m - trace)/(m-1)=%s" % (got, ref),
                              {"op": "shorrocks", "A": [[str(v) for v in r] for r in A]})
        except ValueError:
            impl = "ERR:ValueError"
            if len(A) == len(A[0]):
                ctx.spec_fail("shorrocks_index", "ValueError on a square matrix", {"A": [[str(v) for v in r] for r in A]})
        cases.append(Case("C19 shorrocks A=%s" % ratm(A), impl, cmp=env_cmp(1e-15), nontrivial=(kind >= 2), tag="shorrocks"))
    for it in range(ctx.n(20, 200)):
        n = ctx.rng.choice([1, 2, 5, 10, 50, ctx.rng.randint(1, 200)])
        c = ctx.rng.choice([F(1), F(1), F(1, 2), F(1, 4), F(3, 4), F(1, 8), F(0), F(85, 100), F(3, 10)])
        if it == 0:
            n, c = 50, F(3, 10)          # 50 * 0.3 rounds up to 15.0 in double arithmetic (exact product < 15)
        data = [F(ctx.rng.randint(1, 400), 8) for _i in range(n)]
        rk, sz = rank_size(np.array([float(v) for v in data]), c=float(c))
        k = int(n * float(c))
        ref = sorted(data, reverse=True)[:k]
        if [int(v) for v in rk] != list(range(1, k + 1)) or [F(float(v)) for v in sz] != ref:
            ctx.spec_fail("rank_size", "rank_size(c=%s) is not the top int(n*c) observations in decreasing order" % c,
                          {"op": "ranksize", "data": [str(v) for v in data], "c": str(c)})
        ctx.count("ranksize:c=1" if c == 1 else "ranksize:c<1")
        # list / tuple / unsigned input (repaired in 5cc1dba): same answer as for the float array
        try:
            rk2, sz2 = rank_size([float(v) for v in data], c=float(c))
            rk3, sz3 = rank_size(tuple(float(v) for v in data), float(c))
            if not (np.array_equal(sz2, sz) and np.array_equal(sz3, sz) and np.array_equal(rk2, rk)):
                ctx.spec_fail("rank_size_list_input", "rank_size(list/tuple) differs from rank_size(array)", {"data": [str(v) for v in data], "c": str(c)})
        except TypeError as e:
            ctx.spec_fail("rank_size_list_input", "rank_size(list) raises TypeError (%s)" % e, {"data": [str(v) for v in data], "c": str(c)})
        du = np.array([int(v * 8) % 7 for v in data], dtype=ctx.rng.choice([np.uint8, np.uint16, np.uint32, np.uint64]))
        rku, szu = rank_size(du, c=float(c))
        if [int(v) for v in szu] != sorted((int(v) for v in du), reverse=True)[:k]:
            ctx.spec_fail("rank_size_unsigned_zero", "rank_size(unsigned array with zeros) is not in decreasing order: %s" % szu.tolist(),
                          {"data": du.tolist(), "dtype": str(du.dtype), "c": str(c)})
        if k != int(n * F(float(c))):
            ctx.count("ranksize:double-product-rounds-across-an-integer")
        cases.append(Case("C19 ranksize data=%s c=%s" % (rats(data), fx(float(c))), ints(rk) + "|" + rats(F(float(v)) for v in sz),
                          nontrivial=(n >= 2 and k >= 1), tag="ranksize"))


def ecdf_cases(ctx, cases):
    from quantecon import ECDF
    for _ in range(ctx.n(40, 800)):
        n = ctx.rng.choice([1, 1, 2, 3, 5, 10, 50, 200, ctx.rng.randint(1, 200)])
        obs = [F(ctx.rng.randint(-20, 20), ctx.rng.choice([1, 2, 4])) for _ in range(n)]
        xs = []
        for _k in range(6):
            kind = ctx.rng.randrange(4)
            if kind == 0:
                xs.append(ctx.rng.choice(obs)); ctx.count("ecdf:x-on-observation")
            elif kind == 1:
                xs.append(min(obs) - F(ctx.rng.randint(0, 3), 8)); ctx.count("ecdf:x-below")
            elif kind == 2:
                xs.append(max(obs) + F(ctx.rng.randint(0, 3), 8)); ctx.count("ecdf:x-above")
            else:
                xs.append(F(ctx.rng.randint(-168, 168), 8)); ctx.count("ecdf:x-generic")
        e = ECDF([float(v) for v in obs])
        got = [float(v) for v in e(np.array([float(v) for v in xs]))]
        sc = float(e(float(xs[0])))
        for x, gv in list(zip(xs, got)) + [(xs[0], sc)]:
            ref = F(sum(1 for o in obs if o <= x), n)
            if F(gv) != F(float(ref)):
                ctx.spec_fail("ecdf", "ECDF(%s)=%r, fraction of observations <= x is %s" % (x, gv, ref),
                              {"op": "ecdf", "obs": [str(v) for v in obs], "x": str(x), "got": gv})
        cases.append(Case("C19 ecdf obs=%s x=%s" % (rats(obs), rats(xs)), flist(got), nontrivial=(len(set(obs)) >= 2),
                          cmp=env_cmp(2e-16), tag="ecdf"))


# ----------------------------------------------------------------------------------------------------
# BetaBinomial


def rising(a, k):
    out = F(1)
    for i in range(k):
        out *= a + i
    return out


def bb_cases(ctx, cases):
    from quantecon.distributions import BetaBinomial
    fixed = [(1, F(1), F(1)), (2, F(1, 2), F(3)), (60, F(1, 16), F(1, 16)), (60, F(319, 16), F(319, 16)), (60, F(1, 16), F(319, 16)),
             (100, F(5), F(5)), (7, F(3), F(1, 4))]
    for it in range(ctx.n(50, 1500)):
        if it < len(fixed):
            n, a, b = fixed[it]
        else:
            n = ctx.rng.randint(1, 60)
            a = F(ctx.rng.randint(1, 319), 16)
            b = F(ctx.rng.randint(1, 319), 16) if ctx.rng.random() < 0.85 else a
        d = BetaBinomial(n, float(a), float(b))
        pdf = [float(v) for v in d.pdf()]
        mean, var, std, skew = float(d.mean), float(d.var), float(d.std), float(d.skew)
        ctx.count("bb:symmetric" if a == b else ("bb:a<b" if a < b else "bb:a>b"))
        if a < 1 or b < 1:
            ctx.count("bb:shape<1")
        # --- oracle: exact pdf from the definition C(n,k) B(k+a, n−k+b)/B(a,b) (Gamma ratios = rising factorials)
        ref = [math.comb(n, k) * rising(a, k) * rising(b, n - k) / rising(a + b, n) for k in range(n + 1)]
        rep = {"op": "bb", "n": n, "a": str(a), "b": str(b)}
        if sum(ref) != 1:
            raise AssertionError("oracle self-check: exact pdf does not sum to one")
        m1 = sum(k * p for k, p in enumerate(ref))
        m2 = sum((k - m1) ** 2 * p for k, p in enumerate(ref))
        m3 = sum((k - m1) ** 3 * p for k, p in enumerate(ref))
        if len(pdf) != n + 1 or any(not close(g, r, 1e-9, 0) and abs(F(g) - r) > F(1, 10 ** 15) for g, r in zip(pdf, ref)):
            ctx.spec_fail("bb_pdf", "pdf differs from binom*beta/beta", dict(rep, got=pdf))
        if not close(sum(F(v) for v in pdf), 1, 1e-9):
            ctx.spec_fail("bb_pdf_sum", "pdf sums to %r" % float(sum(F(v) for v in pdf)), rep)
        if not close(mean, m1, 1e-12):
            ctx.spec_fail("bb_mean", "mean=%r, first moment of the pdf=%r" % (mean, float(m1)), rep)
        if not close(var, m2, 1e-12):
            ctx.spec_fail("bb_var", "var=%r, second central moment of the pdf=%r" % (var, float(m2)), rep)
        if not close(F(std) ** 2, m2, 1e-12):
            ctx.spec_fail("bb_std", "std**2=%r, variance of the pdf=%r" % (std ** 2, float(m2)), rep)
        # skewness: skew² m2³ = m3² and sign(skew) = sign(m3)
        sk2 = m3 * m3 / (m2 ** 3)
        sgn = (m3 > 0) - (m3 < 0)
        if not close(F(skew) ** 2, sk2, 1e-11) or ((skew > 0) - (skew < 0)) != sgn:
            ctx.spec_fail("bb_skew", "skew=%r, third standardised moment of the pdf=%s%r" % (
                skew, "-" if sgn < 0 else "", math.sqrt(float(sk2))), rep)
        impl = "%s|%s|%s|%d|%s" % (fnum(mean), fnum(var), fnum(skew * skew), (skew > 0) - (skew < 0), flist(pdf))
        cases.append(Case("C19 bb n=%d a=%s b=%s" % (n, rat(a), rat(b)), impl, nontrivial=(a != b and n >= 2),
                          cmp=env_cmp(1e-9, exact_sections=(3,)), tag="bb"))


# ----------------------------------------------------------------------------------------------------
# ARMA


def poly_mul(a, b):
    out = [F(0)] * (len(a) + len(b) - 1)
    for i, x in enumerate(a):
        for j, y in enumerate(b):
            out[i + j] += x * y
    return out


def gen_phi(ctx, p, rmax=F(3, 4)):
    """stationary AR coefficients: expand prod (1 − r_i L) with |r_i| ≤ rmax (real roots or conjugate pairs),
    dyadic so that the doubles are exact"""
    poly = [F(1)]
    left = p
    while left > 0:
        if left >= 2 and ctx.rng.random() < 0.5:
            while True:
                a, b = F(ctx.rng.randint(-6, 6), 8), F(ctx.rng.randint(1, 6), 8)
                if a * a + b * b <= rmax * rmax:
                    break
            poly = poly_mul(poly, [F(1), -2 * a, a * a + b * b])
            left -= 2
            ctx.count("arma:complex-root-pair")
        else:
            r = F(ctx.rng.randint(-6, 6), 8)
            poly = poly_mul(poly, [F(1), -r])
            left -= 1
            ctx.count("arma:real-root")
    return [-c for c in poly[1:]]


def psi_exact(phi, theta, N):
    out = []
    for j in range(N):
        if j == 0:
            out.append(F(1))
            continue
        v = theta[j - 1] if j - 1 < len(theta) else F(0)
        for i in range(1, min(j, len(phi)) + 1):
            v += phi[i - 1] * out[j - i]
        out.append(v)
    return out


PYTH = [(3, 4, 5), (5, 12, 13), (8, 15, 17), (7, 24, 25), (20, 21, 29), (1, 0, 1), (0, 1, 1)]


def arma_cases(ctx, cases):
    from quantecon import ARMA
    orders = [(p, q) for p in range(0, 5) for q in range(0, 5) if not (p == 0 and q == 0)]
    reps = ctx.n(1, 20)
    todo = [(pq[0], pq[1], None) for pq in orders * reps + [(1, 1)] * ctx.n(4, 12)]
    # corpus first: minimised past findings / disagreements
    try:
        corpus = [e for e in json.load(open(os.path.join(ctx.corpus_dir, "c19_seed.json"))) if e.get("op") == "arma"]
    except Exception:
        corpus = []
    todo = [(len(e["phi"]), len(e["theta"]), e) for e in corpus] + todo
    for idx, (p, q, fixed) in enumerate(todo):
        if fixed is not None:
            phi = [F(v) for v in fixed["phi"]]
            theta = [F(v) for v in fixed["theta"]]
            sigma = F(fixed["sigma"])
            ctx.count("arma:corpus")
        else:
            phi = gen_phi(ctx, p)
            theta = [F(ctx.rng.randint(-16, 16), 8) for _ in range(q)]
            sigma = F(ctx.rng.choice([1, 1, 2, 3, 1]), ctx.rng.choice([1, 2, 4]))
        # the model and the oracles get exactly the doubles handed to the code (non-dyadic corpus values)
        phi, theta, sigma = [F(float(v)) for v in phi], [F(float(v)) for v in theta], F(float(sigma))
        scalar_phi = (p == 1 and ctx.rng.random() < 0.6)
        scalar_theta = (q == 1 and ctx.rng.random() < 0.6) or (q == 0 and ctx.rng.random() < 0.5)
        if q == 0 and scalar_theta:
            theta_arg, theta_m = 0, [F(0)]       # the default `theta=0`: ma_poly = (1, 0)
        elif scalar_theta:
            theta_arg, theta_m = float(theta[0]), theta
        else:
            theta_arg, theta_m = [float(v) for v in theta], theta
        phi_arg = float(phi[0]) if scalar_phi else [float(v) for v in phi]
        ctx.count("arma:p<q" if p < len(theta_m) else ("arma:p=q" if p == len(theta_m) else "arma:p>q"))
        ctx.count("arma:scalar-param" if (scalar_phi or scalar_theta) else "arma:list-param")
        try:
            if idx % 3 == 2:
                # through the property setters (each calls set_params again)
                arma = ARMA(0.5, 0.25, 1.0)
                arma.phi = phi_arg
                arma.theta = theta_arg
                arma.sigma = float(sigma)
                ctx.count("arma:via-setters")
            else:
                arma = ARMA(phi_arg, theta_arg, float(sigma))
        except Exception as e:  # the constructor never raises on these inputs
            ctx.spec_fail("arma_init", "ARMA(%r,%r) raised %s" % (phi_arg, theta_arg, type(e).__name__), {})
            continue
        base = "phi=%s theta=%s" % (rats(phi), rats(theta_m))
        rep = {"phi": [str(v) for v in phi], "theta": [str(v) for v in theta_m], "sigma": str(sigma),
               "scalar_phi": scalar_phi, "scalar_theta": scalar_theta}
        # polynomials (exact)
        cases.append(Case("C19 polys " + base, rats(F(float(v)) for v in arma.ma_poly) + "|" + rats(F(float(v)) for v in arma.ar_poly),
                          nontrivial=(p != len(theta_m)), tag="polys"))
        # impulse response
        N = ctx.rng.choice([0, 1, 1, 2, 3, 5, 12, 30, 30, 40]) if fixed is None else fixed["n"]
        ctx.count("arma:impulse-length-%s" % (N if N <= 2 else ">2"))
        with np.errstate(all="ignore"):
            got = [float(v) for v in (arma.impulse_response() if N == 30 else arma.impulse_response(N))]
        ref = psi_exact(phi, theta_m, N)
        tol = 1e-9
        bad = None
        if len(got) != N:
            bad = "length %d, asked %d" % (len(got), N)
        elif N >= 1 and got[0] != 1.0:
            bad = "psi_0=%r" % got[0]
        else:
            for j in range(1, N):
                v = (theta_m[j - 1] if j - 1 < len(theta_m) else 0) + sum(phi[i - 1] * F(got[j - i]) for i in range(1, min(j, p) + 1))
                if not close(got[j], v, tol):
                    bad = "ARMA recursion fails at lag %d: psi_j=%r, theta_j+sum phi_i psi_(j-i)=%r" % (j, got[j], float(v))
                    break
            if bad is None and any(not close(g, r, tol) for g, r in zip(got, ref)):
                bad = "differs from the exact MA(inf) coefficients"
        if bad:
            ctx.spec_fail("arma_impulse", "impulse_response: " + bad, dict(rep, op="impulse", n=N, got=got))
        cases.append(Case("C19 impulse %s n=%d" % (base, N), flist(got), nontrivial=(N >= 3), cmp=env_cmp(tol), tag="impulse"))
        cases.append(Case("C19 psi %s n=%d" % (base, N), flist(got), nontrivial=(N >= 3), cmp=env_cmp(tol), tag="psi"))
        if idx == 0:
            # impulse_length = 1 (own key: scipy's dimpulse(n=1) is outside the meaning modelled by `tfImpulse`)
            with np.errstate(all="ignore"):
                g1 = [float(v) for v in arma.impulse_response(1)]
            if g1 != [1.0]:
                ctx.spec_fail("arma_impulse_length1", "impulse_response(1)=%r, psi_0 must be 1" % g1, dict(rep, op="impulse", n=1, got=g1))
        # spectral density at exact points of the unit circle (test of freqz + the formula)
        cs, ss, ws = [], [], []
        for _k in range(4):
            a, b, h = ctx.rng.choice(PYTH)
            if ctx.rng.random() < 0.5:
                a, b = b, a
            c, s = F(a * ctx.rng.choice([1, -1]), h), F(b * ctx.rng.choice([1, -1]), h)
            cs.append(c); ss.append(s)
            ws.append(math.atan2(float(s), float(c)) % (2 * math.pi))
        w, spect = arma.spectral_density(res=np.array(ws))
        sp_re = [float(np.real(v)) for v in spect]
        sp_im = [float(np.imag(v)) for v in spect]
        ma = [F(1)] + list(theta_m)
        ar = [F(1)] + [-v for v in phi]
        for c, s, gre, gim, wv in zip(cs, ss, sp_re, sp_im, ws):
            def ev(poly):
                re, im = F(0), F(0)
                zr, zi = F(1), F(0)
                for coef in poly:
                    re += coef * zr; im += coef * zi
                    zr, zi = zr * c + zi * s, zi * c - zr * s       # multiply by e^{-iw} = c − i s
                return re * re + im * im
            refv = sigma * sigma * ev(ma) / ev(ar)
            if not close(gre, refv, 1e-9) or abs(gim) > 1e-9 * max(1.0, abs(gre)):
                ctx.spec_fail("arma_spectral_density", "spectral_density(w=%r)=%r+%rj, sigma^2|theta/phi|^2=%r" % (
                    wv, gre, gim, float(refv)), dict(rep, op="specdens", c=str(c), s=str(s)))
        ctx.count("test:spectral-density-points", len(cs))
        cases.append(Case("C19 specdens %s sigma=%s c=%s s=%s" % (base, rat(sigma), rats(cs), rats(ss)), flist(sp_re),
                          cmp=env_cmp(1e-9), tag="specdens"))
        # default grids of spectral_density
        for two_pi in (True, False):
            res = ctx.rng.choice([4, 7, 16])
            wg, sg = arma.spectral_density(two_pi=two_pi, res=res)
            top = 2 * math.pi if two_pi else math.pi
            if len(wg) != res or any(abs(float(wg[k]) - top * k / res) > 1e-12 for k in range(res)):
                ctx.spec_fail("arma_spectral_grid", "frequency grid is not %s*k/res" % ("2pi" if two_pi else "pi"), dict(rep, res=res))
            for k in range(res):
                z = np.exp(-1j * float(wg[k]))
                hv = np.polyval([float(v) for v in ma][::-1], z) / np.polyval([float(v) for v in ar][::-1], z)
                if abs(complex(sg[k]) - float(sigma) ** 2 * abs(hv) ** 2) > 1e-8 * max(1.0, abs(hv) ** 2):
                    ctx.spec_fail("arma_spectral_grid", "spectral density on the default grid differs from sigma^2|theta/phi|^2",
                                  dict(rep, res=res, k=k))
            ctx.count("test:spectral-density-grid")
        # autocovariances (inverse FFT of the 1200-point spectral density): sigma^2 sum_j psi_j psi_{j+k}
        K = ctx.rng.choice([1, 4, 16])
        with np.errstate(all="ignore"):
            import warnings
            with warnings.catch_warnings():
                warnings.simplefilter("ignore")
                ac = [float(v) for v in arma.autocovariance(K)]
        if len(ac) != K:
            ctx.spec_fail("arma_autocovariance", "autocovariance(%d) returned %d values" % (K, len(ac)), dict(rep, op="acov"))
            continue
        J = 160
        pe = psi_exact(phi, theta_m, J + K)
        for k in range(K):
            refv = sigma * sigma * sum(pe[j] * pe[j + k] for j in range(J))
            if not close(ac[k], refv, 1e-7):
                ctx.spec_fail("arma_autocovariance", "autocovariance[%d]=%r, sigma^2 sum psi_j psi_(j+k)=%r" % (k, ac[k], float(refv)),
                              dict(rep, op="acov", k=k))
        ctx.count("test:autocovariance", K)
        k0 = ctx.rng.randrange(K)
        cases.append(Case("C19 acov %s sigma=%s k=%d J=%d" % (base, rat(sigma), k0, 100), fnum(ac[k0]),
                          cmp=env_cmp(1e-7), tag="acov"))
        # simulation with injected shocks: X = psi * eps (test of dlsim on the same padded system)
        if idx % 2 == 0:
            L = ctx.rng.choice([5, 20, 60])
            shocks = [F(ctx.rng.randint(-8, 8), 4) for _ in range(L)]

            class RS(np.random.RandomState):
                def standard_normal(self, size=None):
                    return np.array([float(v) for v in shocks]).reshape(size)
            xs = [float(v) for v in arma.simulation(ts_length=L, random_state=RS(0))]
            pe2 = psi_exact(phi, theta_m, L)
            # dlsim returns the output with the input applied at the same period: x_t = sum_j psi_j sigma eps_{t-j}
            for t in range(L):
                refv = sigma * sum(pe2[j] * shocks[t - j] for j in range(t + 1))
                if not close(xs[t], refv, 1e-8, 8):
                    ctx.spec_fail("arma_simulation", "simulation[%d]=%r, sum_j psi_j sigma eps_(t-j)=%r" % (t, xs[t], float(refv)),
                                  dict(rep, shocks=[str(v) for v in shocks]))
                    break
            ctx.count("test:simulation")
            cases.append(Case("C19 simulate %s sigma=%s eps=%s" % (base, rat(sigma), rats(shocks)), flist(xs),
                              cmp=env_cmp(1e-8, scale=8), tag="simulate"))



def acov_exact(phi, theta, sigma, K):
    """exact autocovariances gamma_0..gamma_{K-1} = sigma^2 sum_j psi_j psi_{j+k} of a stationary ARMA, as the rational
    solution of gamma_k − sum_i phi_i gamma_|k−i| = sigma^2 sum_{j=k..q} theta_j psi_{j−k} (theta_0 = 1), k = 0..p,
    continued by the same recursion (no truncation of the psi series)"""
    p, q = len(phi), len(theta)
    th = [F(1)] + list(theta)
    ps = psi_exact(phi, theta, q + 1)

    def rhs(k):
        return sigma * sigma * sum(th[j] * ps[j - k] for j in range(k, q + 1)) if k <= q else F(0)
    n = p + 1
    A = [[F(0)] * n for _ in range(n)]
    b = []
    for k in range(n):
        A[k][k] += 1
        for i in range(1, p + 1):
            A[k][abs(k - i)] -= phi[i - 1]
        b.append(rhs(k))
    g = solve_frac(A, b)
    while len(g) < K:
        k = len(g)
        g.append(sum(phi[i - 1] * g[k - i] for i in range(1, p + 1)) + rhs(k))
    return g[:K]


def spec_exact(ma, ar, sigma, c, s):
    """sigma^2 |ma(z)|^2 / |ar(z)|^2 at z = e^{-iw} = c − i s, exact"""
    def ev(poly):
        re, im = F(0), F(0)
        zr, zi = F(1), F(0)
        for coef in poly:
            re += coef * zr; im += coef * zi
            zr, zi = zr * c + zi * s, zi * c - zr * s
        return re * re + im * im
    return sigma * sigma * ev(ma) / ev(ar)


# inverse roots (moduli rho) of the persistent stream; autocovariance() is an inverse FFT over a fixed 1200-point
# grid, so the *clean* code carries an aliasing error of about rho^(1200−k)·gamma_0 at lag k: 3e-9 at rho = 251/256
# and k = 200, but 1.5e-6 at rho = 253/256 and 1.6e-4 at rho = 127/128 already at lag 0 (measured).  The oracle's
# tolerance is ACOV_TOL·gamma_0; the stream stays where rho^(1200−K) is two orders of magnitude below it.
PERSISTENT_RHO = [F(61, 64), F(31, 32), F(123, 128), F(125, 128), F(251, 256)]
ACOV_TOL = F(2, 10 ** 7)


def gen_persistent_phi(ctx, p):
    """AR polynomial with exactly one persistent real root or conjugate pair (modulus in PERSISTENT_RHO up to grid
    rounding, at most 251/256), remaining roots of modulus <= 3/4; returns (phi, rho_max as float)"""
    if p >= 2 and ctx.rng.random() < 0.5:
        # conjugate pair a ± bi on the dyadic grid /256 with modulus in [0.95, 0.9805]
        while True:
            a = F(ctx.rng.randint(-250, 250), 256)
            target = ctx.rng.choice(PERSISTENT_RHO)
            b2 = target * target - a * a
            if b2 <= 0:
                continue
            b = F(int(math.sqrt(float(b2)) * 256), 256)
            m2 = a * a + b * b
            if b > 0 and F(95, 100) ** 2 <= m2 <= F(251, 256) ** 2:
                break
        poly = [F(1), -2 * a, m2]
        rho = math.sqrt(float(m2))
        left = p - 2
        ctx.count("arma-persistent:complex-pair")
    else:
        r = ctx.rng.choice(PERSISTENT_RHO) * ctx.rng.choice([1, 1, -1])
        poly = [F(1), -r]
        rho = abs(float(r))
        left = p - 1
        ctx.count("arma-persistent:real-root")
    if left > 0:
        rest = gen_phi(ctx, left)
        poly = poly_mul(poly, [F(1)] + [-c for c in rest])
    return [-c for c in poly[1:]], rho


def arma_persistent_cases(ctx, cases):
    """stationary but persistent processes (an AR root within 2–5 % of the unit circle): autocovariances against the
    exact rational gamma_k, spectral density on the default grids against the exact value at the rational grid points"""
    import warnings
    from quantecon import ARMA
    worst = 0.0
    for it in range(ctx.n(24, 200)):
        p = ctx.rng.randint(1, 4)
        q = ctx.rng.randint(0, 4)
        if it < 4:
            p, q = (1, 0) if it < 2 else (1, 1)       # AR(1) / ARMA(1,1): textbook closed forms
        phi, rho = gen_persistent_phi(ctx, p)
        theta = [F(ctx.rng.randint(-16, 16), 8) for _ in range(q)]
        sigma = F(ctx.rng.choice([1, 2, 3, 1]), ctx.rng.choice([1, 2, 4]))
        if any(F(float(v)) != v for v in phi):
            ctx.count("arma-persistent:skipped-inexact-coefficients")
            continue
        K = ctx.rng.choice([1, 4, 16, 16, 64, 100, 200])
        arma = ARMA([float(v) for v in phi] if (p > 1 or it % 2) else float(phi[0]),
                    [float(v) for v in theta], float(sigma))
        rep = {"op": "acov", "phi": [str(v) for v in phi], "theta": [str(v) for v in theta], "sigma": str(sigma),
               "num_autocov": K, "rho_max": rho}
        with warnings.catch_warnings():
            warnings.simplefilter("ignore")
            ac = [float(v) for v in arma.autocovariance(K)]
            ac_default = [float(v) for v in arma.autocovariance()] if it % 4 == 0 else None
        g = acov_exact(phi, theta, sigma, max(K, 16))
        if it < 4:
            # self-check of the oracle against the closed forms of AR(1) / ARMA(1,1)
            f1, t1 = phi[0], (theta[0] if theta else F(0))
            g0 = sigma * sigma * (1 + 2 * f1 * t1 + t1 * t1) / (1 - f1 * f1)
            g1 = sigma * sigma * (f1 + t1) * (1 + f1 * t1) / (1 - f1 * f1)
            if g[0] != g0 or g[1] != g1 or g[2] != f1 * g1:
                raise AssertionError("oracle self-check: ARMA(1,1) autocovariances")
        bad = None
        if len(ac) != K:
            bad = "autocovariance(%d) returned %d values" % (K, len(ac))
        else:
            for k in range(K):
                err = abs(F(ac[k]) - g[k]) / g[0]
                worst = max(worst, float(err))
                if err > ACOV_TOL:
                    bad = "autocovariance(%d)[%d]=%r, exact sigma^2 sum_j psi_j psi_(j+k)=%r (error %.2e of gamma_0, rho=%.4f)" % (
                        K, k, ac[k], float(g[k]), float(err), rho)
                    break
        if bad is None and ac_default is not None:
            if len(ac_default) != 16 or any(abs(F(a) - b) / g[0] > ACOV_TOL for a, b in zip(ac_default, g)):
                bad = "autocovariance() (default 16 lags) differs from the exact autocovariances"
        if bad:
            ctx.spec_fail("arma_autocovariance", bad, rep)
        ctx.count("test:autocovariance-persistent", K)
        ctx.count("arma-persistent:rho>=0.975" if rho >= 0.975 else "arma-persistent:rho<0.975")
        # spectral density on the default grids at the grid points that are exact rational points of the circle
        ma = [F(1)] + theta
        ar = [F(1)] + [-v for v in phi]
        for two_pi, res in ((True, 1200), (False, 1200), (True, ctx.rng.choice([8, 256, 1024])), (False, ctx.rng.choice([6, 512]))):
            wg, sg = arma.spectral_density(two_pi=two_pi, res=res) if (res != 1200 or not two_pi) else arma.spectral_density()
            top = 2 * math.pi if two_pi else math.pi
            badg = None
            if len(wg) != res or len(sg) != res:
                badg = "%d frequencies, expected %d" % (len(wg), res)
            elif any(abs(float(wg[k]) - top * k / res) > 1e-12 for k in (0, 1, res // 2, res - 1)):
                badg = "frequency grid is not %s*k/res" % ("2pi" if two_pi else "pi")
            else:
                pts = [(0, F(1), F(0))]
                if two_pi:
                    pts += [(res // 4, F(0), F(1)), (res // 2, F(-1), F(0)), (3 * res // 4, F(0), F(-1))] if res % 4 == 0 else []
                else:
                    pts += [(res // 2, F(0), F(1))] if res % 2 == 0 else []
                for k, c, s_ in pts:
                    refv = spec_exact(ma, ar, sigma, c, s_)
                    gv = complex(sg[k])
                    if abs(F(gv.real) - refv) > F(1, 10 ** 9) * refv + F(1, 10 ** 12) or abs(gv.imag) > 1e-9 * float(refv) + 1e-12:
                        badg = "spect[%d]=%r, sigma^2|theta/phi|^2=%r" % (k, gv, float(refv))
                        break
            if badg:
                ctx.spec_fail("arma_spectral_grid", "spectral_density(two_pi=%s, res=%d): %s" % (two_pi, res, badg), dict(rep, res=res))
            ctx.count("test:spectral-density-grid-persistent")
    # one fixed probe beyond the boundary (rho > 251/256): the clean code's own aliasing, dedicated narrow key
    probe_phi, probe_K = F(127, 128), 16
    assert probe_phi > max(PERSISTENT_RHO)
    with warnings.catch_warnings():
        warnings.simplefilter("ignore")
        acp = [float(v) for v in ARMA(float(probe_phi), 0, 1.0).autocovariance(num_autocov=probe_K)]
    gp = acov_exact([probe_phi], [F(0)], F(1), probe_K)
    errp = abs(F(acp[0]) - gp[0]) / gp[0]
    ctx.count("arma-persistent:aliasing-probe")
    if errp > ACOV_TOL:
        ctx.spec_fail("arma_autocovariance_aliasing",
                      "ARMA(phi=127/128).autocovariance(16)[0]=%r, exact gamma_0=%r (error %.2e of gamma_0, rho=127/128 > 251/256)" % (
                          acp[0], float(gp[0]), float(errp)),
                      {"op": "acov", "phi": ["127/128"], "theta": ["0"], "sigma": "1", "num_autocov": probe_K, "lag": 0,
                       "got": acp[0], "exact": str(gp[0])})
    ctx.extra["autocovariance_aliasing_probe_rel_error"] = float(errp)
    ctx.extra["autocovariance_persistent"] = {
        "tolerance_rel_gamma0": float(ACOV_TOL), "worst_observed_rel_error": worst,
        "rho_max_generated": float(max(PERSISTENT_RHO)),
        "boundary": "the code's fixed 1200-point inverse FFT aliases by about rho^(1200-k): above rho ~ 0.9886 the unchanged "
                    "code itself is off by more than 1e-6 of gamma_0 (1.6e-4 at rho=127/128); such processes are not generated"}


# ----------------------------------------------------------------------------------------------------
# object histories: ONE instance, re-parameterised through every route, every answer judged against the
# object's CURRENT parameters; returned arrays are kept and must stay bitwise unchanged and unshared


class Kept:
    """arrays returned earlier by an object: must never change and never share memory with later results"""

    def __init__(self, ctx, key):
        self.ctx, self.key, self.items = ctx, key, []

    def add(self, label, arr, replay):
        arr = np.asarray(arr)
        for lab, old, _b in self.items:
            if np.shares_memory(old, arr):
                self.ctx.spec_fail(self.key + "_aliasing", "result of %s shares memory with the earlier result of %s" % (label, lab), replay)
        self.items.append((label, arr, arr.tobytes()))

    def verify(self, after, replay):
        for lab, old, b in self.items:
            if old.tobytes() != b:
                self.ctx.spec_fail(self.key + "_mutated", "array returned by %s changed after %s" % (lab, after), replay)
                return


def arma_history_cases(ctx, cases):
    import warnings
    from quantecon import ARMA
    GRIDS = [(True, 1200), (True, 8), (False, 8), (True, 16), (False, 4)]
    for hidx in range(ctx.n(10, 80)):
        p, q = ctx.rng.randint(1, 3), ctx.rng.randint(0, 3)
        cur = {"phi": gen_phi(ctx, p), "theta": [F(ctx.rng.randint(-16, 16), 8) for _ in range(q)],
               "sigma": F(ctx.rng.choice([1, 2, 3]), ctx.rng.choice([1, 2, 4]))}
        init = dict(cur)
        arma = ARMA([float(v) for v in cur["phi"]], [float(v) for v in cur["theta"]], float(cur["sigma"]))
        if hidx == 0:
            script = ["grid0", "ss", "grid0", "acov", "ss", "acov", "imp", "sp", "grid0", "par", "grid0", "st", "sim", "ss", "sim",
                      "priv", "grid0", "grid1", "ss", "grid1", "specarr", "ss", "specarr", "imp"]
        elif hidx == 1:
            script = ["acov", "ss", "acov", "grid2", "ss", "grid2", "st", "grid2", "ss", "grid2", "sp", "acov"]
        else:
            script = [ctx.rng.choice(["grid0", "grid1", "grid2", "grid3", "grid4", "grid0", "grid1", "specarr", "acov", "acov", "imp", "sim",
                                      "ss", "ss", "ss", "sp", "st", "par", "priv"]) for _ in range(ctx.rng.randint(10, 24))]
        kept = Kept(ctx, "arma_history")
        wire, impl, trail = [], [], []
        last_query_grid_after = {}        # grid -> True when that grid was queried since the last sigma change
        for step in script:
            trail.append(step)
            rep = {"op": "history", "init": {k: ([str(x) for x in v] if isinstance(v, list) else str(v)) for k, v in init.items()},
                   "history": list(trail), "current": {k: ([str(x) for x in v] if isinstance(v, list) else str(v)) for k, v in cur.items()}}
            ma = [F(1)] + cur["theta"]
            ar = [F(1)] + [-v for v in cur["phi"]]
            if step == "ss":
                cur["sigma"] = F(ctx.rng.choice([1, 2, 3, 5]), ctx.rng.choice([1, 2, 4, 8]))
                arma.sigma = float(cur["sigma"])
                wire.append("ss:%s" % rat(cur["sigma"])); ctx.count("history:sigma-attribute")
                for g in list(last_query_grid_after):
                    last_query_grid_after[g] = "stale-if-memoised"
            elif step == "sp":
                cur["phi"] = gen_phi(ctx, ctx.rng.randint(1, 3))
                arma.phi = float(cur["phi"][0]) if (len(cur["phi"]) == 1 and ctx.rng.random() < 0.5) else [float(v) for v in cur["phi"]]
                wire.append("sp:%s" % rats(cur["phi"])); ctx.count("history:phi-setter")
            elif step == "st":
                cur["theta"] = [F(ctx.rng.randint(-16, 16), 8) for _ in range(ctx.rng.randint(0, 3))]
                arma.theta = [float(v) for v in cur["theta"]]
                wire.append("st:%s" % rats(cur["theta"])); ctx.count("history:theta-setter")
            elif step == "par":
                arma.set_params()
                wire.append("par"); ctx.count("history:set_params")
            elif step == "priv":
                cur["phi"] = gen_phi(ctx, ctx.rng.randint(1, 3))
                cur["theta"] = [F(ctx.rng.randint(-16, 16), 8) for _ in range(ctx.rng.randint(0, 3))]
                arma._phi = [float(v) for v in cur["phi"]]
                arma._theta = [float(v) for v in cur["theta"]]
                arma.set_params()
                wire += ["sp:%s" % rats(cur["phi"]), "st:%s" % rats(cur["theta"]), "par"]; ctx.count("history:stored-fields+set_params")
            elif step == "imp":
                N = ctx.rng.choice([1, 2, 5, 12])
                with np.errstate(all="ignore"):
                    got = arma.impulse_response(N)
                kept.add("impulse_response", got, rep)
                ref = psi_exact(cur["phi"], cur["theta"], N)
                if len(got) != N or any(not close(float(a), b, 1e-9) for a, b in zip(got, ref)):
                    ctx.spec_fail("arma_history_impulse", "impulse_response after %s is not psi of the current parameters" % trail, rep)
                wire.append("imp:%d" % N); impl.append(flist(got)); ctx.count("history:query-impulse")
            elif step.startswith("grid"):
                two_pi, res = GRIDS[int(step[4:])]
                if (two_pi, res) == (True, 1200) and ctx.rng.random() < 0.5:
                    w, sp = arma.spectral_density()
                else:
                    w, sp = arma.spectral_density(two_pi=two_pi, res=res)
                kept.add("spectral_density.w", w, rep); kept.add("spectral_density.spect", sp, rep)
                if last_query_grid_after.get((two_pi, res)) == "stale-if-memoised":
                    ctx.count("history:same-grid-requeried-after-sigma-change")
                last_query_grid_after[(two_pi, res)] = True
                top = 2 * math.pi if two_pi else math.pi
                pts = [(0, F(1), F(0)), (res // 4, F(0), F(1)), (res // 2, F(-1), F(0)), (3 * res // 4, F(0), F(-1))] if two_pi \
                    else [(0, F(1), F(0)), (res // 2, F(0), F(1))]
                bad = None
                if len(w) != res or len(sp) != res or any(abs(float(w[k]) - top * k / res) > 1e-12 for k in range(0, res, max(1, res // 8))):
                    bad = "grid"
                else:
                    for k, c, s_ in pts:
                        refv = spec_exact(ma, ar, cur["sigma"], c, s_)
                        if abs(F(float(np.real(sp[k]))) - refv) > F(1, 10 ** 9) * refv + F(1, 10 ** 12):
                            bad = "spect[%d]=%r, sigma^2|theta/phi|^2 with the current parameters=%r" % (k, complex(sp[k]), float(refv))
                            break
                    if bad is None:
                        z = np.exp(-1j * np.asarray(w, float))
                        hv = np.polyval([float(v) for v in ma][::-1], z) / np.polyval([float(v) for v in ar][::-1], z)
                        refa = float(cur["sigma"]) ** 2 * np.abs(hv) ** 2
                        if not np.allclose(np.real(sp), refa, rtol=1e-8, atol=1e-12):
                            bad = "spectral density on the grid differs from the formula with the current parameters"
                if bad:
                    ctx.spec_fail("arma_history_spectral", "spectral_density(two_pi=%s,res=%d) after %s: %s" % (two_pi, res, trail, bad), rep)
                wire.append("spec:%s:%s" % (rats(c for _k, c, _s in pts), rats(s_ for _k, _c, s_ in pts)))
                impl.append(flist(float(np.real(sp[k])) for k, _c, _s in pts)); ctx.count("history:query-spectral-grid")
            elif step == "specarr":
                cs, ss, ws = [], [], []
                for _k in range(3):
                    a, b, hyp = PYTH[_k]
                    cs.append(F(a, hyp)); ss.append(F(b, hyp)); ws.append(math.atan2(b / hyp, a / hyp))
                w, sp = arma.spectral_density(res=np.array(ws))
                kept.add("spectral_density(array).spect", sp, rep)
                for c, s_, gv in zip(cs, ss, sp):
                    if not close(float(np.real(gv)), spec_exact(ma, ar, cur["sigma"], c, s_), 1e-9):
                        ctx.spec_fail("arma_history_spectral", "spectral_density(res=array) after %s does not use the current parameters" % trail, rep)
                        break
                wire.append("spec:%s:%s" % (rats(cs), rats(ss))); impl.append(flist(float(np.real(v)) for v in sp))
                ctx.count("history:query-spectral-array")
            elif step == "acov":
                K = ctx.rng.choice([1, 4, 16])
                with warnings.catch_warnings():
                    warnings.simplefilter("ignore")
                    ac = arma.autocovariance(K) if K != 16 or ctx.rng.random() < 0.5 else arma.autocovariance()
                kept.add("autocovariance", ac, rep)
                g = acov_exact(cur["phi"], cur["theta"], cur["sigma"], K)
                if len(ac) != K or any(abs(F(float(a)) - b) > ACOV_TOL * g[0] for a, b in zip(ac, g)):
                    ctx.spec_fail("arma_history_autocovariance", "autocovariance(%d) after %s is not gamma of the current parameters "
                                  "(got gamma_0=%r, exact %r)" % (K, trail, float(ac[0]) if len(ac) else None, float(g[0])), rep)
                wire.append("acov:%d:%d" % (K, 100)); impl.append(flist(float(v) for v in ac)); ctx.count("history:query-autocovariance")
            elif step == "sim":
                L = ctx.rng.choice([3, 8])
                shocks = [F(ctx.rng.randint(-8, 8), 4) for _ in range(L)]

                class RS(np.random.RandomState):
                    def standard_normal(self, size=None, shocks=shocks):
                        return np.array([float(v) for v in shocks]).reshape(size)
                xs = arma.simulation(ts_length=L, random_state=RS(0))
                kept.add("simulation", xs, rep)
                pe = psi_exact(cur["phi"], cur["theta"], L)
                ref = [cur["sigma"] * sum(pe[j] * shocks[t - j] for j in range(t + 1)) for t in range(L)]
                if len(xs) != L or any(not close(float(a), b, 1e-8, 8) for a, b in zip(xs, ref)):
                    ctx.spec_fail("arma_history_simulation", "simulation after %s does not use the current parameters" % trail, rep)
                wire.append("sim:%s" % rats(shocks)); impl.append(flist(float(v) for v in xs)); ctx.count("history:query-simulation")
            # after every step: polynomials are those of the current parameters, earlier results untouched
            ma = [F(1)] + cur["theta"]
            ar = [F(1)] + [-v for v in cur["phi"]]
            rep = dict(rep, current={k: ([str(x) for x in v] if isinstance(v, list) else str(v)) for k, v in cur.items()})
            if [F(float(v)) for v in arma.ma_poly] != ma or [F(float(v)) for v in arma.ar_poly][:len(ar)] != ar \
                    or any(float(v) != 0 for v in arma.ar_poly[len(ar):]):
                ctx.spec_fail("arma_history_polys", "ma_poly/ar_poly after %s are not (1,theta)/(1,-phi) of the current parameters" % trail, rep)
            kept.verify(step, rep)
        if impl:
            cases.append(Case("C19 history phi=%s theta=%s sigma=%s ops=%s" % (rats(init["phi"]), rats(init["theta"]), rat(init["sigma"]),
                                                                                ";".join(wire)),
                              "|".join(impl), cmp=env_cmp(1e-7), tag="history"))
        ctx.count("history:objects")


def other_history_cases(ctx, cases):
    """ECDF.observations reassigned, BetaBinomial attributes changed after construction"""
    from quantecon import ECDF
    from quantecon.distributions import BetaBinomial
    for _ in range(ctx.n(6, 40)):
        obs = [F(ctx.rng.randint(-20, 20), 2) for _i in range(ctx.rng.randint(1, 30))]
        e = ECDF([float(v) for v in obs])
        kept = Kept(ctx, "ecdf_history")
        for rnd in range(3):
            xs = [F(ctx.rng.randint(-48, 48), 4) for _k in range(4)] + [ctx.rng.choice(obs)]
            got = e(np.array([float(v) for v in xs]))
            kept.add("ECDF.__call__", got, {"obs": [str(v) for v in obs]})
            for x, gv in zip(xs, got):
                ref = F(sum(1 for o in obs if o <= x), len(obs))
                if F(float(gv)) != F(float(ref)):
                    ctx.spec_fail("ecdf_history", "after reassigning observations (round %d) ECDF(%s)=%r, fraction is %s" % (rnd, x, float(gv), ref),
                                  {"op": "ecdf", "obs": [str(v) for v in obs], "x": str(x), "round": rnd})
            cases.append(Case("C19 ecdf obs=%s x=%s" % (rats(obs), rats(xs)), flist(float(v) for v in got), cmp=env_cmp(2e-16),
                              nontrivial=(len(set(obs)) >= 2), tag="ecdf-history"))
            obs = [F(ctx.rng.randint(-20, 20), 2) for _i in range(ctx.rng.randint(1, 30))]
            e.observations = np.asarray([float(v) for v in obs])
            kept.verify("observations reassigned", {"obs": [str(v) for v in obs]})
            ctx.count("history:ecdf-observations-reassigned")
    for _ in range(ctx.n(6, 40)):
        n, a, b = ctx.rng.randint(1, 40), F(ctx.rng.randint(1, 160), 16), F(ctx.rng.randint(1, 160), 16)
        d = BetaBinomial(n, float(a), float(b))
        kept = Kept(ctx, "bb_history")
        for rnd in range(3):
            pdf = d.pdf()
            kept.add("BetaBinomial.pdf", pdf, {"n": n, "a": str(a), "b": str(b)})
            mean, var, std, skew = float(d.mean), float(d.var), float(d.std), float(d.skew)
            ref = [math.comb(n, k) * rising(a, k) * rising(b, n - k) / rising(a + b, n) for k in range(n + 1)]
            m1 = sum(k * p_ for k, p_ in enumerate(ref))
            m2 = sum((k - m1) ** 2 * p_ for k, p_ in enumerate(ref))
            m3 = sum((k - m1) ** 3 * p_ for k, p_ in enumerate(ref))
            ok = len(pdf) == n + 1 and all(abs(F(float(g_)) - r) <= F(1, 10 ** 8) * r + F(1, 10 ** 300) for g_, r in zip(pdf, ref)) \
                and close(mean, m1, 1e-12) and close(var, m2, 1e-12) and close(F(std) ** 2, m2, 1e-12) \
                and close(F(skew) ** 2, m3 * m3 / m2 ** 3, 1e-11) and ((skew > 0) - (skew < 0)) == ((m3 > 0) - (m3 < 0))
            if not ok:
                ctx.spec_fail("bb_history", "after changing (n,a,b) (round %d) the moments/pdf are not those of the current parameters" % rnd,
                              {"op": "bb", "n": n, "a": str(a), "b": str(b), "round": rnd})
            impl = "%s|%s|%s|%d|%s" % (fnum(mean), fnum(var), fnum(skew * skew), (skew > 0) - (skew < 0), flist(float(v) for v in pdf))
            cases.append(Case("C19 bb n=%d a=%s b=%s" % (n, rat(a), rat(b)), impl, cmp=env_cmp(1e-9, exact_sections=(3,)), tag="bb-history"))
            which = ctx.rng.randrange(4)
            if which in (0, 3):
                n = ctx.rng.randint(1, 40); d.n = n
            if which in (1, 3):
                a = F(ctx.rng.randint(1, 160), 16); d.a = float(a)
            if which in (2, 3):
                b = F(ctx.rng.randint(1, 160), 16); d.b = float(b)
            kept.verify("attributes changed", {"n": n, "a": str(a), "b": str(b)})
            ctx.count("history:bb-attributes-changed")


# ----------------------------------------------------------------------------------------------------
# argument forms and aliasing for every entry point (hardening round): every accepted form is judged by the same
# exact oracles; inputs must stay bitwise unchanged, outputs must not share memory with inputs or earlier outputs


def finding(ctx, key, what, replay):
    """a legal form / history the CLEAN code mishandles: own narrow key; only counted until listed in known_findings"""
    if key in ctx.known:
        ctx.spec_fail(key, what, replay)
    else:
        ctx.count("unlisted-finding:" + key)
        ctx.extra.setdefault("unlisted_findings", {})[key] = {"what": what, "replay": replay}


def _root(a):
    while isinstance(a, np.ndarray) and a.base is not None and isinstance(a.base, np.ndarray):
        a = a.base
    return a


class Guard:
    """snapshot of the memory behind the inputs; after the call: unchanged, and not shared with the outputs"""

    def __init__(self, ctx, key, label, inputs, replay):
        self.ctx, self.key, self.label, self.replay = ctx, key, label, replay
        self.inputs = [a for a in inputs if isinstance(a, np.ndarray)]
        self.snaps = [(_root(a), _root(a).tobytes()) for a in self.inputs]

    def after(self, outputs):
        for r, b in self.snaps:
            if r.tobytes() != b:
                self.ctx.spec_fail(self.key + "_input_mutated", "%s(%s) changed its input" % (self.key, self.label), self.replay)
        for o in outputs:
            if isinstance(o, np.ndarray):
                for a in self.inputs:
                    if np.shares_memory(o, a) or np.shares_memory(o, _root(a)):
                        self.ctx.spec_fail(self.key + "_aliasing", "%s(%s) returned memory of its input" % (self.key, self.label), self.replay)


def array_forms(vals, integer, unsigned_ok=True):
    """(label, object) for one 1-d sample in every accepted container / layout / dtype"""
    f = [float(v) for v in vals]
    n = len(f)
    out = [("f64", np.array(f))]
    a = np.full(2 * n, 9.5); a[::2] = f
    out.append(("strided", a[::2]))
    out.append(("reversed-view", np.array(f[::-1])[::-1]))
    out.append(("F-column", np.asfortranarray(np.column_stack([f, f[::-1]]))[:, 0]))
    out.append(("F-row", np.asfortranarray(np.vstack([f, f[::-1]]))[0, :]))
    out.append(("C-column", np.column_stack([f, f[::-1]])[:, 0]))
    if all(float(np.float32(x)) == x for x in f):
        out.append(("f32", np.array(f, np.float32)))
    if integer:
        lo, hi = min(vals), max(vals)
        for dt in (np.int64, np.int32, np.int16, np.int8, np.intp):
            if np.iinfo(dt).min <= lo and hi <= np.iinfo(dt).max:
                out.append((np.dtype(dt).name, np.array([int(v) for v in vals], dt)))
        if unsigned_ok and lo >= 0:
            for dt in (np.uint8, np.uint16, np.uint32, np.uint64):
                if hi <= np.iinfo(dt).max:
                    out.append((np.dtype(dt).name, np.array([int(v) for v in vals], dt)))
    out.append(("list", f if not integer else [int(v) for v in vals]))
    out.append(("tuple", tuple(f)))
    return out


INT_TYPES = [int, np.int8, np.int16, np.int32, np.int64, np.uint8, np.uint16, np.uint32, np.uint64, np.intp]


def smooth_exact(x, wl, window):
    wle = wl + 1 if wl % 2 == 0 else wl
    k = wle // 2
    wts = [F(1)] * wle if window == "flat" else [1 - abs(F(2 * i, wle - 1) - 1) for i in range(wle)]
    tot = sum(wts)
    ext = x[:k][::-1] + x + x[-k:][::-1]
    return [sum(wts[j] * ext[i + j] for j in range(wle)) / tot for i in range(len(x))]


def hamilton_bad(y, h, p, cyc, trd, tol=1e-7):
    T = len(y)
    cyc, trd = [float(v) for v in cyc], [float(v) for v in trd]
    scale = max(abs(v) for v in y) or 1
    nn = (p + h - 1) if p is not None else h
    if len(cyc) != T or len(trd) != T:
        return "lengths"
    if any(not math.isnan(v) for v in cyc[:nn] + trd[:nn]) or any(math.isnan(v) for v in cyc[nn:] + trd[nn:]):
        return "nan prefix"
    if any(not close(F(c) + F(t), v, 1e-6 if tol > 1e-7 else 1e-13, scale) for c, t, v in zip(cyc[nn:], trd[nn:], y[nn:])):
        return "cycle + trend != data"
    if p is None:
        if any(F(cyc[t]) != y[t] - y[t - h] for t in range(h, T)) or any(F(trd[t]) != y[t - h] for t in range(h, T)):
            return "not the h-step difference"
        return None
    rows = T - p - h + 1
    X = [[F(1)] + [y[p - j + t] for j in range(1, p + 1)] for t in range(rows)]
    tgt = [y[p + h - 1 + t] for t in range(rows)]
    XtX = [[sum(X[t][i] * X[t][j] for t in range(rows)) for j in range(p + 1)] for i in range(p + 1)]
    Xty = [sum(X[t][i] * tgt[t] for t in range(rows)) for i in range(p + 1)]
    b = solve_frac(XtX, Xty)
    fit = [sum(X[t][j] * b[j] for j in range(p + 1)) for t in range(rows)]
    if any(not close(trd[nn + t], fit[t], tol, scale) for t in range(rows)):
        return "trend is not the OLS projection"
    return None


def forms_cases(ctx, cases):
    import warnings
    from quantecon._inequality import gini_coefficient, lorenz_curve, shorrocks_index, rank_size
    from quantecon import hamilton_filter, periodogram, ar_periodogram, ECDF, ARMA
    from quantecon._estspec import smooth
    from quantecon.distributions import BetaBinomial
    from .common import ratm
    kept = Kept(ctx, "forms")

    # ---- gini / lorenz / rank_size: integer-valued and dyadic samples in every form ----------------------------
    rot_all = ["f64-noncontiguous", "int64", "int32", "int16", "int8", "f32", "uint16", "uint32", "uint64"]
    jit_rot = {rot_all[ctx.seed % len(rot_all)]}
    for rnd in range(ctx.n(2, 8)):
        integer = (rnd % 2 == 0)
        n = ctx.rng.choice([2, 6, 17]) if rnd else 6
        vals = [F(ctx.rng.randint(0 if rnd % 4 == 0 else 1, 100)) for _ in range(n)] if integer else [F(ctx.rng.randint(1, 800), 8) for _ in range(n)]
        if rnd == 0:
            vals[1] = F(0)                   # an explicit zero observation (unsigned rank_size probe)
        if sum(vals) == 0:
            vals[0] = F(3)
        ge = gini_exact(vals)
        ys = sorted(vals); tot = sum(ys)
        ref_i, acc = [F(0)], F(0)
        for v in ys:
            acc += v; ref_i.append(acc / tot)
        for label, obj in array_forms(vals, integer):
            rep = {"fn": "gini/lorenz/rank_size", "form": label, "y": [str(v) for v in vals]}
            tol = 1e-6 if label == "f32" else 1e-12
            # every (dtype, layout) signature is a separate Numba compilation (~3 s each for the two kernels): the quick
            # tier takes the baseline, uint8 and two signatures rotating with the seed; thorough takes all of them
            sig = label if label not in ("strided", "reversed-view", "F-row", "C-column") else "f64-noncontiguous"
            sig = "f64" if sig == "F-column" else ("int64" if sig == "intp" else sig)
            jit_on = ctx.thorough or sig in ("f64", "uint8") or sig in jit_rot
            unsigned = label.startswith("uint")
            # rank_size (not jitted): every form, lists / tuples and unsigned dtypes included
            for c in (1.0, 0.5):
                g = Guard(ctx, "rank_size_forms", label, [obj], rep)
                try:
                    rk, sz = rank_size(obj, c=c)
                except TypeError as e:
                    ctx.spec_fail("rank_size_list_input", "rank_size(%s) raises TypeError (%s) although data is documented array_like" % (label, e),
                                  dict(rep, call="rank_size(%r)" % (obj,)))
                    break
                g.after([rk, sz]); kept.add("rank_size.size", sz, rep)
                k = int(n * c)
                if [int(v) for v in rk] != list(range(1, k + 1)) or [F(float(v)) for v in sz] != sorted(vals, reverse=True)[:k]:
                    key = "rank_size_unsigned_zero" if (unsigned and 0 in vals) else "rank_size_forms"
                    ctx.spec_fail(key, "rank_size(%s input, c=%s) is not the top observations in decreasing order: %s" % (
                        label, c, [float(v) for v in sz]), dict(rep, call="rank_size(<%s of %s>, c=%s)" % (label, [float(v) for v in vals], c)))
            ctx.count("forms:rank_size:" + label)
            if label in ("list", "tuple"):
                if ctx.thorough:          # (the failed Numba typing of a list costs a compilation: thorough tier only)
                    for fn in (gini_coefficient, lorenz_curve):
                        try:
                            fn(obj)
                            ctx.count("forms:gini/lorenz:%s-accepted" % label)
                        except Exception:
                            ctx.count("forms:rejected:%s:%s" % (fn.__name__, label))     # Numba: no reflected lists / tuples
                continue
            if not jit_on:
                continue
            ctx.count("forms:jit-signature:" + sig)
            g = Guard(ctx, "gini_forms", label, [obj], rep)
            got = float(gini_coefficient(obj))
            g.after([])
            if not close(got, ge, tol):
                ctx.spec_fail("gini_unsigned_dtype" if unsigned else "gini_forms", "gini_coefficient(%s input)=%r, exact %r" % (label, got, float(ge)),
                              dict(rep, call="gini_coefficient(np.array(%s, %s))" % ([float(v) for v in vals], label)))
            if sig == "uint8" and not ctx.thorough:
                ctx.count("forms:gini:" + label)
                continue
            g = Guard(ctx, "lorenz_forms", label, [obj], rep)
            cp, ci = lorenz_curve(obj)
            g.after([cp, ci]); kept.add("lorenz.people", cp, rep); kept.add("lorenz.income", ci, rep)
            if len(cp) != n + 1 or any(not close(float(a), F(i, n), tol) for i, a in enumerate(cp)) \
                    or any(not close(float(a), b, tol) for a, b in zip(ci, ref_i)):
                ctx.spec_fail("lorenz_forms", "lorenz_curve(%s input) differs from the cumulative shares" % label, rep)
            ctx.count("forms:gini/lorenz:" + label)
        v2 = [F(ctx.rng.randint(1, 800), 8) for _ in range(n)]          # same shape, different data, same process
        a2 = np.array([float(v) for v in v2])
        g2 = float(gini_coefficient(a2)); cp2, ci2 = lorenz_curve(a2)
        tot2 = sum(v2); acc = F(0); ref2 = [F(0)]
        for v in sorted(v2):
            acc += v; ref2.append(acc / tot2)
        if not close(g2, gini_exact(v2), 1e-12) or any(not close(float(a), b, 1e-12) for a, b in zip(ci2, ref2)):
            ctx.spec_fail("gini_forms", "second call on a sample of the same length is wrong", {"y": [str(v) for v in v2]})
        kept.add("lorenz.income", ci2, {}); kept.add("lorenz.people", cp2, {})
        cases.append(Case("C19 gini y=%s" % rats(vals), fnum(float(gini_coefficient(np.array([float(v) for v in vals])))),
                          cmp=env_cmp(1e-12), tag="gini-forms"))
    # rank_size: every scalar form of c, omitted / positional / keyword
    dat = np.array([3.0, 1.0, 2.0, 5.0, 4.0, 4.0])
    for c, k in [(1, 6), (True, 6), (np.float32(0.5), 3), (np.float64(0.5), 3), (np.array(0.5), 3), (np.int8(1), 6), (np.uint8(1), 6),
                 (np.float64(0.0), 0), (0.999, 5)]:
        for call in (lambda: rank_size(dat, c), lambda: rank_size(dat, c=c), lambda: rank_size(data=dat, c=c)):
            rk, sz = call()
            if list(sz) != sorted(dat, reverse=True)[:k] or [int(v) for v in rk] != list(range(1, k + 1)):
                ctx.spec_fail("rank_size_forms", "rank_size(c=%r) wrong" % (c,), {"c": repr(c)})
        ctx.count("forms:rank_size:c-scalar-forms")
    if list(rank_size(dat)[1]) != sorted(dat, reverse=True):
        ctx.spec_fail("rank_size_forms", "rank_size(data) with c omitted is not the whole sample", {})

    # ---- shorrocks_index: containers, layouts, dtypes ----------------------------------------------------------
    for rnd in range(ctx.n(2, 8)):
        m = ctx.rng.randint(2, 5)
        integer = rnd % 2 == 1
        if integer:      # 0/1 transition matrix (each row moves to one class)
            tgt_ = [ctx.rng.randrange(m) for _i in range(m)]
            A = [[F(1) if j == tgt_[i] else F(0) for j in range(m)] for i in range(m)]
        else:            # dyadic stochastic rows
            A = []
            for _i in range(m):
                cuts = sorted(ctx.rng.randint(0, 16) for _j in range(m - 1))
                A.append([F(b_ - a_, 16) for a_, b_ in zip([0] + cuts, cuts + [16])])
        ref = (m - sum(A[i][i] for i in range(m))) / F(m - 1)
        Af = np.array([[float(v) for v in r] for r in A])
        big = np.kron(Af, np.ones((2, 2)))
        forms = [("list", [[float(v) for v in r] for r in A]), ("tuple", tuple(tuple(float(v) for v in r) for r in A)), ("C", Af.copy()),
                 ("F", np.asfortranarray(Af)), ("transposed-view", np.ascontiguousarray(Af.T).T), ("strided", big[::2, ::2]),
                 ("f32", Af.astype(np.float32)), ("matrix", np.matrix(Af))]
        if integer:
            forms += [(np.dtype(dt).name, Af.astype(dt)) for dt in (np.int8, np.int32, np.int64, np.uint8, np.uint64)]
        for label, obj in forms:
            rep = {"fn": "shorrocks_index", "form": label, "A": [[str(v) for v in r] for r in A]}
            g = Guard(ctx, "shorrocks_forms", label, [obj], rep)
            with warnings.catch_warnings():
                warnings.simplefilter("ignore")
                got = float(shorrocks_index(obj))
            g.after([])
            if not close(got, ref, 1e-6 if label == "f32" else 1e-14):
                ctx.spec_fail("shorrocks_forms", "shorrocks_index(%s input)=%r, (m-trace)/(m-1)=%s" % (label, got, ref), rep)
            ctx.count("forms:shorrocks:" + label)
        cases.append(Case("C19 shorrocks A=%s" % ratm(A), fnum(float(shorrocks_index(Af))), cmp=env_cmp(1e-15), tag="shorrocks-forms"))

    # ---- hamilton_filter: data forms, every integer type for h and p, omitted / None / positional / keyword ----
    for rnd in range(ctx.n(2, 6)):
        T = ctx.rng.randint(20, 60)
        yv = [F(ctx.rng.randint(-40, 40)) for _ in range(T)]
        h, p = ctx.rng.randint(1, 6), ctx.rng.randint(1, 3)
        forms = [f_ for f_ in array_forms(yv, True, unsigned_ok=False)]
        try:
            import pandas as pd
            forms.append(("pandas-Series", pd.Series([float(v) for v in yv])))
        except ImportError:
            pd = None
        for label, obj in forms:
            for pp in (p, None):
                rep = {"fn": "hamilton_filter", "form": label, "y": [str(v) for v in yv], "h": h, "p": pp}
                g = Guard(ctx, "hamilton_forms", label, [obj], rep)
                cyc, trd = hamilton_filter(obj, h, pp) if pp is not None else hamilton_filter(obj, h)
                g.after([cyc, trd]); kept.add("hamilton.cycle", cyc, rep); kept.add("hamilton.trend", trd, rep)
                bad = hamilton_bad(yv, h, pp, cyc, trd)
                if bad:
                    ctx.spec_fail("hamilton_forms", "hamilton_filter(%s data, h=%d, p=%s): %s" % (label, h, pp, bad), rep)
            ctx.count("forms:hamilton:data-" + label)
        yarr = np.array([float(v) for v in yv])
        # same shapes, different data, same process (a result cached on (T, h, p) would be stale); boundary p = 0
        y2 = [F(ctx.rng.randint(-40, 40)) for _ in range(T)]
        y2a = np.array([float(v) for v in y2])
        for pp in (p, None, 0):
            rep = {"fn": "hamilton_filter", "form": "second call, same shape", "y": [str(v) for v in y2], "h": h, "p": pp}
            g = Guard(ctx, "hamilton_forms", "second-call", [y2a], rep)
            c_, t_ = hamilton_filter(y2a, h, pp)
            g.after([c_, t_]); kept.add("hamilton.cycle", c_, rep); kept.add("hamilton.trend", t_, rep)
            bad = hamilton_bad(y2, h, pp, c_, t_)
            if bad:
                ctx.spec_fail("hamilton_forms", "hamilton_filter on a second series of the same length (h=%d, p=%s): %s" % (h, pp, bad), rep)
        c_, t_ = hamilton_filter(yarr, h, 0)
        if hamilton_bad(yv, h, 0, c_, t_):
            ctx.spec_fail("hamilton_forms", "hamilton_filter(p=0) is not the projection on the constant", {"y": [str(v) for v in yv], "h": h, "p": 0})
        cases.append(Case("C19 hamilton y=%s h=%d p=0" % (rats(yv), h), flist(c_) + "|" + flist(t_), cmp=env_cmp(1e-7, scale=40), tag="hamilton-p0"))
        ctx.count("forms:hamilton:p=0-and-second-call")
        ref_c, ref_t = hamilton_filter(yarr, h, p)
        ref_c0, ref_t0 = hamilton_filter(yarr, h)
        if hamilton_bad(yv, h, p, ref_c, ref_t) or hamilton_bad(yv, h, None, ref_c0, ref_t0):
            ctx.spec_fail("hamilton_forms", "hamilton_filter reference call wrong", {"y": [str(v) for v in yv], "h": h, "p": p})
        for ty in INT_TYPES:
            calls = {"positional": lambda: hamilton_filter(yarr, ty(h), ty(p)), "keyword": lambda: hamilton_filter(data=yarr, h=ty(h), p=ty(p)),
                     "mixed": lambda: hamilton_filter(yarr, h=ty(h), p=p)}
            for cl, call in calls.items():
                c_, t_ = call()
                if not (np.array_equal(c_, ref_c, equal_nan=True) and np.array_equal(t_, ref_t, equal_nan=True)):
                    ctx.spec_fail("hamilton_forms", "hamilton_filter(h=%s(%d), p=%s(%d)) [%s] differs from the Python-int call" % (ty.__name__, h, ty.__name__, p, cl),
                                  {"y": [str(v) for v in yv], "h": h, "p": p, "type": ty.__name__})
            for call in (lambda: hamilton_filter(yarr, ty(h)), lambda: hamilton_filter(yarr, ty(h), None), lambda: hamilton_filter(yarr, h=ty(h), p=None)):
                c_, t_ = call()
                if not (np.array_equal(c_, ref_c0, equal_nan=True) and np.array_equal(t_, ref_t0, equal_nan=True)):
                    ctx.spec_fail("hamilton_forms", "hamilton_filter(h=%s(%d)) without p differs from the Python-int call" % (ty.__name__, h),
                                  {"y": [str(v) for v in yv], "h": h, "type": ty.__name__})
            ctx.count("forms:hamilton:h,p-" + ty.__name__)
        cases.append(Case("C19 hamilton y=%s h=%d p=%d" % (rats(yv), h, p), flist(ref_c) + "|" + flist(ref_t),
                          cmp=env_cmp(1e-7, scale=40), tag="hamilton-forms"))
    # probes beyond what the clean code handles (own keys)
    y200 = np.arange(200.0) ** 1.5
    for ty in (np.int8,):
        try:
            c_, t_ = hamilton_filter(y200, ty(2), ty(1))
            if not np.array_equal(c_, hamilton_filter(y200, 2, 1)[0], equal_nan=True):
                finding(ctx, "hamilton_small_int_overflow", "hamilton_filter(T=200, h=int8(2), p=int8(1)) differs from the Python-int call", {})
        except OverflowError as e:
            finding(ctx, "hamilton_small_int_overflow", "hamilton_filter(np.arange(200.)**1.5, np.int8(2), np.int8(1)) raises OverflowError (%s): "
                    "T - p is evaluated in int8" % e, {"call": "hamilton_filter(np.arange(200.)**1.5, np.int8(2), np.int8(1))"})
    if pd is not None:
        try:
            c_, t_ = hamilton_filter(pd.DataFrame({"a": [float(v) for v in range(30)]}), 2, 1)
            if np.shape(c_) not in ((30,), (30, 1)):
                finding(ctx, "hamilton_dataframe", "hamilton_filter(one-column DataFrame) returned shape %s" % (np.shape(c_),), {})
        except ValueError as e:
            finding(ctx, "hamilton_dataframe", "hamilton_filter(one-column DataFrame, 2, 1) raises ValueError (%s) although the docstring says "
                    "'array or dataframe'" % str(e)[:80], {"call": "hamilton_filter(pd.DataFrame({'a': range(30)}, dtype=float), 2, 1)"})

    # ---- periodogram / smooth / ar_periodogram ------------------------------------------------------------------
    for rnd in range(ctx.n(2, 6)):
        n = ctx.rng.choice([8, 21, 30, 45])
        xv = [F(ctx.rng.randint(-32, 32)) for _ in range(n)]
        xf = np.array([float(v) for v in xv])
        tgrid = np.arange(n)
        refI = np.array([abs(np.sum(xf * np.exp(-2j * np.pi * j * tgrid / n))) ** 2 / n for j in range(n // 2 + 1)])
        sm_ref = {(wl, wn): smooth_exact(xv, wl, wn) for wl in (3, 4, 5) for wn in ("flat", "bartlett")}
        Xr = np.column_stack([np.ones(n - 1), xf[:-1]])
        beta = np.linalg.lstsq(Xr, xf[1:], rcond=None)[0]
        for label, obj in array_forms(xv, True, unsigned_ok=False):
            rep = {"fn": "periodogram/smooth/ar_periodogram", "form": label, "x": [str(v) for v in xv]}
            tol = 1e-4 if label == "f32" else 1e-9
            g = Guard(ctx, "periodogram_forms", label, [obj], rep)
            w, I = periodogram(obj)
            g.after([w, I]); kept.add("periodogram.w", w, rep); kept.add("periodogram.I", I, rep)
            sc = max(1.0, float(np.sum(xf * xf)))
            if len(w) != n // 2 + 1 or np.max(np.abs(np.asarray(w, float) - 2 * np.pi * np.arange(n // 2 + 1) / n)) > 1e-6 \
                    or np.max(np.abs(np.asarray(I, float) - refI)) > tol * sc:
                ctx.spec_fail("periodogram_forms", "periodogram(%s input) differs from |DFT|^2/n at 2 pi j/n" % label, rep)
            for wl in (3, 4, 5):
                for wn in ("flat", "bartlett"):
                    buf = io.StringIO()
                    g = Guard(ctx, "smooth_forms", label, [obj], rep)
                    with contextlib.redirect_stdout(buf):
                        out = smooth(obj, wl, wn) if wl != 5 else smooth(obj, window_len=wl, window=wn)
                    g.after([out]); kept.add("smooth", out, rep)
                    if len(out) != n or any(not close(float(a), b, 1e-5 if label == "f32" else 1e-12, 32) for a, b in zip(out, sm_ref[(wl, wn)])):
                        ctx.spec_fail("smooth_forms", "smooth(%s input, %d, %s) is not the reflected weighted moving average" % (label, wl, wn), rep)
            # windowed periodogram = smooth(periodogram); window positional / keyword / None / omitted
            w1, I1 = periodogram(obj, "flat", 3)
            w2, I2 = periodogram(obj, window="flat", window_len=3)
            w3, I3 = periodogram(obj, None)
            refw = smooth(np.asarray(refI), 3, "flat")
            if not (np.allclose(I1, refw, rtol=0, atol=tol * sc) and np.array_equal(I1, I2) and np.array_equal(np.asarray(I3), np.asarray(I))):
                ctx.spec_fail("periodogram_forms", "periodogram(%s input) window argument forms disagree" % label, rep)
            g = Guard(ctx, "ar_periodogram_forms", label, [obj], rep)
            wa, Ia = ar_periodogram(obj, "flat", 3)
            g.after([wa, Ia]); kept.add("ar_periodogram.I", Ia, rep)
            e = xf[1:] - Xr @ beta
            we, Ie = periodogram(e, "flat", 3)
            refA = Ie / np.abs(1 - beta[1] * np.exp(1j * we)) ** 2
            if len(Ia) != len(refA) or not np.allclose(Ia, refA, rtol=1e-3 if label == "f32" else 1e-6, atol=1e-9 * float(np.max(np.abs(refA)))):
                ctx.spec_fail("ar_periodogram_forms", "ar_periodogram(%s input) differs from the recoloured periodogram of the AR(1) residuals" % label, rep)
            ctx.count("forms:periodogram/smooth/ar_periodogram:" + label)
        x2 = [F(ctx.rng.randint(-32, 32)) for _ in range(n)]
        x2f = np.array([float(v) for v in x2])
        w2_, I2_ = periodogram(x2f)
        refI2 = np.array([abs(np.sum(x2f * np.exp(-2j * np.pi * j * tgrid / n))) ** 2 / n for j in range(n // 2 + 1)])
        s2_ = smooth_quiet(smooth, x2f, 4, "bartlett")
        if np.max(np.abs(I2_ - refI2)) > 1e-9 * max(1.0, float(np.sum(x2f * x2f))) \
                or any(not close(float(a), b, 1e-12, 32) for a, b in zip(s2_, smooth_exact(x2, 4, "bartlett"))):
            ctx.spec_fail("periodogram_forms", "second call on a series of the same length is wrong", {"x": [str(v) for v in x2]})
        kept.add("periodogram.I", I2_, {}); kept.add("smooth", s2_, {})
        for ty in INT_TYPES:
            buf = io.StringIO()
            with contextlib.redirect_stdout(buf):
                for wl in (3, 4):
                    a1 = smooth(xf, ty(wl), "bartlett")
                    if any(not close(float(a), b, 1e-12, 32) for a, b in zip(a1, sm_ref[(wl, "bartlett")])):
                        ctx.spec_fail("smooth_forms", "smooth(window_len=%s(%d)) wrong" % (ty.__name__, wl), {"x": [str(v) for v in xv], "type": ty.__name__})
                if not np.array_equal(periodogram(xf, "flat", ty(3))[1], periodogram(xf, "flat", 3)[1]) \
                        or not np.array_equal(ar_periodogram(xf, "flat", ty(3))[1], ar_periodogram(xf, "flat", 3)[1]):
                    ctx.spec_fail("periodogram_forms", "window_len=%s(3) differs from window_len=3" % ty.__name__, {"type": ty.__name__})
            ctx.count("forms:smooth:window_len-" + ty.__name__)
        cases.append(Case("C19 smooth x=%s wl=4 window=bartlett" % rats(xv), flist(float(v) for v in smooth_quiet(smooth, xf, 4, "bartlett")),
                          cmp=env_cmp(1e-12, scale=32), tag="smooth-forms"))

    # ---- ECDF / BetaBinomial / ARMA argument forms -------------------------------------------------------------
    obs = [F(ctx.rng.randint(0, 9)) for _ in range(12)]
    xs = [F(ctx.rng.randint(-1, 10)) for _ in range(5)]
    ref = [F(sum(1 for o in obs if o <= x), len(obs)) for x in xs]
    for label, obj in array_forms(obs, True):
        e = ECDF(obj)
        for xl, xo in array_forms(xs, True, unsigned_ok=False):
            g = Guard(ctx, "ecdf_forms", label + "/" + xl, [obj, xo], {})
            got = e(xo)
            g.after([got])
            if [F(float(v)) for v in np.ravel(got)] != [F(float(r)) for r in ref]:
                ctx.spec_fail("ecdf_forms", "ECDF(%s observations)(%s x) wrong" % (label, xl), {"obs": [str(v) for v in obs], "x": [str(v) for v in xs]})
        for sc_ in (int(xs[0]), float(xs[0]), np.float32(xs[0]), np.float64(xs[0]), np.int8(xs[0]), np.int64(xs[0]), np.array(float(xs[0]))):
            if F(float(e(sc_))) != F(float(ref[0])):
                ctx.spec_fail("ecdf_forms", "ECDF(%s observations)(scalar %r) wrong" % (label, sc_), {"obs": [str(v) for v in obs], "x": repr(sc_)})
        ctx.count("forms:ecdf:" + label)
    n_, a_, b_ = 20, F(2), F(3)
    refd = BetaBinomial(20, 2.0, 3.0)
    refv = (float(refd.mean), float(refd.var), float(refd.std), float(refd.skew), refd.pdf())
    for nt in INT_TYPES + [np.float64]:
        for at in (int, float, np.float32, np.float64, np.int64):
            d = BetaBinomial(nt(n_), at(2), at(3))
            try:
                with warnings.catch_warnings():
                    warnings.simplefilter("ignore")
                    if nt is np.float64:
                        got = (float(d.mean), float(d.var), float(d.std), float(d.skew), refv[4])
                    else:
                        got = (float(d.mean), float(d.var), float(d.std), float(d.skew), d.pdf())
                okv = all(abs(x - y) <= 1e-6 * max(1, abs(y)) for x, y in zip(got[:4], refv[:4])) and np.allclose(got[4], refv[4], rtol=1e-6)
            except (ValueError, ZeroDivisionError) as e_:
                got, okv = ("raised %s: %s" % (type(e_).__name__, e_),), False
            if not okv:
                if nt in (np.int8, np.uint8) or (nt in (np.int16, np.uint16) and at in (int, np.int64)):
                    ctx.spec_fail("bb_small_int_n", "BetaBinomial(%s(20), %s(2), %s(3)): mean/var/std/skew=%r, exact %r (small-integer arithmetic overflows)" % (
                        nt.__name__, at.__name__, at.__name__, got[:4], refv[:4]), {"call": "BetaBinomial(np.%s(20), %s(2), %s(3))" % (nt.__name__, at.__name__, at.__name__)})
                else:
                    ctx.spec_fail("bb_forms", "BetaBinomial(n=%s, a,b=%s) differs from the Python-number result" % (nt.__name__, at.__name__),
                                  {"n": 20, "a": 2, "b": 3, "ntype": nt.__name__, "atype": at.__name__})
        ctx.count("forms:bb:n-" + nt.__name__)
    for (nn_, aa, bb) in [(np.int8(60), 2, 3), (np.int8(100), 2.0, 3.0), (np.uint8(200), 2.0, 3.0)]:
        d, r_ = BetaBinomial(nn_, aa, bb), BetaBinomial(int(nn_), aa, bb)
        rv = (float(r_.var), float(r_.skew))
        try:
            with warnings.catch_warnings():
                warnings.simplefilter("ignore")
                gv = (float(d.var), float(d.skew))
        except (ValueError, ZeroDivisionError) as e_:
            gv = (float("nan"), float("nan"))
        if any(not abs(x - y) <= 1e-9 * max(1, abs(y)) for x, y in zip(gv, rv)):
            ctx.spec_fail("bb_small_int_n", "BetaBinomial(%r, %r, %r): var, skew = %r, with a Python int n %r" % (nn_, aa, bb, gv, rv),
                    {"call": "BetaBinomial(%r, %r, %r)" % (nn_, aa, bb)})
    # ARMA: every container / scalar form of phi, theta, sigma and of the integer arguments
    phi, theta, sigma = [F(1, 2), F(-1, 4)], [F(1, 4)], F(2)
    pe = psi_exact(phi, theta, 6)
    ge_ = acov_exact(phi, theta, sigma, 4)
    pf = [float(v) for v in phi]
    phi_forms = [("list", pf), ("tuple", tuple(pf)), ("f64", np.array(pf)), ("f32", np.array(pf, np.float32)), ("strided", np.array([0.5, 9, -0.25, 9])[::2]),
                 ("row-2d", np.array([pf]))]
    th_forms = [[0.25], (0.25,), 0.25, np.float32(0.25), np.float64(0.25), np.array(0.25), np.array([0.25], np.float32)]
    sg_forms = [2, 2.0, np.float32(2), np.int8(2), np.uint64(2), np.array(2.0)]
    nt_forms = [int, np.int8, np.uint8, np.int64, np.uint64, np.intp, np.int16, np.uint32]
    combos = [(i % len(phi_forms), i % len(th_forms), (i // 2) % len(sg_forms), i % len(nt_forms)) for i in range(ctx.n(14, 56))]
    for (i1, i2, i3, i4) in combos:
        label, ph = phi_forms[i1]
        for th in (th_forms[i2],):
            for sg in (sg_forms[i3],):
                a = ARMA(ph, th, sg)
                for nt in (nt_forms[i4],):
                    with warnings.catch_warnings():
                        warnings.simplefilter("ignore")
                        ir = a.impulse_response(nt(6)); ac = a.autocovariance(nt(4)); w_, sp = a.spectral_density(True, nt(4)); sm = a.simulation(nt(3), 5)
                    f32 = label == "f32" or isinstance(th, np.float32) or getattr(th, "dtype", None) == np.float32
                    t9, tA = (1e-5, F(1, 10 ** 5)) if f32 else (1e-9, ACOV_TOL)
                    okk = len(ir) == 6 and all(close(float(x), y, t9) for x, y in zip(ir, pe)) \
                        and len(ac) == 4 and all(abs(F(float(x)) - y) <= tA * ge_[0] for x, y in zip(ac, ge_)) \
                        and len(sp) == 4 and close(float(np.real(sp[0])), spec_exact([F(1)] + theta, [F(1), -phi[0], -phi[1]], sigma, F(1), F(0)), t9) \
                        and close(float(np.real(sp[1])), spec_exact([F(1)] + theta, [F(1), -phi[0], -phi[1]], sigma, F(0), F(1)), t9) and len(sm) == 3
                    if not okk:
                        ctx.spec_fail("arma_forms", "ARMA(phi as %s, theta=%r, sigma=%r) with %s arguments: wrong answers" % (label, th, sg, nt.__name__),
                                      {"phi": pf, "theta": repr(th), "sigma": repr(sg), "inttype": nt.__name__})
        ctx.count("forms:arma:phi-" + label)
    for label, ph in [("python-float", 0.5), ("np.float32", np.float32(0.5)), ("np.float64", np.float64(0.5)), ("0-d array", np.array(0.5)),
                      ("leading-zero list", [0, 0.5]), ("int zeros", np.array([0, 0]))]:
        a = ARMA(ph, 0.25)
        cur_phi = [F(float(v)) for v in np.atleast_1d(np.asarray(ph, float)).ravel()]
        with warnings.catch_warnings():
            warnings.simplefilter("ignore")
            ir = a.impulse_response(5)
        if any(not close(float(x), y, 1e-9) for x, y in zip(ir, psi_exact(cur_phi, [F(1, 4)], 5))):
            ctx.spec_fail("arma_forms", "ARMA(phi=%s) impulse response wrong" % label, {"phi": repr(ph)})
        ctx.count("forms:arma:phi-" + label)
    a = ARMA(0.5)
    if not (np.array_equal(a.simulation(5, 7), a.simulation(ts_length=5, random_state=7))
            and np.array_equal(a.simulation(5, np.random.RandomState(7)), a.simulation(5, 7)) and len(a.simulation(4, np.random.default_rng(1))) == 4
            and len(a.simulation()) == 90 and len(a.impulse_response()) == 30 and len(a.autocovariance()) == 16 and len(a.spectral_density()[0]) == 1200):
        ctx.spec_fail("arma_forms", "ARMA default / seed argument forms disagree", {})
    kept.verify("all forms", {})


def smooth_quiet(smooth, x, wl, wn):
    with contextlib.redirect_stdout(io.StringIO()):
        return smooth(x, wl, wn)


# ----------------------------------------------------------------------------------------------------
# scale: power-of-two rescaling is exact in doubles, so every scale-free output must be unchanged (bitwise where
# the operation order is fixed) and every linear output must scale exactly; tiny- and huge-sum samples are judged by
# the Fraction definition (an 'almost zero' guard with an absolute tolerance fails here)

SCALE_EXPS = [-200, -100, -60, -50, -44, -40, -30, -20, 20, 60, 100, 200]


def scale_cases(ctx, cases):
    from quantecon._inequality import gini_coefficient, lorenz_curve
    from quantecon import hamilton_filter, periodogram, ECDF
    from quantecon._estspec import smooth

    def lorenz_ref(y):
        ys = sorted(y); tot = sum(ys); acc = F(0); out = [F(0)]
        for v in ys:
            acc += v; out.append(acc / tot)
        return out

    def judge(y, tag, rep):
        """gini and Lorenz ordinates of the sample of exact doubles `y` against the Fraction definition"""
        yf = np.array([float(v) for v in y])
        g = float(gini_coefficient(yf))
        cp, ci = lorenz_curve(yf)
        ge = gini_exact(y)
        if not close(g, ge, 1e-12):
            ctx.spec_fail("gini_scale", "gini_coefficient=%r on a sample with sum %.3e; mean-abs-difference/(2 mean)=%r (%s)" % (
                g, float(sum(y)), float(ge), tag), rep)
        ref = lorenz_ref(y)
        if len(ci) != len(y) + 1 or any(not close(float(a), b, 1e-13) for a, b in zip(ci, ref)) \
                or any(not close(float(a), F(i, len(y)), 1e-15) for i, a in enumerate(cp)):
            ctx.spec_fail("lorenz_scale", "lorenz_curve on a sample with sum %.3e differs from the cumulative shares (%s)" % (float(sum(y)), tag), rep)
        return g, [float(v) for v in ci]

    for it in range(ctx.n(6, 40)):
        n = ctx.rng.choice([2, 3, 7, 20])
        y = gen_sample(ctx, n)
        if len(set(y)) == 1:
            y[0] += F(1, 8)
        g0, ci0 = judge(y, "unscaled", {"y": [str(v) for v in y]})
        exps = SCALE_EXPS if (ctx.thorough or it == 0) else ctx.rng.sample(SCALE_EXPS, 4)
        for k in exps:
            ys = [v * F(2) ** k for v in y]
            rep = {"op": "gini/lorenz", "y": [str(v) for v in y], "scale": "2**%d" % k, "sum_scaled": float(sum(ys))}
            gk, cik = judge(ys, "rescaled by 2**%d" % k, rep)
            # rescaling by a power of two is exact: the Lorenz ordinates (sequential loop) must be bitwise equal
            if cik != ci0:
                ctx.spec_fail("lorenz_scale", "lorenz_curve(2**%d * y) is not bitwise lorenz_curve(y)" % k, rep)
            ctx.count("scale:gini-bitwise-equal" if gk == g0 else "scale:gini-bits-differ(parallel reduction)")
            ctx.count("scale:2**%d" % k)
        k = ctx.rng.choice([-200, -50, -44, 100])
        ys = [v * F(2) ** k for v in y]
        cases.append(Case("C19 gini y=%s" % rats(ys), fnum(float(gini_coefficient(np.array([float(v) for v in ys])))), cmp=env_cmp(1e-12), tag="gini-scale"))
        cp, ci = lorenz_curve(np.array([float(v) for v in ys]))
        cases.append(Case("C19 lorenz y=%s" % rats(ys), flist(cp) + "|" + flist(ci), cmp=env_cmp(1e-13), tag="lorenz-scale"))
    # tiny-sum and huge-sum samples given as decimal doubles (not powers of two)
    for vals in ([1e-13, 3e-13], [1e-13, 3e-13, 2e-13, 0.0], [2.5e-16, 1e-15, 7e-16], [1e-300, 3e-300, 2e-300], [5e-14] * 3 + [1e-14],
                 [1e300, 2e300, 5e299], [3e150, 1e150, 1e150, 8e150], [1e-12, 1e-13], [9.9e-13, 1e-14]):
        y = [F(v) for v in vals]
        judge(y, "decimal tiny/huge sample", {"op": "gini/lorenz", "y": vals})
        ctx.count("scale:tiny-or-huge-sum-sample")
    for _ in range(ctx.n(6, 40)):
        n = ctx.rng.randint(2, 12)
        e = ctx.rng.choice([-300, -200, -100, -20, -16, -14, -13, -12, -11, 100, 290])
        vals = [ctx.rng.randint(1, 999) * 10.0 ** e for _i in range(n)]
        judge([F(v) for v in vals], "random decimal scale 1e%d" % e, {"op": "gini/lorenz", "y": vals})
        ctx.count("scale:random-decimal-scale")
    # linear routines: exact equivariance under 2**k (periodogram scales by 4**k), ECDF invariance
    for _ in range(ctx.n(3, 20)):
        n = ctx.rng.randint(20, 40)
        x = [F(ctx.rng.randint(-32, 32), 4) for _i in range(n)]
        xf = np.array([float(v) for v in x])
        h, p = ctx.rng.randint(1, 4), ctx.rng.randint(1, 2)
        w0, I0 = periodogram(xf)
        s0 = smooth_quiet(smooth, xf, 5, "flat")
        c0, t0 = hamilton_filter(xf, h)
        obs_ref = ECDF(xf)(xf[:5])
        for k in ctx.rng.sample([-200, -60, -44, -40, 40, 100], 3):
            sc = 2.0 ** k
            xs = [v * F(2) ** k for v in x]
            rep = {"x": [str(v) for v in x], "scale": "2**%d" % k}
            wk, Ik = periodogram(xf * sc)
            if not np.array_equal(Ik, I0 * sc * sc) or not np.array_equal(wk, w0):
                ctx.spec_fail("periodogram_scale", "periodogram(2**%d x) != 4**%d periodogram(x)" % (k, k), rep)
            if not np.array_equal(smooth_quiet(smooth, xf * sc, 5, "flat"), s0 * sc):
                ctx.spec_fail("smooth_scale", "smooth(2**%d x) != 2**%d smooth(x)" % (k, k), rep)
            ck, tk = hamilton_filter(xf * sc, h)
            if not (np.array_equal(ck, c0 * sc, equal_nan=True) and np.array_equal(tk, t0 * sc, equal_nan=True)):
                ctx.spec_fail("hamilton_scale", "hamilton_filter(2**%d y, h) != 2**%d hamilton_filter(y, h)" % (k, k), rep)
            ck, tk = hamilton_filter(xf * sc, h, p)
            bad = hamilton_bad(xs, h, p, ck, tk)
            if bad:
                ctx.spec_fail("hamilton_scale", "hamilton_filter(2**%d y, h=%d, p=%d): %s" % (k, h, p, bad), rep)
            if not np.array_equal(ECDF(xf * sc)(xf[:5] * sc), obs_ref):
                ctx.spec_fail("ecdf_scale", "ECDF changes under rescaling of observations and argument by 2**%d" % k, rep)
            ctx.count("scale:linear-routines")


# ----------------------------------------------------------------------------------------------------
# glue: which hamilton_filter calls succeed (shape / error branches), periodogram(window=...) = smooth of the
# truncated raw ordinates with smooth's errors propagated


def glue_cases(ctx, cases):
    from quantecon import hamilton_filter, periodogram
    from quantecon._estspec import smooth
    # ---- hamilton_filter: every (h, p) around the admissible region for small T -----------------------------
    for T in ([5, 8] if not ctx.thorough else [4, 5, 6, 8, 11]):
        yv = [F((7 * t * t + 3 * t + 5 * (t % 3)) % 41 - 20) for t in range(T)]
        if T == 8:
            yv = [F(ctx.rng.randint(-30, 30)) for _ in range(T)]
        yarr = np.array([float(v) for v in yv])
        for h in range(0, T + 3):
            for p in [None] + list(range(0, T + 2)):
                if p is None:
                    status = "ok" if h <= T else "ValueError"
                else:
                    rows = T - p - h + 1
                    if p + h == 0 or rows < 0:
                        status = "ValueError"
                    elif rows == 0:
                        status = "LinAlgError"
                    elif rows < p + 1:
                        ctx.count("glue:hamilton-underdetermined-skipped")     # outcome of a rank-deficient float solve: not generated
                        continue
                    else:
                        status = "ok"
                try:
                    cyc, trd = hamilton_filter(yarr, h, p) if p is not None else hamilton_filter(yarr, h)
                    impl = flist(cyc) + "|" + flist(trd)
                    got = "ok"
                except np.linalg.LinAlgError:          # (a subclass of ValueError: must come first)
                    impl = got = "ERR:LinAlgError"
                except ValueError:
                    impl = got = "ERR:ValueError"
                rep = {"op": "hamilton", "y": [str(v) for v in yv], "h": h, "p": p}
                ctx.count("glue:hamilton-" + got)
                if status == "ok":
                    # admissible by the documented shapes: must succeed and be the decomposition / projection
                    if got != "ok":
                        if p is not None and got == "ERR:LinAlgError":
                            ctx.count("glue:hamilton-singular-regression")
                            continue
                        ctx.spec_fail("hamilton_admissible", "hamilton_filter(T=%d, h=%d, p=%s) raised %s on an admissible call" % (T, h, p, got), rep)
                        continue
                    bad = hamilton_bad(yv, h, p, cyc, trd, tol=1e-6)
                    if bad:
                        ctx.spec_fail("hamilton_admissible", "hamilton_filter(T=%d, h=%d, p=%s): %s" % (T, h, p, bad), rep)
                elif got != "ERR:" + status:
                    ctx.spec_fail("hamilton_inadmissible", "hamilton_filter(T=%d, h=%d, p=%s) gave %s although the shapes "
                                  "T-p-h+1 / y[h:T]-y[0:T-h] call for %s" % (T, h, p, got, status), rep)
                cases.append(Case("C19 hamilton y=%s h=%d p=%s" % (rats(yv), h, "none" if p is None else p), impl,
                                  cmp=env_cmp(1e-6, scale=40), nontrivial=(got == "ok"), tag="hamilton-glue"))
    # ---- periodogram(x, window, window_len) = smooth(periodogram(x)) with the errors of smooth ----------------
    for _ in range(ctx.n(30, 200)):
        n = ctx.rng.choice([3, 5, 9, 12, 13, 20, 21, 31, 40, ctx.rng.randint(3, 40), ctx.rng.randint(10, 40)])
        wl = ctx.rng.choice([0, 1, 2, 3, 3, 3, 4, 4, 5, 5, 6, 7, 7, 8, 9, 11])
        wn = ctx.rng.choice(["flat", "bartlett"])
        x = np.array([float(F(ctx.rng.randint(-32, 32), 4)) for _i in range(n)])
        w0, I0 = periodogram(x)
        Iex = [F(float(v)) for v in I0]
        m = n // 2 + 1
        rep = {"op": "pgram_window", "x": x.tolist(), "wl": wl, "window": wn}
        buf = io.StringIO()
        try:
            with contextlib.redirect_stdout(buf):
                call = ctx.rng.randrange(3)
                w1, I1 = (periodogram(x, wn, wl) if call == 0 else periodogram(x, window=wn, window_len=wl) if call == 1
                          else periodogram(x, window_len=wl, window=wn))
            impl = flist(float(v) for v in I1)
            ctx.count("glue:pgram-window-ok" + ("-even-reset" if wl % 2 == 0 else ""))
            if wl < 3 or m < wl:
                ctx.spec_fail("periodogram_window_glue", "periodogram(n=%d, window_len=%d) returned although smooth must reject it" % (n, wl), rep)
            else:
                ref = smooth_exact(Iex, wl, wn)
                sc = max([1] + [abs(v) for v in Iex])
                if len(I1) != m or len(w1) != m or any(abs(F(float(a)) - b) > F(1, 10 ** 11) * sc for a, b in zip(I1, ref)) \
                        or not np.array_equal(w1, w0):
                    ctx.spec_fail("periodogram_window_glue", "periodogram(window=%s, window_len=%d) is not smooth of the %d raw ordinates" % (wn, wl, m), rep)
        except ValueError as e:
            impl = "ERR:ValueError:" + ("short" if ">= window" in str(e) else "small")
            ctx.count("glue:pgram-window-" + impl)
            if wl >= 3 and m >= wl:
                ctx.spec_fail("periodogram_window_glue", "periodogram(n=%d, window_len=%d) raised %s on an admissible call" % (n, wl, e), rep)
        cases.append(Case("C19 pgram_window I=%s wl=%d window=%s" % (rats(Iex), wl, wn), impl,
                          cmp=env_cmp(1e-11, scale=float(max([1] + [abs(v) for v in Iex]))), nontrivial=not impl.startswith("ERR"), tag="pgram-window"))

# ----------------------------------------------------------------------------------------------------
# hamilton_filter


def solve_frac(A, b):
    n = len(A)
    M = [list(r) + [bv] for r, bv in zip(A, b)]
    for k in range(n):
        piv = next((i for i in range(k, n) if M[i][k] != 0), None)
        if piv is None:
            return None
        M[k], M[piv] = M[piv], M[k]
        pv = M[k][k]
        M[k] = [v / pv for v in M[k]]
        for i in range(n):
            if i != k and M[i][k] != 0:
                f = M[i][k]
                M[i] = [a - f * c for a, c in zip(M[i], M[k])]
    return [M[i][n] for i in range(n)]


def hamilton_cases(ctx, cases):
    from quantecon import hamilton_filter
    combos = []
    for _ in range(ctx.n(30, 600)):
        T = ctx.rng.choice([20, 21, 30, 50, 100, 200, ctx.rng.randint(20, 200)])
        if not ctx.thorough and T > 100:
            T = ctx.rng.randint(20, 100)
        h = ctx.rng.choice([ctx.rng.randint(1, 8), ctx.rng.randint(1, 8), 12, 24])
        p = ctx.rng.choice([None, 1, 2, 3, 4, 4, ctx.rng.randint(1, 6)])
        if p is not None and T - p - h + 1 < p + 3:
            continue
        if p is None and h > T:
            continue
        combos.append((T, h, p))
    # edge shapes: exactly / almost exactly determined regressions (iid data), h = T-1, h = T
    combos += [(20, 1, 1), (20, 8, 4), (20, 15, None), (21, 20, None), (20, 1, None), (20, 20, None),
               (20, 8, 6), (20, 7, 6), (21, 12, 4), (40, 24, 6)]
    for (T, h, p) in combos:
        kind = ctx.rng.randrange(3)
        if p is not None and T - p - h + 1 < p + 3:
            kind = 0
            ctx.count("ham:rows<=p+2")
        if p is not None and T - p - h + 1 == p + 1:
            # exactly determined regression (cycle = 0): fixed well-conditioned data, independent of the seed
            y = [F((7 * t * t + 3 * t + 5 * (t % 3)) % 41 - 20) for t in range(T)]; ctx.count("ham:exactly-determined")
        elif kind == 0:
            y = [F(ctx.rng.randint(-40, 40)) for _ in range(T)]; ctx.count("ham:iid-data")
        elif kind == 1:
            y, acc = [], F(0)
            for _t in range(T):
                acc += F(ctx.rng.randint(-8, 9), 2); y.append(acc)
            ctx.count("ham:random-walk-data")
        else:
            y = [F(t * t, 16) + F(ctx.rng.randint(-12, 12), 4) for t in range(T)]; ctx.count("ham:trend-data")
        yf = np.array([float(v) for v in y])
        cyc, trd = hamilton_filter(yf, h, p) if p is not None else hamilton_filter(yf, h)
        cyc, trd = [float(v) for v in cyc], [float(v) for v in trd]
        scale = max(abs(v) for v in y) or 1
        rep = {"op": "hamilton", "y": [str(v) for v in y], "h": h, "p": p}
        nn = (p + h - 1) if p is not None else h
        ctx.count("ham:with-p" if p is not None else "ham:no-p")
        bad = None
        if len(cyc) != T or len(trd) != T:
            bad = "lengths"
        elif any(not math.isnan(v) for v in cyc[:nn] + trd[:nn]) or any(math.isnan(v) for v in cyc[nn:] + trd[nn:]):
            bad = "nan prefix is not exactly the first %d periods" % nn
        elif any(not close(F(c) + F(t), v, 1e-13, scale) for c, t, v in zip(cyc[nn:], trd[nn:], y[nn:])):
            bad = "cycle + trend != data"
        elif p is None:
            if any(F(cyc[t]) != y[t] - y[t - h] for t in range(h, T)):
                bad = "cycle is not the h-step difference"
            elif any(F(trd[t]) != y[t - h] for t in range(h, T)):
                bad = "trend is not the h-step lag"
        else:
            rows = T - p - h + 1
            X = [[F(1)] + [y[p - j + t] for j in range(1, p + 1)] for t in range(rows)]
            tgt = [y[p + h - 1 + t] for t in range(rows)]
            XtX = [[sum(X[t][i] * X[t][j] for t in range(rows)) for j in range(p + 1)] for i in range(p + 1)]
            Xty = [sum(X[t][i] * tgt[t] for t in range(rows)) for i in range(p + 1)]
            b = solve_frac(XtX, Xty)
            if b is None:
                ctx.count("ham:singular-exact")
                continue
            fit = [sum(X[t][j] * b[j] for j in range(p + 1)) for t in range(rows)]
            tol = 1e-7
            if any(not close(trd[nn + t], fit[t], tol, scale) for t in range(rows)):
                bad = "trend is not the OLS projection on (1, y_t, .., y_{t-p+1})"
        if bad:
            ctx.spec_fail("hamilton_filter", "hamilton_filter(h=%d,p=%s): %s" % (h, p, bad), rep)
        impl = flist(cyc) + "|" + flist(trd)
        if p is None:
            # trace fidelity (reported, never an alarm): the model at Float on non-dyadic data
            yt = yf / 3.0
            ct, tt = hamilton_filter(yt, h)

            def fid(mo, im, ctx=ctx):
                ctx.count("trace-fidelity:hamilton-nop-bits-equal" if mo == im else "trace-fidelity:hamilton-nop-bits-differ")
                return None
            cases.append(Case("C19 hamilton_float y=%s h=%d" % (flist(yt), h), flist(ct) + "|" + flist(tt), nontrivial=False,
                              cmp=fid, tag="hamilton-float"))
        cases.append(Case("C19 hamilton y=%s h=%d p=%s" % (rats(y), h, "none" if p is None else p), impl,
                          cmp=env_cmp(1e-7, scale=scale), tag="hamilton-p" if p is not None else "hamilton-nop"))


# ----------------------------------------------------------------------------------------------------
# periodogram / smooth


def spectral_cases(ctx, cases):
    from quantecon import periodogram, ar_periodogram
    from quantecon._estspec import smooth
    ns = [1, 2, 3, 4, 5, 20, 21, 64, 199, 200] + [ctx.rng.randint(20, 200) for _ in range(ctx.n(8, 150))]
    for n in ns:
        x = [F(ctx.rng.randint(-32, 32), 4) for _ in range(n)]
        xf = np.array([float(v) for v in x])
        w, I = periodogram(xf)
        ctx.count("pgram:even-n" if n % 2 == 0 else "pgram:odd-n")
        rep = {"op": "pgram", "x": [str(v) for v in x]}
        m = n // 2 + 1
        t = np.arange(n)
        bad = None
        if len(w) != m or len(I) != m:
            bad = "%d frequencies, expected floor(n/2)+1=%d" % (len(w), m)
        else:
            for j in range(m):
                if abs(float(w[j]) - 2 * math.pi * j / n) > 1e-12:
                    bad = "w[%d] is not 2 pi j/n" % j
                    break
                dft = np.sum(xf * np.exp(-2j * np.pi * j * t / n))        # direct O(n^2) DFT
                refv = abs(dft) ** 2 / n
                if abs(float(I[j]) - refv) > 1e-9 * max(1.0, float(np.sum(xf * xf))):
                    bad = "I[%d]=%r, |DFT|^2/n=%r" % (j, float(I[j]), refv)
                    break
            if bad is None and float(w[-1]) > math.pi + 1e-12:
                bad = "frequency above pi"
        if bad:
            ctx.spec_fail("periodogram", "periodogram(n=%d): %s" % (n, bad), rep)
        ctx.count("test:periodogram-vs-direct-dft")
        idx = [int(round(float(v) * n / (2 * math.pi))) for v in w]
        cases.append(Case("C19 pgram n=%d" % n, ints(idx), nontrivial=(n >= 3), tag="pgram"))
    # smooth: rational windows exactly, error branches
    for _ in range(ctx.n(40, 800)):
        n = ctx.rng.choice([1, 2, 3, 4, 5, 7, 8, 11, 30, ctx.rng.randint(3, 101)])
        wl = ctx.rng.choice([0, 2, 3, 3, 4, 5, 5, 7, 7, 8, 9, 11, 21])
        window = ctx.rng.choice(["flat", "bartlett"])
        x = [F(ctx.rng.randint(-32, 32), 4) for _ in range(n)]
        xf = np.array([float(v) for v in x])
        buf = io.StringIO()
        try:
            with contextlib.redirect_stdout(buf):
                out = [float(v) for v in smooth(xf, window_len=wl, window=window)]
            impl = flist(out)
            ctx.count("smooth:even-window-reset" if wl % 2 == 0 else "smooth:odd-window")
            # oracle: weighted moving average of the reflected series with the normalised window
            wle = wl + 1 if wl % 2 == 0 else wl
            k = wle // 2
            if window == "flat":
                wts = [F(1)] * wle
            else:
                wts = [1 - abs(F(2 * i, wle - 1) - 1) for i in range(wle)]
            tot = sum(wts)
            ext = x[:k][::-1] + x + x[-k:][::-1]
            ref = [sum(wts[j] * ext[i + j] for j in range(wle)) / tot for i in range(n)]
            if len(out) != n or any(not close(g, r, 1e-12, 8) for g, r in zip(out, ref)):
                ctx.spec_fail("smooth", "smooth(window=%s, window_len=%d) is not the reflected weighted moving average" % (window, wl),
                              {"op": "smooth", "x": [str(v) for v in x], "wl": wl, "window": window})
        except ValueError as e:
            impl = "ERR:ValueError:" + ("short" if ">= window" in str(e) else "small")
            ctx.count("smooth:" + impl)
        cases.append(Case("C19 smooth x=%s wl=%d window=%s" % (rats(x), wl, window), impl, cmp=env_cmp(1e-12, scale=8),
                          nontrivial=not impl.startswith("ERR"), tag="smooth"))
    # cosine windows (not modelled: cos) against their textbook formulas, and the fall-back for an unknown name
    for _ in range(ctx.n(12, 150)):
        n = ctx.rng.randint(3, 60)
        wl = ctx.rng.choice([3, 4, 5, 7, 9, 11])
        if wl > n:
            continue
        window = ctx.rng.choice(["hanning", "hamming", "blackman", "no-such-window"])
        xf = np.array([float(F(ctx.rng.randint(-32, 32), 4)) for _i in range(n)])
        buf = io.StringIO()
        with contextlib.redirect_stdout(buf):
            out = smooth(xf, window_len=wl, window=window)
        wle = wl + 1 if wl % 2 == 0 else wl
        k = wle // 2
        a = 2 * math.pi * np.arange(wle) / (wle - 1)
        if window == "hamming":
            wts = 0.54 - 0.46 * np.cos(a)
        elif window == "blackman":
            wts = 0.42 - 0.5 * np.cos(a) + 0.08 * np.cos(2 * a)
        else:
            wts = 0.5 - 0.5 * np.cos(a)
        ext = np.concatenate((xf[:k][::-1], xf, xf[-k:][::-1]))
        ref = np.array([np.dot(wts, ext[i:i + wle]) for i in range(n)]) / wts.sum()
        if len(out) != n or not np.allclose(out, ref, rtol=0, atol=1e-11 * 8):
            ctx.spec_fail("smooth_cosine", "smooth(window=%s, window_len=%d) is not the reflected weighted moving average" % (window, wl),
                          {"x": xf.tolist(), "wl": wl, "window": window})
        if window == "no-such-window":
            ctx.count("smooth:unknown-window-defaults-to-hanning")
            if "Defaulting to hanning" not in buf.getvalue():
                ctx.spec_fail("smooth_unknown_window", "no fall-back message for an unknown window", {"window": window})
        ctx.count("test:smooth-cosine-window")
    # periodogram with a window = smooth(periodogram); ar_periodogram = recoloured periodogram of the AR(1) residuals
    for _ in range(ctx.n(6, 120)):
        n = ctx.rng.randint(20, 200)
        x = np.array([float(F(ctx.rng.randint(-32, 32), 4)) for _ in range(n)])
        x = np.cumsum(x) * 0.5 if ctx.rng.random() < 0.5 else x
        win = ctx.rng.choice(["flat", "hanning", "hamming", "bartlett", "blackman"])
        wl = ctx.rng.choice([3, 5, 7])
        w0, I0 = periodogram(x)
        w1, I1 = periodogram(x, window=win, window_len=wl)
        if len(I1) != len(I0) or not np.allclose(I1, smooth(I0, window_len=wl, window=win), rtol=1e-12, atol=0):
            ctx.spec_fail("periodogram_window", "periodogram(window=%s) != smooth(periodogram)" % win, {"x": x.tolist(), "window": win, "wl": wl})
        # ar_periodogram from its definition
        X = np.column_stack([np.ones(n - 1), x[:-1]])
        yv = x[1:]
        beta = np.linalg.lstsq(X, yv, rcond=None)[0]
        e = yv - X @ beta
        we, Ie = periodogram(e, window=win, window_len=wl)
        refI = Ie / np.abs(1 - beta[1] * np.exp(1j * we)) ** 2
        wa, Ia = ar_periodogram(x, window=win, window_len=wl)
        if len(Ia) != len(refI) or not np.allclose(Ia, refI, rtol=1e-6, atol=1e-9 * float(np.max(np.abs(refI)))):
            ctx.spec_fail("ar_periodogram", "ar_periodogram differs from the recoloured periodogram of the AR(1) residuals",
                          {"x": x.tolist(), "window": win, "wl": wl})
        ctx.count("test:windowed-and-ar-periodogram")
    # default arguments of ar_periodogram are ('hanning', 7)
    xd = np.cumsum(np.array([float(F(ctx.rng.randint(-32, 32), 4)) for _ in range(64)]))
    wa, Ia = ar_periodogram(xd)
    wb, Ib = ar_periodogram(xd, window="hanning", window_len=7)
    if not (np.array_equal(wa, wb) and np.array_equal(Ia, Ib)):
        ctx.spec_fail("ar_periodogram_defaults", "ar_periodogram(x) != ar_periodogram(x, 'hanning', 7)", {"x": xd.tolist()})


# ----------------------------------------------------------------------------------------------------


def run(ctx):
    cases = []
    ctx.rule = ("samples of length 1..200 over dyadic rationals (ties, zeros, constant, heavy tail, sorted); BetaBinomial n<=60 and "
                "a,b in {k/16} within (0.05,20); ARMA all (p,q) in 0..4 x 0..4 with roots of modulus <= 3/4 (real and conjugate "
                "pairs), scalar and list parameters; Hamilton T in 20..200, h in 1..8,12,24, p in {none,1..8} with at least p+1 rows; "
                "periodogram n even/odd; smooth with the rational windows. A case is non-trivial when the answer is not forced "
                "(>=2 distinct observations, a != b, N >= 3 lags, no error branch); distinct by request line")
    inequality_cases(ctx, cases)
    scale_cases(ctx, cases)
    mobility_cases(ctx, cases)
    ecdf_cases(ctx, cases)
    bb_cases(ctx, cases)
    arma_cases(ctx, cases)
    arma_persistent_cases(ctx, cases)
    arma_history_cases(ctx, cases)
    other_history_cases(ctx, cases)
    forms_cases(ctx, cases)
    glue_cases(ctx, cases)
    hamilton_cases(ctx, cases)
    spectral_cases(ctx, cases)
    ctx.assumptions.append("FFT, scipy.signal.freqz/dimpulse/dlsim, sqrt, beta/binom of scipy.special are not modelled: the clauses that "
                           "depend on them are checked numerically (direct O(n^2) DFT, exact rational points of the unit circle, exact "
                           "MA(inf) coefficients, exact rising-factorial pdf) inside envelopes 1e-7..1e-13 and are tests, not proofs")
    ctx.run_cases(cases)
    eq, df = ctx.counters.get("trace-fidelity:lorenz-bits-equal", 0), ctx.counters.get("trace-fidelity:lorenz-bits-differ", 0)
    eqh, dfh = ctx.counters.get("trace-fidelity:hamilton-nop-bits-equal", 0), ctx.counters.get("trace-fidelity:hamilton-nop-bits-differ", 0)
    ctx.extra["trace_fidelity"] = {"lorenz_curve (model at Float vs Numba bits)": "%d/%d" % (eq, eq + df),
                                   "hamilton_filter without p (model at Float vs NumPy bits)": "%d/%d" % (eqh, eqh + dfh),
                                   "note": "gini_coefficient is a parallel reduction (not bit-reproducible by a sequential model)"}
