"""C13 — AR(1) discretisations (rouwenhorst, tauchen) and chain estimation
(estimate_mc, fit_discrete_mc): correspondence + spec run."""
import collections
import itertools
import json
import math
import warnings
from fractions import Fraction

import numpy as np

from .common import Case, fx, fxs, fxm, unfx, ints, intm, rat, rats, ratm, parse_ratm, parse_intm, parse_ints

FILES = ["quantecon/markov/approximation.py", "quantecon/markov/estimate.py", "quantecon/_gridtools.py"]

U = 2.0 ** -53
FIX = 2 ** 80


# ----------------------------------------------------------------------------
# helpers


def kvs(out):
    """'a=.. b=..' -> dict"""
    d = {}
    for t in out.split(" "):
        if "=" in t:
            k, v = t.split("=", 1)
            d[k] = v
    return d


def fix_list(s):
    return [] if s in ("-", "") else [Fraction(int(t), FIX) for t in s.split(",")]


def fix_mat(s):
    return [] if s in ("-", "") else [fix_list(r) for r in s.split(";")]


def bits_mat(s):
    return [] if s in ("-", "") else [[unfx(t) for t in r.split(",")] for r in s.split(";")]


def bits_list(s):
    return [] if s in ("-", "") else [unfx(t) for t in s.split(",")]


def F(x):
    return Fraction(float(x))


def binom_pmf(n):
    return [Fraction(math.comb(n - 1, j), 2 ** (n - 1)) for j in range(n)]


EDGES = [(2, 0.0, 1.0, 0.0), (2, -0.989, 1e-3, 5.0), (2, 0.989, 1e2, -100.0), (40, 0.989, 1e2, 100.0),
         (40, -0.989, 1e-3, 0.0), (3, 0.5, 1.0, 1.0), (40, 0.0, 1.0, 1e6), (17, 0.7, 0.5, -0.3),
         (5, -0.5, 2.0, 1.0), (39, 0.3, 1e-3, 1e-3)]


def ar1_params(ctx, kind, k=0):
    """(n, rho, sigma, mu) from the property's quantifier domain"""
    r = ctx.rng
    if kind == "edge":        # fixed corner cases of the quantifier's domain, every run
        return EDGES[k % len(EDGES)]
    if kind == "dyadic":      # arithmetic of the recursion is exact in double
        n = r.randint(2, 7)
        rho = r.choice([-3, -2, -1, 0, 1, 2, 3]) / 4.0
        sigma = 2.0 ** r.randint(-3, 3)
        mu = r.choice([0.0, 0.5, -1.0, 2.0, 3.0])
        return n, rho, sigma, mu
    n = r.choice([2, 3, 4, 5, 7, 9, 12, 17, 25, 33, 40]) if kind == "wide" else r.randint(2, 12)
    rho = r.uniform(-0.99, 0.99)
    if r.random() < 0.25:
        rho = r.choice([-0.989, 0.989, -0.9, 0.95, 1e-3, -1e-9, 0.0])
    sigma = 10.0 ** r.uniform(-3, 2)
    mu = r.choice([0.0, r.uniform(-3, 3), r.uniform(-3, 3), r.uniform(-100, 100), sigma * r.uniform(-2, 2)])
    return n, rho, sigma, mu


def call_ar1(ctx, fn, name, n, rho, sigma, mu, nstd=None):
    """call rouwenhorst / tauchen with the same values in a randomly chosen ARGUMENT FORM:
    optional arguments omitted (when they equal the default) / positional / keyword; NumPy scalars"""
    r = ctx.rng
    sc = r.random() < 0.5
    # n: every NumPy integer type for both functions (narrow ones: regression guard for rouwenhorst_narrow_int_n)
    wide = [np.int32, np.int64, np.uint32, np.uint64, np.intp]
    narrow = [np.int8, np.uint8, np.int16, np.uint16]
    nT = r.choice(wide + narrow)
    nn = nT(n) if sc else n
    fT = r.choice([np.float64, np.float64, (lambda v: np.array(v, dtype=np.float64))]) if sc else (lambda v: v)
    f = fT
    if sc:
        ctx.count("%s-form:n=%s" % (name, nT.__name__))
    ctx.count("%s-form:%s" % (name, "numpy-scalars/0-d" if sc else "python-scalars"))
    args, kw = [nn, f(rho), f(sigma)], {}
    tail = []           # optional arguments still to be placed
    if mu == 0.0 and r.random() < 0.6:
        ctx.count("%s-form:mu-omitted" % name)
        mu_given = False
    else:
        mu_given = True
    ns_given = None
    if nstd is not None:
        if nstd == 3 and r.random() < 0.6:
            ctx.count("%s-form:n_std-omitted" % name)
            ns_given = False
        else:
            ns_given = True
    nsv = (r.choice(wide + narrow + [lambda v: np.array(v)])(nstd) if sc and r.random() < 0.7 else nstd) if ns_given else None
    style = r.choice(["positional", "keyword", "mixed"])
    ctx.count("%s-form:%s" % (name, style))
    if mu_given:
        if style == "positional" or (style == "mixed" and (ns_given or nstd is None)):
            args.append(f(mu))
        else:
            kw["mu"] = f(mu)
    if ns_given:
        if style == "positional" and mu_given:
            args.append(nsv)
        else:
            kw["n_std"] = nsv
    if style == "keyword" and r.random() < 0.5:        # everything by keyword
        kw.update(n=args[0], rho=args[1], sigma=args[2])
        if len(args) > 3:
            kw["mu"] = args[3]
        args = []
    return fn(*args, **kw)


class _Reroute:
    """judge with the ordinary oracle but report every failure under one narrow key"""
    def __init__(self, ctx, key, extra):
        self.ctx, self.key, self.extra, self.hit = ctx, key, extra, False

    def spec_fail(self, key, what, replay):
        self.hit = True
        self.ctx.spec_fail(self.key, "%s [%s]: %s" % (self.extra, key, what), dict(replay, form=self.extra))

    def count(self, *a, **k):
        pass


def scalar_form_probes(ctx):
    """scalar forms that the clean code treats in reduced precision"""
    from quantecon.markov.approximation import rouwenhorst, tauchen
    r = ctx.rng
    # (a) n as a narrow NumPy integer (fixed finding rouwenhorst_narrow_int_n: np.sqrt(n - 1) was float16 / float32
    #     and dragged the grid with it): ordinary oracle-checked cases, bits must equal the Python-int call
    for T in (np.int8, np.uint8, np.int16, np.uint16):
        for _ in range(ctx.n(2, 6)):
            n, rho, sigma, mu = ar1_params(ctx, "small")
            rr = _Reroute(ctx, "rouwenhorst_narrow_int_n", "n=%s(%d)" % (T.__name__, n))
            try:
                mc = rouwenhorst(T(n), rho, sigma, mu)
                rouw_spec(rr, n, rho, sigma, mu, np.asarray(mc.P, dtype=float), np.asarray(mc.state_values, dtype=float))
                ref = rouwenhorst(n, rho, sigma, mu)
                if snap(mc.state_values) != snap(ref.state_values) or snap(mc.P) != snap(ref.P):
                    rr.spec_fail("bits", "result differs from the call with a Python int n (dtype %s)" % np.asarray(mc.state_values).dtype,
                                 {"op": "rouwenhorst", "n": n, "rho_hex": float(rho).hex(), "sigma_hex": float(sigma).hex(),
                                  "mu_hex": float(mu).hex()})
            except Exception as e:
                rr.spec_fail("raises", "%s: %s" % (type(e).__name__, e), {"op": "rouwenhorst", "n": n, "rho_hex": float(rho).hex(),
                                                                      "sigma_hex": float(sigma).hex(), "mu_hex": float(mu).hex()})
            ctx.count("probe:rouw-n=%s:%s" % (T.__name__, "violates" if rr.hit else "ok"))
    # (b) float32 scalars: the result must agree with the float64 call at the same (exactly converted) values
    #     to float32 accuracy
    for fn, name in ((rouwenhorst, "rouwenhorst"), (tauchen, "tauchen")):
        for _ in range(ctx.n(4, 20)):
            n, rho, sigma, mu = ar1_params(ctx, "small")
            v32 = [np.float32(rho), np.float32(sigma), np.float32(mu)]
            if not abs(float(v32[0])) < 0.99:
                continue
            which = r.sample(range(3), r.randint(1, 3))
            a64 = [float(v) if i in which else (rho, sigma, mu)[i] for i, v in enumerate(v32)]
            a32 = [v32[i] if i in which else a64[i] for i in range(3)]
            rp = {"op": name, "n": n, "rho_hex": float(a64[0]).hex(), "sigma_hex": float(a64[1]).hex(),
                  "mu_hex": float(a64[2]).hex(), "n_std": 3, "float32_positions": which}
            try:
                m32, m64 = fn(n, *a32), fn(n, *a64)
                P32, P64 = np.asarray(m32.P, dtype=float), np.asarray(m64.P, dtype=float)
                y32, y64 = np.asarray(m32.state_values, dtype=float), np.asarray(m64.state_values, dtype=float)
                scale = float(np.max(np.abs(y64))) + abs(a64[2] / (1 - a64[0])) + 1e-300
                if P32.shape != P64.shape or not np.all(np.abs(P32 - P64) <= 2e-5) or not np.all(np.abs(y32 - y64) <= 2e-5 * scale):
                    ctx.spec_fail("ar1_float32_form", "%s with float32 scalars differs from the float64 call beyond float32 accuracy" % name, rp)
            except Exception as e:
                ctx.spec_fail("ar1_float32_form", "%s with float32 scalars raised %s: %s" % (name, type(e).__name__, e), rp)
            ctx.count("probe:%s-float32-scalars" % name)


# ----------------------------------------------------------------------------
# rouwenhorst


def rouw_spec(ctx, n, rho, sigma, mu, P, y):
    """exact oracle on the code's outputs (Fractions of the doubles), independent of the model"""
    rp = {"op": "rouwenhorst", "n": n, "rho": rho, "sigma": sigma, "mu": mu,
          "rho_hex": float(rho).hex(), "sigma_hex": float(sigma).hex(), "mu_hex": float(mu).hex()}
    Pq = [[F(v) for v in row] for row in P]
    yq = [F(v) for v in y]
    rq, sq, mq = F(rho), F(sigma), F(mu)
    if len(Pq) != n or any(len(r) != n for r in Pq) or len(yq) != n:
        ctx.spec_fail("rouwenhorst_shape", "wrong shape", rp)
        return
    mbar = mq / (1 - rq)
    ymax = max(abs(v) for v in yq)
    span = yq[-1] - yq[0]
    # valid stochastic matrix
    for i in range(n):
        if any(v < 0 for v in Pq[i]) or abs(sum(Pq[i]) - 1) > Fraction(1, 10 ** 12):
            ctx.spec_fail("rouwenhorst_stochastic", "row %d is not a probability vector" % i, dict(rp, row=i))
            return
    # grid: evenly spaced, centred at mu/(1-rho), half width^2 = sigma^2 (n-1)/(1-rho^2)
    tol_y = 16 * Fraction(U) * (ymax + abs(mbar)) + Fraction(1, 10 ** 300)
    half = span / 2
    if abs((yq[0] + yq[-1]) / 2 - mbar) > tol_y:
        ctx.spec_fail("rouwenhorst_grid_centre", "grid centre %s, expected mu/(1-rho)=%s" % (float((yq[0] + yq[-1]) / 2), float(mbar)), rp)
        return
    psi2 = sq * sq * (n - 1) / (1 - rq * rq)
    if abs(half * half - psi2) > Fraction(1, 10 ** 9) * psi2 + 64 * Fraction(U) * ymax * half:
        ctx.spec_fail("rouwenhorst_grid_width", "half width^2 %g, expected sigma^2 (n-1)/(1-rho^2)=%g" % (float(half * half), float(psi2)), rp)
        return
    for j in range(n):
        if abs(yq[j] - (yq[0] + span * j / (n - 1))) > tol_y:
            ctx.spec_fail("rouwenhorst_grid_spacing", "grid point %d is not evenly spaced" % j, rp)
            return
    # conditional mean and variance at every grid point
    tol_m = Fraction(1, 10 ** 10) * (half + abs(mq)) + 64 * Fraction(U) * (ymax + abs(mbar))
    tol_v = Fraction(1, 10 ** 9) * sq * sq + 256 * Fraction(U) * (ymax + abs(mbar)) * span
    for i in range(n):
        m = sum(Pq[i][j] * yq[j] for j in range(n))
        tgt = mq + rq * yq[i]
        if abs(m - tgt) > tol_m:
            ctx.spec_fail("rouwenhorst_cond_mean", "E[y'|y_%d]=%r, mu+rho*y_i=%r" % (i, float(m), float(tgt)), dict(rp, row=i))
            return
        v = sum(Pq[i][j] * (yq[j] - tgt) ** 2 for j in range(n))
        if abs(v - sq * sq) > tol_v:
            ctx.spec_fail("rouwenhorst_cond_var", "Var[y'|y_%d]=%r, sigma^2=%r" % (i, float(v), float(sq * sq)), dict(rp, row=i))
            return
    # stationary law Binomial(n-1, 1/2), unconditional variance
    pi = binom_pmf(n)
    for j in range(n):
        if abs(sum(pi[i] * Pq[i][j] for i in range(n)) - pi[j]) > Fraction(1, 10 ** 12):
            ctx.spec_fail("rouwenhorst_stationary", "Binomial(n-1,1/2) is not stationary (column %d)" % j, dict(rp, col=j))
            return
    uv = sum(pi[j] * (yq[j] - mbar) ** 2 for j in range(n))
    tv = sq * sq / (1 - rq * rq)
    if abs(uv - tv) > Fraction(1, 10 ** 9) * tv + 256 * Fraction(U) * (ymax + abs(mbar)) * span:
        ctx.spec_fail("rouwenhorst_uncond_var", "stationary variance %r, sigma^2/(1-rho^2)=%r" % (float(uv), float(tv)), rp)


def rouw_cases(ctx, cases):
    from quantecon.markov.approximation import rouwenhorst
    plan = [("edge", len(EDGES)), ("dyadic", ctx.n(20, 150)), ("small", ctx.n(30, 400)), ("wide", ctx.n(20, 250))]
    for kind, cnt in plan:
        for k in range(cnt):
            n, rho, sigma, mu = ar1_params(ctx, kind, k)
            try:
                mc = call_ar1(ctx, rouwenhorst, "rouw", n, rho, sigma, mu)
            except Exception as e:      # valid parameters: any exception is a violation, not a tool failure
                ctx.spec_fail("rouwenhorst_raises", "%s: %s" % (type(e).__name__, e),
                              {"op": "rouwenhorst", "n": n, "rho": rho, "sigma": sigma, "mu": mu,
                               "rho_hex": float(rho).hex(), "sigma_hex": float(sigma).hex(), "mu_hex": float(mu).hex()})
                cases.append(Case("C13 rouw mode=float n=%d rho=%s sigma=%s mu=%s" % (n, fx(rho), fx(sigma), fx(mu)),
                                  "ERR:" + type(e).__name__, tag="rouw-float"))
                continue
            P, y = np.asarray(mc.P), np.asarray(mc.state_values)
            ctx.count("rouw:" + kind)
            ctx.count("rouw:rho<0" if rho < 0 else "rouw:rho>=0")
            ctx.count("rouw:mu!=0" if mu != 0 else "rouw:mu=0")
            if n >= 3:
                ctx.count("rouw:halving-branch(n>=3)")
            rouw_spec(ctx, n, rho, sigma, mu, P, y)
            impl = "P=%s grid=%s" % (fxm(P), fxs(y))
            base = "n=%d rho=%s sigma=%s mu=%s" % (n, fx(rho), fx(sigma), fx(mu))
            ymax = float(np.max(np.abs(y)))

            def cmp_float(mo, im, ymax=ymax):
                if mo == im:
                    ctx.count("fidelity:rouw-float-bit-exact")
                    return None
                ctx.count("fidelity:rouw-float-differs")
                a, b = kvs(mo), kvs(im)
                try:
                    Pm, Pc = bits_mat(a["P"]), bits_mat(b["P"])
                    gm, gc = bits_list(a["grid"]), bits_list(b["grid"])
                except Exception:
                    return "unparsable model output"
                if len(Pm) != len(Pc) or len(gm) != len(gc):
                    return "shape differs"
                for r1, r2 in zip(Pm, Pc):
                    if len(r1) != len(r2) or any(not abs(u - v) <= 1e-12 for u, v in zip(r1, r2)):
                        return "P differs by more than 1e-12"
                if any(not abs(u - v) <= 16 * U * ymax for u, v in zip(gm, gc)):
                    return "grid differs by more than 16u*max|y|"
                return None

            cases.append(Case("C13 rouw mode=float " + base, impl, nontrivial=(n >= 3), cmp=cmp_float, tag="rouw-float"))
            # exact reference: the two square roots are external, supplied as the code computes them
            sd = math.sqrt(sigma ** 2 / (1 - rho ** 2))
            rt = float(np.sqrt(n - 1))
            exact = (kind == "dyadic")

            def cmp_rat(mo, im, ymax=ymax, exact=exact, P=P, y=y):
                a = kvs(mo)
                try:
                    Pm, gm = fix_mat(a["P"]), fix_list(a["grid"])
                except Exception:
                    return "unparsable model output"
                if len(Pm) != P.shape[0] or any(len(r) != P.shape[1] for r in Pm) or len(gm) != len(y):
                    return "shape differs"
                tolP = Fraction(1, 2 ** 79) if exact else Fraction(1, 10 ** 12)
                for i, r in enumerate(Pm):
                    for j, v in enumerate(r):
                        if abs(F(P[i, j]) - v) > tolP:
                            return "P[%d,%d]: code %r, exact model %r" % (i, j, float(P[i, j]), float(v))
                tolg = Fraction(16 * U * ymax) + Fraction(1, 2 ** 79)
                for j, v in enumerate(gm):
                    if abs(F(y[j]) - v) > tolg:
                        return "grid[%d]: code %r, exact model %r" % (j, float(y[j]), float(v))
                if exact:
                    ctx.count("rouw:P-exact-vs-Rat(dyadic)")
                return None

            cases.append(Case("C13 rouw mode=rat %s sd=%s rt=%s" % (base, fx(sd), fx(rt)), impl,
                              nontrivial=(n >= 3), cmp=cmp_rat, tag="rouw-rat"))
    # error path: n < 2
    for n in (0, 1):
        try:
            rouwenhorst(n, 0.5, 1.0, 0.0)
            out = "no-error"
        except ValueError:
            out = "ERR:ValueError"
        ctx.count("rouw:n<2-ValueError")
        cases.append(Case("C13 rouw mode=float n=%d rho=%s sigma=%s mu=%s" % (n, fx(0.5), fx(1.0), fx(0.0)), out,
                          nontrivial=False, tag="rouw-float"))


def linspace_cases(ctx, cases):
    """numpy.linspace (external, mirrored by the model because both grids are built with it)"""
    r = ctx.rng
    for _ in range(ctx.n(40, 400)):
        n = r.choice([0, 1, 2, 3, 5, 8, 40]) if r.random() < 0.5 else r.randint(2, 40)
        a = r.choice([r.uniform(-5, 5), -10.0 ** r.uniform(-3, 4), 0.0])
        b = r.choice([-a, -a, r.uniform(-5, 5), a])
        if a == b:
            ctx.count("linspace:step==0")
        if n <= 1:
            ctx.count("linspace:n<=1")
        y = np.linspace(a, b, n)
        cases.append(Case("C13 linspace mode=float n=%d a=%s b=%s" % (n, fx(a), fx(b)), fxs(y),
                          nontrivial=(n >= 3 and a != b), tag="linspace"))


# ----------------------------------------------------------------------------
# tauchen


def tauchen_spec(ctx, n, rho, sigma, mu, nstd, P, y):
    """cell probabilities recomputed from the parameters alone with 40-digit arithmetic"""
    import mpmath as mp
    rp = {"op": "tauchen", "n": n, "rho": rho, "sigma": sigma, "mu": mu, "n_std": nstd,
          "rho_hex": float(rho).hex(), "sigma_hex": float(sigma).hex(), "mu_hex": float(mu).hex()}
    if P.shape != (n, n) or y.shape != (n,):
        ctx.spec_fail("tauchen_shape", "wrong shape", rp)
        return
    with mp.workdps(40):
        r, s, m = mp.mpf(rho), mp.mpf(sigma), mp.mpf(mu)
        sdy = s / mp.sqrt(1 - r * r)
        xmax = nstd * sdy
        step = 2 * xmax / (n - 1)
        x = [-xmax + step * j for j in range(n)]
        mbar = m / (1 - r)
        ymax = max(abs(float(v)) for v in y) + abs(float(mbar))
        for j in range(n):
            if abs(mp.mpf(float(y[j])) - (x[j] + mbar)) > 32 * U * ymax:
                ctx.spec_fail("tauchen_grid", "grid[%d]=%r, expected %s" % (j, float(y[j]), mp.nstr(x[j] + mbar, 17)), dict(rp, j=j))
                return

        def cdf(z):
            return mp.erfc(-z / mp.sqrt(2)) / 2

        for i in range(n):
            rs = mp.mpf(0)
            for j in range(n):
                v = mp.mpf(float(P[i, j]))
                rs += v
                if v < 0:
                    ctx.spec_fail("tauchen_stochastic", "P[%d,%d] < 0" % (i, j), dict(rp, i=i, j=j))
                    return
                z = x[j] - r * x[i]
                hi = mp.mpf(1) if j == n - 1 else cdf((z + step / 2) / s)
                lo = mp.mpf(0) if j == 0 else cdf((z - step / 2) / s)
                if abs(v - (hi - lo)) > mp.mpf(10) ** -12:
                    ctx.spec_fail("tauchen_cell_prob", "P[%d,%d]=%r, Gaussian mass of the cell %s" % (i, j, float(v), mp.nstr(hi - lo, 17)),
                                  dict(rp, i=i, j=j))
                    return
            if abs(rs - 1) > mp.mpf(10) ** -12:
                ctx.spec_fail("tauchen_stochastic", "row %d sums to %s" % (i, mp.nstr(rs, 17)), dict(rp, i=i))
                return


def tauchen_cases(ctx, cases):
    from quantecon.markov.approximation import tauchen
    plan = [("edge", len(EDGES)), ("dyadic", ctx.n(12, 100)), ("small", ctx.n(24, 300)), ("wide", ctx.n(10, 120))]
    todo = []
    for kind, cnt in plan:
        for k in range(cnt):
            n, rho, sigma, mu = ar1_params(ctx, kind, k)
            nstd = (1, 5, 3, 2, 4)[k % 5] if kind == "edge" else ctx.rng.choice([1, 2, 3, 3, 4, 5])
            try:
                mc = call_ar1(ctx, tauchen, "tauchen", n, rho, sigma, mu, nstd)
            except Exception as e:      # valid parameters: any exception is a violation, not a tool failure
                ctx.spec_fail("tauchen_raises", "%s: %s" % (type(e).__name__, e),
                              {"op": "tauchen", "n": n, "rho": rho, "sigma": sigma, "mu": mu, "n_std": nstd,
                               "rho_hex": float(rho).hex(), "sigma_hex": float(sigma).hex(), "mu_hex": float(mu).hex()})
                cases.append(Case("C13 tauchen_args n=%d rho=%s sigma=%s nstd=%d" % (n, fx(rho), fx(sigma), nstd),
                                  "ERR:" + type(e).__name__, tag="tauchen"))
                continue
            P, y = np.asarray(mc.P), np.asarray(mc.state_values)
            ctx.count("tauchen:" + kind)
            ctx.count("tauchen:rho<0" if rho < 0 else "tauchen:rho>=0")
            ctx.count("tauchen:n_std=%d" % nstd)
            if n >= 3:
                ctx.count("tauchen:interior-cells(n>=3)")
            tauchen_spec(ctx, n, rho, sigma, mu, nstd, P, y)
            todo.append((n, rho, sigma, mu, nstd, P, y))
    # stage 1: the model says at which arguments erfc is needed
    outs = ctx.driver(["C13 tauchen_args n=%d rho=%s sigma=%s nstd=%d" % (n, fx(rho), fx(sigma), nstd)
                       for (n, rho, sigma, mu, nstd, P, y) in todo])
    for (n, rho, sigma, mu, nstd, P, y), ao in zip(todo, outs):
        impl = "P=%s grid=%s" % (fxm(P), fxs(y))
        base = "n=%d rho=%s sigma=%s mu=%s nstd=%d" % (n, fx(rho), fx(sigma), fx(mu), nstd)
        if ao == "bad-op" or not ao:
            cases.append(Case("C13 tauchen_args " + base, impl, tag="tauchen"))
            continue
        args = ao.split(",")
        if len(args) != n * (2 * n - 2):
            ctx.count("tauchen:unexpected-arg-count")
        # stage 2: erfc evaluated here, independently of the library (math.erfc)
        tbl = ",".join("%s:%s" % (a, fx(math.erfc(unfx(a)))) for a in sorted(set(args)))
        ymax = float(np.max(np.abs(y)))

        def cmp_t(mo, im, ymax=ymax):
            if mo == im:
                ctx.count("fidelity:tauchen-float-bit-exact")
                return None
            ctx.count("fidelity:tauchen-float-differs")
            a, b = kvs(mo), kvs(im)
            try:
                Pm, Pc = bits_mat(a["P"]), bits_mat(b["P"])
                gm, gc = bits_list(a["grid"]), bits_list(b["grid"])
            except Exception:
                return "unparsable model output"
            if len(Pm) != len(Pc) or len(gm) != len(gc):
                return "shape differs"
            for r1, r2 in zip(Pm, Pc):
                if len(r1) != len(r2) or any(not abs(u - v) <= 1e-13 for u, v in zip(r1, r2)):
                    return "P differs by more than 1e-13"
            if any(not abs(u - v) <= 16 * U * ymax for u, v in zip(gm, gc)):
                return "grid differs by more than 16u*max|y|"
            return None

        cases.append(Case("C13 tauchen %s erfc=%s" % (base, tbl), impl, nontrivial=(n >= 3), cmp=cmp_t, tag="tauchen"))
        # exact grid given the code's own std_y
        sd = float(np.sqrt(sigma ** 2 / (1 - rho ** 2)))

        def cmp_g(mo, im, y=y, ymax=ymax):
            a = kvs(mo)
            try:
                gm = fix_list(a["grid"])
            except Exception:
                return "unparsable model output"
            if len(gm) != len(y):
                return "shape differs"
            tolg = Fraction(16 * U * ymax) + Fraction(1, 2 ** 79)
            for j, v in enumerate(gm):
                if abs(F(y[j]) - v) > tolg:
                    return "grid[%d]: code %r, exact model %r" % (j, float(y[j]), float(v))
            return None

        cases.append(Case("C13 tauchen_grid %s sd=%s" % (base, fx(sd)), impl, nontrivial=(n >= 3), cmp=cmp_g, tag="tauchen-grid"))


# ----------------------------------------------------------------------------
# estimate_mc / fit_discrete_mc


def brute_estimate(obs):
    """obs: list of hashable, totally ordered observations. Returns (states, counts, totals)."""
    states = sorted(set(obs))
    pos = {s: k for k, s in enumerate(states)}
    n = len(states)
    C = [[0] * n for _ in range(n)]
    for a, b in zip(obs[:-1], obs[1:]):
        C[pos[a]][pos[b]] += 1
    return states, C, [sum(r) for r in C]


def gen_sequence(ctx):
    """(array X, list of observations as tuples of Fractions, kind)"""
    r = ctx.rng
    T = r.choice([2, 3, 4, 5, 8, 13, 30, 60, 120, 200]) if r.random() < 0.5 else r.randint(2, 40)
    kind = r.choice(["int", "int", "float-dyadic", "float", "2d", "2d", "3d"])
    k = r.choice([1, 2, 3, 4, 6, 10]) if T > 3 else r.choice([1, 2, 3])
    if kind == "int":
        pool = r.sample(range(-20, 21), k)
        X = np.array([r.choice(pool) for _ in range(T)], dtype=np.int64)
    elif kind == "float-dyadic":
        pool = [v / 8.0 for v in r.sample(range(-40, 41), k)]
        X = np.array([r.choice(pool) for _ in range(T)])
    elif kind == "float":
        pool = [r.choice([r.gauss(0, 1), r.uniform(-1e6, 1e6), 10.0 ** r.uniform(-8, 8)]) for _ in range(k)]
        if k >= 2 and r.random() < 0.5:
            pool[1] = np.nextafter(pool[0], np.inf)       # neighbouring doubles are distinct states
        X = np.array([r.choice(pool) for _ in range(T)])
    elif kind == "2d":
        d = r.randint(1, 3)
        pool = [tuple(r.randint(-2, 2) for _ in range(d)) for _ in range(k)]
        if r.random() < 0.3:
            pool = [tuple(v / 4.0 for v in p) for p in pool]
        X = np.array([r.choice(pool) for _ in range(T)])
    else:
        pool = [tuple(tuple(r.randint(0, 1) for _ in range(2)) for _ in range(2)) for _ in range(k)]
        X = np.array([r.choice(pool) for _ in range(T)])
    # mostly: every occurring state is left at least once (the last value occurred before)
    flat = X.reshape(len(X), -1)
    last_seen_before = any(np.array_equal(flat[-1], flat[t]) for t in range(len(X) - 1))
    if not last_seen_before and r.random() < 0.8:
        X = X.copy()
        X[-1] = X[r.randrange(len(X) - 1)]
    if r.random() < 0.06:                 # a fresh last value: a state that is never left
        X = X.copy()
        X[-1] = 77
    flat = X.reshape(len(X), -1)
    obs = [tuple(Fraction(v.item()) for v in row) for row in flat]
    return X, obs, kind


INT_FORMS = ["int8", "int16", "int32", "int64", "uint8", "uint16", "uint32", "uint64"]
CONTAINER_FORMS = ["asis", "asis", "list", "tuple", "F-order", "view-rows", "view-cols", "neg-stride"]


def as_form(A, container, r):
    """the same observations as array `A`, handed over in another argument form"""
    if container == "list":
        return A.tolist()
    if container == "tuple":
        def tup(v):
            return tuple(tup(e) for e in v) if isinstance(v, list) else v
        return tup(A.tolist())
    if container == "F-order" and A.ndim >= 2:
        return np.asfortranarray(A)
    if container == "view-rows":
        big = np.zeros((2 * A.shape[0] + 1,) + A.shape[1:], dtype=A.dtype)
        big[1::2] = A
        return big[1::2]
    if container == "view-cols" and A.ndim >= 2:
        big = np.zeros((A.shape[0], 2 * A.shape[1]) + A.shape[2:], dtype=A.dtype)
        big[:, ::2] = A
        return big[:, ::2]
    if container == "neg-stride":
        return A[::-1].copy()[::-1]
    return A


def int_pool(r, form, k):
    """k distinct values of an integer dtype: extremes, more than half the dtype's span apart, clustered"""
    info = np.iinfo(form)
    lo, hi = int(info.min), int(info.max)
    span = hi - lo
    mode = r.choice(["wide", "half", "narrow", "extremes"])
    if mode == "narrow":
        c = r.choice([lo, hi - 40, 0 if lo < 0 else span // 2, r.randint(lo, hi - 40)])
        cand = [c + j for j in range(0, 41)]
    elif mode == "half":      # max - min strictly between span/2 and span
        a = r.randint(lo, lo + span // 2 - 2)
        b = r.randint(a + span // 2 + 1, min(hi, a + span - 1))
        cand = [a, b] + [r.randint(a, b) for _ in range(12)] + [a + 1, b - 1]
    elif mode == "extremes":
        cand = [lo, hi, lo + 1, hi - 1, lo + span // 2, lo + span // 2 + 1, 0, 1] + ([-1, -100, 100] if lo < 0 else [100, 200])
    else:
        cand = [r.randint(lo, hi) for _ in range(14)] + [lo, hi, 0, -100 if lo < 0 else 3, 100]
    cand = sorted(set(v for v in cand if lo <= v <= hi))
    pool = r.sample(cand, min(k, len(cand)))
    if mode in ("half", "extremes") and len(pool) >= 2:
        pool[0], pool[1] = cand[0], cand[-1]           # make sure both ends occur
    return pool, mode


def gen_form_sequence(ctx):
    """estimate_mc over ARGUMENT FORMS: (argument, base array, observations as Fractions, label)"""
    r = ctx.rng
    T = r.choice([2, 3, 4, 5, 8, 13, 30, 60, 120, 200]) if r.random() < 0.5 else r.randint(2, 40)
    k = r.choice([1, 2, 3, 4, 6, 10]) if T > 3 else r.choice([1, 2, 3])
    form = r.choice(INT_FORMS + INT_FORMS + ["bool", "float32", "float64", "float32", "float64", "pyint", "pyfloat",
                                             "nd-int", "nd-float", "nd-int", "nd-float"])
    label = form
    if form in INT_FORMS:
        pool, mode = int_pool(r, form, k)
        label = "%s/%s" % (form, mode)
        A = np.array([r.choice(pool) for _ in range(T)], dtype=form)
    elif form == "bool":
        A = np.array([r.random() < 0.5 for _ in range(T)], dtype=bool)
    elif form in ("float32", "float64"):
        ft = np.dtype(form).type
        fi = np.finfo(form)
        base = ft(r.choice([1.0, -2.5, 1e30, -1e-30, 3.0e38 if form == "float32" else 1.5e308, float(fi.tiny)]))
        cand = [base, np.nextafter(base, ft(np.inf), dtype=ft), np.nextafter(base, ft(-np.inf), dtype=ft),
                ft(0.0), ft(-0.0), ft(fi.max), ft(-fi.max), ft(fi.smallest_subnormal), ft(r.gauss(0, 1)), ft(r.uniform(-1e6, 1e6))]
        pool = [cand[i] for i in r.sample(range(len(cand)), min(k, len(cand)))]
        if r.random() < 0.3 and len(pool) >= 2:
            pool[0], pool[1] = ft(0.0), ft(-0.0)
        A = np.array([r.choice(pool) for _ in range(T)], dtype=form)
    elif form == "pyint":
        pool = r.sample([0, 1, -1, 2 ** 62, -2 ** 62, 2 ** 63 - 1, -2 ** 63, 7, 100, -100, 12345678901], k)
        A = np.array([r.choice(pool) for _ in range(T)], dtype=np.int64)
    elif form == "pyfloat":
        pool = r.sample([0.0, 0.1, -0.1, 1e300, -1e300, 1e-300, 2.5, 0.30000000000000004, 0.3, 1.0], k)
        A = np.array([r.choice(pool) for _ in range(T)], dtype=np.float64)
    else:
        dt = r.choice(["int8", "int16", "int64", "uint8", "uint64"] if form == "nd-int" else ["float32", "float64"])
        shape = (r.randint(1, 3),) if r.random() < 0.6 else (2, 2)
        if form == "nd-int":
            info = np.iinfo(dt)
            vals = [int(info.min), int(info.max), 0, 1, int(info.min) + 1, int(info.max) // 2 + 1]
        else:
            vals = [0.0, -0.0, 0.25, -1.5, float(np.finfo(dt).max), 1e-30]
        pool = [np.array([r.choice(vals) for _ in range(int(np.prod(shape)))], dtype=dt).reshape(shape) for _ in range(k)]
        A = np.array([pool[r.randrange(len(pool))] for _ in range(T)], dtype=dt)
        label = "%s/%s/%dd" % (form, dt, A.ndim)
    flat = A.reshape(len(A), -1)
    seen = any(np.array_equal(flat[-1], flat[t]) for t in range(len(A) - 1))
    if not seen and r.random() < 0.9:
        A = A.copy()
        A[-1] = A[r.randrange(len(A) - 1)]
    if form in ("pyint", "pyfloat"):
        container = r.choice(["list", "tuple"])
    else:
        container = r.choice(CONTAINER_FORMS)
    if container in ("list", "tuple") and A.dtype == np.uint64 and int(A.max()) >= 2 ** 63:
        # np.asarray turns Python ints beyond int64 into float64 (lossy) before the library sees them:
        # not an argument form with exact values, keep the ndarray
        container = "asis"
    arg = as_form(A, container, r)
    flat = A.reshape(len(A), -1)
    obs = [tuple(Fraction(v.item()) for v in row) for row in flat]
    return arg, A, obs, label, container


def p_string(P):
    return fxm(P)


def model_P_bits(s):
    """rational matrix of the model -> correctly rounded doubles' bit strings"""
    return ";".join(",".join(fx(float(q)) for q in row) for row in parse_ratm(s))


def estimate_cases(ctx, cases):
    from quantecon.markov.estimate import estimate_mc, _count_transition_frequencies
    n_plain, n_forms = ctx.n(300, 3000), ctx.n(500, 5000)
    for it in range(n_plain + n_forms):
        if it < n_plain:
            X, obs, kind = gen_sequence(ctx)
            arg = X
            rp = {"op": "estimate_mc", "X": X.tolist()}
        else:
            arg, X, obs, kind, container = gen_form_sequence(ctx)
            ctx.count("estimate-form:container=" + container)
            kind = "form:" + kind
            rp = {"op": "estimate_mc", "X": X.tolist(), "dtype": str(X.dtype), "container": container}
        states, C, tot = brute_estimate(obs)
        n = len(states)
        ctx.count("estimate:" + kind)
        ctx.count("estimate:len>=100" if len(obs) >= 100 else "estimate:len<100")
        valid = all(t > 0 for t in tot)
        arg_snap = snap(arg) if isinstance(arg, np.ndarray) else None
        try:
            with warnings.catch_warnings():
                warnings.simplefilter("ignore")
                mc = estimate_mc(arg)
            if arg_snap is not None:
                if snap(arg) != arg_snap:
                    ctx.spec_fail("input_mutated", "estimate_mc changed its argument", rp)
                if np.shares_memory(np.asarray(mc.P), arg) or np.shares_memory(np.asarray(mc.state_values), arg):
                    ctx.spec_fail("alias_result_input", "estimate_mc's result shares memory with X", rp)
            P = np.asarray(mc.P)
            sv = np.asarray(mc.state_values)
            svq = [tuple(Fraction(v.item()) for v in row) for row in sv.reshape(len(sv), -1)]
            impl = "states=%s P=%s" % (ratm(svq), fxm(P))
            # ---- spec (brute force, exact) ----
            if not valid:
                ctx.spec_fail("estimate_mc_unleft_state", "a state that is never left was accepted", rp)
            elif svq != states:
                ctx.spec_fail("estimate_mc_states", "state_values are not the sorted distinct observations", rp)
            elif P.shape != (n, n) or any(float(P[i, j]) != C[i][j] / tot[i] for i in range(n) for j in range(n)):
                ctx.spec_fail("estimate_mc_P", "P[i,j] != N_ij / N_i", rp)
            if n >= 2:
                ctx.count("estimate:>=2-states")
            if any(C[i][i] > 0 for i in range(n)):
                ctx.count("estimate:self-loops")
        except ValueError:
            impl = "ERR:ValueError"
            ctx.count("estimate:ValueError(state never left)")
            if valid:
                ctx.spec_fail("estimate_mc_raises", "ValueError on a sequence in which every state is left", rp)
        except Exception as e:
            impl = "ERR:" + type(e).__name__
            ctx.spec_fail("estimate_mc_raises", "%s: %s" % (type(e).__name__, e), rp)
        # the integer kernel on the code's own inverse indices
        flat = X.reshape(len(X), -1)
        axis = 0 if X.ndim > 1 else None
        _, inv = np.unique(X, return_inverse=True, axis=axis)
        inv = np.asarray(inv).reshape(-1)
        Cc = _count_transition_frequencies(inv, np.zeros((n, n)))
        impl_full = "idx=%s counts=%s %s" % (ints(inv), intm(Cc), impl)

        def cmp_e(mo, im):
            a = kvs(mo)
            try:
                if a["P"] == "ERR:ValueError":
                    got = "idx=%s counts=%s ERR:ValueError" % (a["idx"], a["counts"])
                else:
                    got = "idx=%s counts=%s states=%s P=%s" % (a["idx"], a["counts"], a["states"], model_P_bits(a["P"]))
            except Exception:
                return "unparsable model output"
            return None if got == im else "outputs differ (model canonicalised: %s)" % got[:200]

        cases.append(Case("C13 estimate X=%s" % ratm(obs), impl_full, nontrivial=(n >= 2), cmp=cmp_e, tag="estimate"))


FIT_COMBOS = [
    (False, "float64", "asis", ["float64"], "asis", "tuple", None),
    (False, "float64", "asis", ["float64"], "asis", "tuple", None),
    (False, "float64", "list", ["pylist"], "asis", "list", None),
    (False, "float64", "tuple", ["float64", "pylist"], "asis", "tuple", None),
    (False, "float32", "asis", ["float64"], "asis", "tuple", 2),
    (False, "float64", "F-order", ["float32"], "asis", "list", 2),
    (False, "float64", "view-cols", ["float64"], "view-rows", "tuple", 3),
    (False, "float32", "neg-stride", ["float32", "float64"], "neg-stride", "tuple", 1),
    (True, "int64", "asis", ["int64", "pylist"], "asis", "tuple", None),
    (True, "int8", "asis", ["int8"], "asis", "tuple", 2),
    (True, "int16", "view-rows", ["float64"], "asis", "list", 1),
    (True, "int32", "F-order", ["int16", "float32"], "asis", "tuple", 2),
    (True, "uint8", "asis", ["int64"], "asis", "tuple", 1),
    (True, "uint64", "list", ["pylist"], "asis", "tuple", 2),
    (True, "float64", "asis", ["int8", "int64"], "view-rows", "tuple", 2),
]


def fit_layout_probe(ctx):
    """grids given as a strided view next to a contiguous array (a legal array_like form)"""
    from quantecon.markov.estimate import fit_discrete_mc
    X = [(0.1, 0.9), (1.9, 0.1), (0.1, 0.9)]
    grids = (np.arange(6.)[::2], np.array([0., 1.]))
    try:
        with warnings.catch_warnings():
            warnings.simplefilter("ignore")
            mc = fit_discrete_mc(X, grids)
        ok = np.asarray(mc.P).tolist() == [[0.0, 1.0], [1.0, 0.0]] and np.asarray(mc.state_values).tolist() == [[0.0, 1.0], [2.0, 0.0]]
        what = None if ok else "wrong result for mixed-layout grids"
    except Exception as e:
        what = "%s raised for grids=(np.arange(6.)[::2], np.array([0.,1.])): %s" % (type(e).__name__, str(e).splitlines()[0][:120])
    if what is None:
        ctx.count("fit:mixed-layout-grids-ok")
    else:   # regression of the fixed finding (cartesian_nearest_index must accept mixed array layouts)
        ctx.spec_fail("fit_mixed_layout_grids", what,
                      {"op": "fit_discrete_mc", "X": [["1/10", "9/10"], ["19/10", "1/10"], ["1/10", "9/10"]],
                       "grids": [["0", "2", "4"], ["0", "1"]], "order": "C",
                       "form": "grids=(np.arange(6.)[::2], np.array([0.,1.]))"})


def fit_cases(ctx, cases):
    from quantecon.markov.estimate import fit_discrete_mc
    from quantecon import _gridtools as gt
    r = ctx.rng
    for _ in range(ctx.n(300, 3000)):
        # argument-form combos: (integer-valued?, X dtype, X container, grid dtypes, grid layout, grids container, fixed d)
        # every distinct (dtype, layout, d) signature costs one Numba compilation, hence the fixed d in the quick tier
        combo = r.choice(FIT_COMBOS)
        intmode, xdt, xcont, gdt_choices, glayout, gcont, dfix = combo
        d = r.randint(1, 3) if (dfix is None or ctx.thorough) else dfix
        grids = []
        for _i in range(d):
            ln = r.randint(1, 4)
            if intmode:
                grids.append([Fraction(v) for v in sorted(r.sample(range(-100, 101), ln))])
            else:
                grids.append([Fraction(v, 4) for v in sorted(r.sample(range(-12, 13), ln))])
        T = r.choice([2, 3, 5, 9, 20, 50, 120, 200]) if r.random() < 0.4 else r.randint(2, 25)
        X = []
        for _t in range(T):
            row = []
            for g in grids:
                kind = r.randrange(6)
                if kind == 0:
                    row.append(r.choice(g)); ctx.count("fit:on-grid")
                elif kind == 1 and len(g) >= 2 and (not intmode or any((g[i + 1] - g[i]) % 2 == 0 for i in range(len(g) - 1))):
                    i = r.choice([i for i in range(len(g) - 1) if not intmode or (g[i + 1] - g[i]) % 2 == 0])
                    row.append((g[i] + g[i + 1]) / 2); ctx.count("fit:midpoint-tie")
                elif kind == 2:
                    row.append(g[0] - (r.randint(0, 20) if intmode else Fraction(r.randint(0, 8), 8))); ctx.count("fit:below")
                elif kind == 3:
                    row.append(g[-1] + (r.randint(0, 20) if intmode else Fraction(r.randint(0, 8), 8))); ctx.count("fit:above")
                else:
                    row.append(Fraction(r.randint(-120, 120)) if intmode else Fraction(r.randint(-120, 120), 32)); ctx.count("fit:generic")
            X.append(row)
        if r.random() < 0.85:           # make the last observation revisit an earlier cell
            X[-1] = list(X[r.randrange(T - 1)])
        order = r.choice("CF")
        ctx.count("fit:order=" + order)
        # ---- argument forms (all values are exactly representable in every dtype used) ----
        if xdt == "int8" and any(not -128 <= v <= 127 for row in X for v in row):
            xdt = "int16"
        if xdt.startswith("uint") and any(v < 0 for row in X for v in row):
            xdt = "int64"
        gdts = [r.choice(gdt_choices) for _ in grids]
        if intmode and not xdt.startswith("float"):
            Xbase = np.array([[int(v) for v in row] for row in X], dtype=xdt)
        else:
            Xbase = np.array([[float(v) for v in row] for row in X], dtype=xdt)
        Xa = as_form(Xbase, xcont, r)
        tgl = []
        glays = set()
        for g, gd in zip(grids, gdts):
            if gd == "pylist":
                glays.add("asis")
                tgl.append([int(v) if intmode else float(v) for v in g])
            else:
                ga = np.array([int(v) if (intmode and not gd.startswith("float")) else float(v) for v in g], dtype=gd)
                # layouts and dtypes are mixed freely across the grids (regression guard for fit_mixed_layout_grids)
                lay = r.choice([glayout, "asis"]) if glayout != "asis" else r.choice(["asis", "asis", "asis", "view-rows", "neg-stride"])
                glays.add(lay if len(g) >= 2 else "asis")
                tgl.append(as_form(ga, lay, r))
        tg = tuple(tgl) if gcont == "tuple" else tgl
        form = "X:%s/%s grids:%s/%s/%s" % (xdt, xcont, "+".join(sorted(set(gdts))), glayout, gcont)
        ctx.count("fit-form:X=" + xdt)
        ctx.count("fit-form:Xcontainer=" + xcont)
        for gd in gdts:
            ctx.count("fit-form:grid=" + gd)
        ctx.count("fit-form:grids=%s/%s" % (glayout, gcont))
        if len(glays) > 1:
            ctx.count("fit-form:grids-mixed-layouts")
        if len(set(gdts)) > 1:
            ctx.count("fit-form:grids-mixed-dtypes")
        rp = {"op": "fit_discrete_mc", "X": [[str(v) for v in row] for row in X],
              "grids": [[str(v) for v in g] for g in grids], "order": order, "form": form}
        # exact oracle: nearest product index per observation (ties: any nearest point is acceptable,
        # the code's own choice is then used for the counts)
        if order == "C":
            prodq = [list(t) for t in itertools.product(*grids)]
        else:
            prodq = [list(reversed(t)) for t in itertools.product(*reversed(grids))]
        try:
            idx_code = [int(k) for k in np.atleast_1d(gt.cartesian_nearest_index(Xa, tg, order=order))]
        except Exception as e:          # a legal argument form that the library rejects
            ctx.spec_fail("fit_mixed_layout_grids" if type(e).__name__ == "TypingError" else "fit_nearest_raises",
                          "cartesian_nearest_index: %s: %s" % (type(e).__name__, str(e)[:200]), rp)
            continue
        ok = True
        for t in range(T):
            d2 = [sum((p - xi) ** 2 for p, xi in zip(row, X[t])) for row in prodq]
            if not (0 <= idx_code[t] < len(d2)) or d2[idx_code[t]] != min(d2):
                ctx.spec_fail("fit_nearest", "observation %d is not mapped to a nearest grid point" % t, dict(rp, t=t))
                ok = False
                break
        states, C, tot = brute_estimate(idx_code)
        n = len(states)
        valid = all(t > 0 for t in tot)
        try:
            with warnings.catch_warnings():
                warnings.simplefilter("ignore")
                in_arrs = [a for a in [Xa] + list(tg) if isinstance(a, np.ndarray)]
                in_snaps = [snap(a) for a in in_arrs]
                mc = fit_discrete_mc(Xa, tg, order=order)
            P = np.asarray(mc.P)
            sv = np.asarray(mc.state_values)
            if [snap(a) for a in in_arrs] != in_snaps:
                ctx.spec_fail("input_mutated", "fit_discrete_mc changed X or a grid", rp)
            if any(np.shares_memory(P, a) or np.shares_memory(sv, a) for a in in_arrs):
                ctx.spec_fail("alias_result_input", "fit_discrete_mc's result shares memory with an input", rp)
            svq = [[Fraction(float(v)) for v in row] for row in sv.reshape(len(sv), -1)]
            impl = "idx=%s states=%s P=%s" % (ints(idx_code), ratm(svq), fxm(P))
            if ok:
                if not valid:
                    ctx.spec_fail("fit_unleft_state", "a state that is never left was accepted", rp)
                elif svq != [prodq[k] for k in states]:
                    ctx.spec_fail("fit_states", "state_values are not the visited grid points in product order", rp)
                elif P.shape != (n, n) or any(float(P[i, j]) != C[i][j] / tot[i] for i in range(n) for j in range(n)):
                    ctx.spec_fail("fit_P", "P != estimate_mc of the nearest-grid-point sequence", rp)
            if n >= 2:
                ctx.count("fit:>=2-states")
        except ValueError:
            impl = "idx=%s ERR:ValueError" % ints(idx_code)
            ctx.count("fit:ValueError(state never left)")
            if valid and ok:
                ctx.spec_fail("fit_raises", "ValueError on a sequence in which every state is left", rp)
        except Exception as e:
            impl = "idx=%s ERR:%s" % (ints(idx_code), type(e).__name__)
            ctx.spec_fail("fit_raises", "%s: %s" % (type(e).__name__, e), rp)

        def cmp_f(mo, im):
            a = kvs(mo)
            try:
                if "ERR:ValueError" in mo:
                    got = "idx=%s ERR:ValueError" % a["idx"]
                else:
                    got = "idx=%s states=%s P=%s" % (a["idx"], a["states"], model_P_bits(a["P"]))
            except Exception:
                return "unparsable model output"
            return None if got == im else "outputs differ (model canonicalised: %s)" % got[:200]

        cases.append(Case("C13 fit X=%s grids=%s order=%s" % (ratm(X), ratm(grids), order), impl,
                          nontrivial=(n >= 2), cmp=cmp_f, tag="fit"))


# ----------------------------------------------------------------------------


# ----------------------------------------------------------------------------
# histories, kept results, aliasing (one process, many interleaved calls)


def unlisted(ctx, key, what, rp):
    """a defect of the CLEAN code on a legal form / history: alarmed only once listed in known_findings.txt"""
    if key in ctx.known:
        ctx.spec_fail(key, what, rp)
    else:
        ctx.count("unlisted-finding:" + key)
        ctx.notes.append("unlisted-finding:%s: %s" % (key, what))


def oracle_fit(X, grids, order, override=None):
    """pure-Python fit_discrete_mc: per-dimension nearest grid index (ties to the lower index), product index in the
    given order, brute-force counting. X, grids: Fractions. Returns (idx, state indices, state points, counts, totals)"""
    idx = []
    for t, x in enumerate(X):
        ind = []
        for d, (g, xi) in enumerate(zip(grids, x)):
            if override is not None and override.get((t, d)) is not None:
                ind.append(override[(t, d)])
                continue
            dist = [abs(xi - v) for v in g]
            ind.append(dist.index(min(dist)))
        k, mul = 0, 1
        dims = range(len(grids)) if order == "F" else reversed(range(len(grids)))
        for d in dims:
            k += mul * ind[d]
            mul *= len(grids[d])
        idx.append(k)
    if order == "C":
        prodq = [list(t) for t in itertools.product(*grids)]
    else:
        prodq = [list(reversed(t)) for t in itertools.product(*reversed(grids))]
    states, C, tot = brute_estimate(idx)
    return idx, states, [prodq[k] for k in states], C, tot


def snap(a):
    a = np.asarray(a)
    return (a.tobytes(), a.shape, str(a.dtype))


class Kept:
    """a returned MarkovChain kept alive, with the bits of P and state_values at return time"""
    def __init__(self, label, mc, args_key, inputs):
        self.label, self.mc, self.args_key = label, mc, args_key
        self.P0, self.sv0 = snap(mc.P), snap(mc.state_values)      # as returned (never updated)
        self.P, self.sv = self.P0, self.sv0                         # expected current bits (updated when WE edit)
        self.inputs = inputs                                        # list of (name, ndarray) handed to the call
        self.in_snaps = [snap(a) for _, a in inputs]


def history_cases(ctx):
    from quantecon.markov.approximation import rouwenhorst, tauchen
    from quantecon.markov.estimate import estimate_mc, fit_discrete_mc
    r = ctx.rng
    for ep in range(ctx.n(14, 120)):
        kept, log = [], []

        def rp():
            return {"op": "history", "episode": ep, "calls": list(log)}

        def audit(step):
            """every kept result bitwise as expected; every input array bitwise unchanged"""
            for kk in kept:
                if snap(kk.mc.P) != kk.P or snap(kk.mc.state_values) != kk.sv:
                    ctx.spec_fail("history_kept_result_changed",
                                  "result of call %s changed after %s" % (kk.label, step), rp())
                    kk.P, kk.sv = snap(kk.mc.P), snap(kk.mc.state_values)
                for (nm, a), s0 in zip(kk.inputs, kk.in_snaps):
                    if snap(a) != s0:
                        ctx.spec_fail("input_mutated", "input %s of call %s changed after %s" % (nm, kk.label, step), rp())
                        kk.in_snaps = [snap(b) for _, b in kk.inputs]

        def aliasing(new):
            arrs = [("P", np.asarray(new.mc.P)), ("state_values", np.asarray(new.mc.state_values))]
            if np.shares_memory(arrs[0][1], arrs[1][1]):
                ctx.spec_fail("alias_result_result", "P and state_values of %s share memory" % new.label, rp())
            for nm, a in arrs:
                for inm, ia in new.inputs:
                    if np.shares_memory(a, ia):
                        ctx.spec_fail("alias_result_input", "%s of %s shares memory with input %s" % (nm, new.label, inm), rp())
                for kk in kept:
                    for knm, ka in (("P", kk.mc.P), ("state_values", kk.mc.state_values)):
                        if np.shares_memory(a, np.asarray(ka)):
                            ctx.spec_fail("alias_result_earlier",
                                          "%s of %s shares memory with %s of earlier call %s" % (nm, new.label, knm, kk.label), rp())
                    for inm, ia in kk.inputs:
                        if np.shares_memory(a, ia):
                            ctx.spec_fail("alias_result_input", "%s of %s shares memory with input %s of earlier call %s"
                                          % (nm, new.label, inm, kk.label), rp())

        def do_call(kind, args):
            """args: serialisable description; returns a Kept or None"""
            label = "#%d:%s" % (len(log), kind)
            log.append({"fn": kind, "args": args})
            inputs = []
            try:
                if kind in ("tauchen", "rouwenhorst"):
                    n, rho, sigma, mu = args["n"], float.fromhex(args["rho"]), float.fromhex(args["sigma"]), float.fromhex(args["mu"])
                    if kind == "tauchen":
                        mc = tauchen(n, rho, sigma, mu, args["n_std"])
                        tauchen_spec(ctx, n, rho, sigma, mu, args["n_std"], np.asarray(mc.P), np.asarray(mc.state_values))
                    else:
                        mc = rouwenhorst(n, rho, sigma, mu)
                        rouw_spec(ctx, n, rho, sigma, mu, np.asarray(mc.P), np.asarray(mc.state_values))
                elif kind == "estimate_mc":
                    X = np.array(args["X"], dtype=args["dtype"])
                    inputs = [("X", X)]
                    obs = [tuple(Fraction(v.item()) for v in row) for row in X.reshape(len(X), -1)]
                    states, C, tot = brute_estimate(obs)
                    mc = estimate_mc(X)
                    sv = np.asarray(mc.state_values)
                    svq = [tuple(Fraction(v.item()) for v in row) for row in sv.reshape(len(sv), -1)]
                    P, m = np.asarray(mc.P), len(states)
                    if svq != states or P.shape != (m, m) or any(float(P[i, j]) != C[i][j] / tot[i] for i in range(m) for j in range(m)):
                        ctx.spec_fail("estimate_mc_history", "estimate_mc wrong inside a history (%s)" % label, rp())
                else:
                    Xq = [[Fraction(v) for v in row] for row in args["X"]]
                    gq = [[Fraction(v) for v in g] for g in args["grids"]]
                    X = np.array([[float(v) for v in row] for row in Xq])
                    grids = tuple(np.array([float(v) for v in g]) for g in gq)
                    inputs = [("X", X)] + [("grids[%d]" % i, g) for i, g in enumerate(grids)]
                    idx, st, pts, C, tot = oracle_fit(Xq, gq, args["order"])
                    mc = fit_discrete_mc(X, grids, order=args["order"])
                    sv = np.asarray(mc.state_values)
                    svq = [[Fraction(float(v)) for v in row] for row in sv.reshape(len(sv), -1)]
                    P, m = np.asarray(mc.P), len(st)
                    if svq != pts or P.shape != (m, m) or any(float(P[i, j]) != C[i][j] / tot[i] for i in range(m) for j in range(m)):
                        ctx.spec_fail("fit_history", "fit_discrete_mc wrong inside a history (%s)" % label, rp())
            except Exception as e:
                ctx.spec_fail("history_raises", "%s raised %s: %s" % (label, type(e).__name__, str(e)[:150]), rp())
                return None
            new = Kept(label, mc, json.dumps([kind, args], sort_keys=True), inputs)
            aliasing(new)
            # a repeated call (same arguments as an earlier one) must return the same bits as that one did
            for kk in kept:
                if kk.args_key == new.args_key and (kk.P0, kk.sv0) != (new.P0, new.sv0):
                    ctx.spec_fail("history_repeat_differs", "%s differs from the identical earlier call %s" % (label, kk.label), rp())
            kept.append(new)
            ctx.count("history:call-" + kind)
            return new

        def fresh_args(kind):
            if kind in ("tauchen", "rouwenhorst"):
                n, rho, sigma, mu = ar1_params(ctx, r.choice(["dyadic", "small"]))
                n = min(n, 9)
                a = {"n": n, "rho": float(rho).hex(), "sigma": float(sigma).hex(), "mu": float(mu).hex()}
                if kind == "tauchen":
                    a["n_std"] = r.randint(1, 5)
                return a
            if kind == "estimate_mc":
                dt = r.choice(["int64", "int8", "float64", "int32"])
                k = r.randint(1, 4)
                pool = r.sample(range(-100, 101), k)
                T = r.randint(2, 30)
                seq = [r.choice(pool) for _ in range(T - 1)]
                seq.append(seq[r.randrange(len(seq))])
                if r.random() < 0.3:          # 2-d observations
                    seq = [[v, v % 3] for v in seq]
                return {"X": seq, "dtype": dt}
            d = r.randint(1, 2)
            grids = [[str(Fraction(v, 2)) for v in sorted(r.sample(range(-6, 7), r.randint(1, 4)))] for _ in range(d)]
            T = r.randint(2, 20)
            X = [[str(Fraction(r.randint(-64, 64), 8)) for _ in range(d)] for _ in range(T - 1)]
            X.append(list(X[r.randrange(len(X))]))
            return {"X": X, "grids": grids, "order": r.choice("CF")}

        for step in range(ctx.n(10, 16)):
            act = r.random()
            if act < 0.45 or not kept:
                kind = r.choice(["tauchen", "rouwenhorst", "estimate_mc", "fit_discrete_mc"])
                do_call(kind, fresh_args(kind))
                what = "a new call"
            elif act < 0.65:            # the same call again (same arguments, fresh input arrays)
                kk = r.choice(kept)
                kind, args = json.loads(kk.args_key)
                do_call(kind, args)
                ctx.count("history:repeat")
                what = "a repeated call"
            elif act < 0.8:             # use the lazily built parts of a kept chain
                kk = r.choice(kept)
                try:
                    with warnings.catch_warnings():
                        warnings.simplefilter("ignore")
                        kk.mc.stationary_distributions
                        kk.mc.cdfs
                        kk.mc.is_irreducible
                        kk.mc.simulate(5, random_state=r.randrange(100))
                except Exception:
                    pass                # the behaviour of MarkovChain itself is C02 / C03 / C10's subject
                log.append({"fn": "use-caches", "of": kk.label})
                ctx.count("history:use-lazy-caches")
                what = "using the caches of %s" % kk.label
            elif act < 0.9:             # WE edit a kept result in place: later calls must not see it
                kk = r.choice(kept)
                Pm, svm = np.asarray(kk.mc.P), np.asarray(kk.mc.state_values)
                if Pm.flags.writeable and svm.flags.writeable:
                    Pm[...] = 0
                    Pm[:, 0] = 1
                    svm[...] = svm[::-1].copy() if svm.dtype != bool else svm
                    kk.P, kk.sv = snap(Pm), snap(svm)
                    log.append({"fn": "edit-result-in-place", "of": kk.label})
                    ctx.count("history:edit-result-in-place")
                what = "editing %s in place" % kk.label
            else:                       # WE edit the input arrays of an earlier call: kept results must not change
                cand = [kk for kk in kept if kk.inputs]
                if cand:
                    kk = r.choice(cand)
                    for _, a in kk.inputs:
                        if a.flags.writeable:
                            a[...] = a[::-1].copy()
                    kk.in_snaps = [snap(a) for _, a in kk.inputs]
                    log.append({"fn": "edit-inputs-in-place", "of": kk.label})
                    ctx.count("history:edit-inputs-in-place")
                what = "editing the inputs of an earlier call"
            audit(what)
        ctx.count("history:episodes")



# ----------------------------------------------------------------------------
# discrete_var: the glue around fit_discrete_mc (default sizes, linspace grids, order)


class _FixedRV:
    """`rv` argument of discrete_var: a frozen 'distribution' whose draws are prescribed"""
    def __init__(self, draws):
        self.draws = draws

    def rvs(self, size, random_state=None):
        return self.draws[:size]


def dvar_cases(ctx, cases):
    import quantecon.markov.approximation as ap
    from quantecon._matrix_eqn import solve_discrete_lyapunov
    r = ctx.rng
    rec = {}
    orig = ap.simulate_linear_model

    def recording(*a, **k):
        out = orig(*a, **k)
        rec["X"] = np.array(out, copy=True)
        return out

    ap.simulate_linear_model = recording
    try:
        for it in range(ctx.n(60, 500)):
            m = r.choice([1, 1, 2, 2, 3])
            rr = r.choice([m, m, 1, m + 1])
            A = np.diag([r.uniform(-0.9, 0.9) for _ in range(m)])
            if m >= 2 and r.random() < 0.5:
                A[0, 1] = r.uniform(-0.2, 0.2)
            C = np.array([[r.uniform(-1, 1) for _ in range(rr)] for _ in range(m)])
            for i in range(m):
                C[i, i % rr] += 1.0          # keep every coordinate non-degenerate
            T = r.choice([1, 2, 3, 5, 10, 30, 80, 200])
            order = r.choice("CF")
            kw = {"sim_length": T, "order": order}
            malformed = None
            gs_kind = r.choice(["none", "list", "array", "tuple", "ones"])
            if gs_kind == "none":
                sizes, sizes_tok = None, "none"
                if r.random() < 0.5:
                    kw["grid_sizes"] = None
            else:
                sizes = [1 if gs_kind == "ones" else r.choice([1, 2, 3, 4, 7, 10]) for _ in range(m)]
                if r.random() < 0.08 and m >= 2:
                    sizes = sizes[:-1]          # malformed: too few grid sizes -> IndexError
                    malformed = "IndexError"
                elif r.random() < 0.08:
                    sizes[r.randrange(m)] = 0   # malformed: an empty grid -> IndexError
                    malformed = "IndexError"
                elif r.random() < 0.1:
                    sizes = sizes + [5]         # surplus entries are ignored
                    ctx.count("dvar:surplus-grid-sizes")
                kw["grid_sizes"] = {"list": sizes, "array": np.array(sizes), "tuple": tuple(sizes), "ones": sizes}[gs_kind]
                sizes_tok = ints(sizes)
            std = r.choice([None, 1.0, 2.5, float(np.sqrt(10)), 0.5])
            if std is not None:
                kw["std_devs"] = std
            std_eff = float(np.sqrt(10)) if std is None else float(std)
            if r.random() < 0.5:
                draws = np.array([[r.gauss(0, 1) for _ in range(rr)] for _ in range(max(T - 1, 0))]).reshape(max(T - 1, 0), rr)
                kw["rv"] = _FixedRV(draws)
                ctx.count("dvar:rv-given")
            else:
                kw["random_state"] = r.randrange(2 ** 31)
                ctx.count("dvar:random_state-seed")
            rp = {"op": "discrete_var", "A": A.tolist(), "C": C.tolist(), "sim_length": T, "order": order,
                  "grid_sizes": None if sizes is None else list(sizes), "std_devs": std,
                  "rv_draws": kw["rv"].draws.tolist() if "rv" in kw else None, "random_state": kw.get("random_state")}
            rec.clear()
            try:
                with warnings.catch_warnings():
                    warnings.simplefilter("ignore")
                    mc = ap.discrete_var(A, C, **kw)
                P, sv = np.asarray(mc.P), np.asarray(mc.state_values)
                impl = "states=%s P=%s" % (fxm(sv.reshape(len(sv), -1)), fxm(P))
                outcome = "ok"
            except ValueError:
                impl, outcome = "ERR:ValueError", "ValueError"
            except IndexError:
                impl, outcome = "ERR:IndexError", "IndexError"
            except Exception as e:
                ctx.spec_fail("discrete_var_raises", "%s: %s" % (type(e).__name__, str(e)[:150]), rp)
                continue
            ctx.count("dvar:" + outcome)
            ctx.count("dvar:order=" + order)
            ctx.count("dvar:grid_sizes=" + gs_kind)
            if "X" not in rec:
                ctx.spec_fail("discrete_var_no_simulation", "discrete_var did not simulate the process", rp)
                continue
            X = rec["X"].T                       # rows = observations
            sigma = np.sqrt(np.diagonal(solve_discrete_lyapunov(A, C @ C.T)))    # external (Lyapunov solve + sqrt)
            # ---- spec: exact oracle from the parameters (Fractions): grids, nearest points, counts ----
            if malformed == "IndexError":
                if outcome != "IndexError":
                    ctx.spec_fail("discrete_var_grid_sizes", "too few grid sizes accepted (%s)" % outcome, rp)
            else:
                szs = [10] * m if sizes is None else list(sizes)[:m]
                gq = []
                for i in range(m):
                    ub = Fraction(std_eff) * Fraction(float(sigma[i]))
                    gq.append([-ub] if szs[i] == 1 else [-ub + 2 * ub * j / (szs[i] - 1) for j in range(szs[i])])
                Xq = [[Fraction(float(v)) for v in row] for row in X]
                # a decision closer than 1e-9 (relative) to a tie (e.g. x0 = 0 on an even symmetric grid) depends on the
                # rounding of the grid points: there the float rule on NumPy's own linspace decides (not /repo code)
                override = {}
                for t, row in enumerate(Xq):
                    for d, (g, xi) in enumerate(zip(gq, row)):
                        dist = sorted(abs(xi - v) for v in g)
                        if len(dist) >= 2 and dist[1] - dist[0] <= Fraction(1, 10 ** 9) * (abs(g[0]) + 1):
                            ubf = std_eff * float(sigma[d])
                            gf = np.linspace(-ubf, ubf, szs[d])
                            xf = float(X[t][d])
                            if xf <= gf[0]:
                                kk = 0
                            elif xf >= gf[-1]:
                                kk = len(gf) - 1
                            else:
                                kk = int(np.searchsorted(gf, xf))
                                kk = kk if gf[kk] - xf < xf - gf[kk - 1] else kk - 1
                            override[(t, d)] = kk
                            ctx.count("dvar:near-tie-decided-by-float-rule")
                if True:
                    idx, st, pts, Cn, tot = oracle_fit(Xq, gq, order, override)
                    valid = all(t > 0 for t in tot)
                    if not valid:
                        if outcome != "ValueError":
                            ctx.spec_fail("discrete_var_unleft_state", "a state that is never left was accepted", rp)
                    elif outcome != "ok":
                        ctx.spec_fail("discrete_var_raises", "%s although every visited state is left" % outcome, rp)
                    else:
                        k = len(st)
                        svf = sv.reshape(len(sv), -1)
                        scale = max(float(abs(g[0])) for g in gq) + 1e-300
                        if svf.shape != (k, m) or any(abs(Fraction(float(svf[a, b])) - pts[a][b]) > Fraction(1, 10 ** 12) * Fraction(scale)
                                                         for a in range(k) for b in range(m)):
                            ctx.spec_fail("discrete_var_states", "state values are not the visited nearest grid points of "
                                          "linspace(-std_devs*sigma_i, std_devs*sigma_i, grid_sizes[i])", rp)
                        elif P.shape != (k, k) or any(float(P[a, b]) != Cn[a][b] / tot[a] for a in range(k) for b in range(k)):
                            ctx.spec_fail("discrete_var_P", "P is not the transition frequency matrix of the discretised path", rp)
            # ---- correspondence: the model gets sigma_vector and the simulated path ----
            def cmp_d(mo, im):
                if mo.startswith("ERR:") or im.startswith("ERR:"):
                    return None if mo == im else "outputs differ"
                a = kvs(mo)
                try:
                    got = "states=%s P=%s" % (a["states"], model_P_bits(a["P"]))
                except Exception:
                    return "unparsable model output"
                return None if got == im else "outputs differ (model canonicalised: %s)" % got[:200]

            cases.append(Case("C13 dvar sigma=%s std=%s sizes=%s X=%s order=%s" % (fxs(sigma), fx(std_eff), sizes_tok, fxm(X), order),
                              impl, nontrivial=(outcome == "ok" and len(np.atleast_1d(mc.P)) >= 2 if outcome == "ok" else False),
                              cmp=cmp_d, tag="dvar"))
    finally:
        ap.simulate_linear_model = orig



def run(ctx):
    warnings.simplefilter("ignore")
    ctx.rule = ("rouwenhorst/tauchen: n in 2..40, rho in (-0.99,0.99) incl. negative and near-boundary, sigma log-uniform in "
                "(1e-3,1e2), mu incl. 0 and large, n_std 1..5, plus a dyadic stream (rho=k/4, sigma=2^e, n<=7) on which the "
                "recursion is exact in double; estimate_mc: int / float / 2-d / 3-d sequences of length 2..200, mostly with "
                "every state left at least once, some with a never-left last state (ValueError); fit_discrete_mc: 1..3 "
                "dyadic grids, observations on grid / at midpoints (ties) / outside / generic, C and F order; discrete_var: "
                "m in 1..3, sim_length 1..200, grid_sizes None/list/array/tuple (also too short, zero, surplus), std_devs "
                "given/omitted, rv given or seeded random_state, both orders, judged from sigma_vector and the recorded path. "
                "Non-trivial: n>=3 (halving rows, interior cells) resp. at least two states; distinct by request line")
    ctx.assumptions += [
        "sqrt and erfc are external: the Float model uses IEEE sqrt, erfc is tabulated by the harness with math.erfc",
        "rounding envelopes (assumed, not proved): rouwenhorst P 1e-12 abs vs the exact Rat recursion, grids 16u*max|y|; "
        "tauchen P 1e-13 vs the model with an independent erfc; spec oracles 1e-12 (probabilities), 1e-9 relative (moments)"]
    cases = []
    linspace_cases(ctx, cases)
    rouw_cases(ctx, cases)
    tauchen_cases(ctx, cases)
    estimate_cases(ctx, cases)
    fit_layout_probe(ctx)
    fit_cases(ctx, cases)
    dvar_cases(ctx, cases)
    history_cases(ctx)
    scalar_form_probes(ctx)
    ctx.run_cases(cases)


# ----------------------------------------------------------------------------
# ./check C13 --replay <file>: re-run one recorded input against the real code


class _ReplayCtx:
    def __init__(self):
        self.fails = []

    def spec_fail(self, key, what, replay):
        self.fails.append((key, what))

    def count(self, *a, **k):
        pass


def replay(data):
    warnings.simplefilter("ignore")
    rp = data.get("replay") or {}
    op = rp.get("op")
    c = _ReplayCtx()
    if op in ("rouwenhorst", "tauchen"):
        from quantecon.markov.approximation import rouwenhorst, tauchen
        n = int(rp["n"])
        rho, sigma, mu = (float.fromhex(rp[k + "_hex"]) for k in ("rho", "sigma", "mu"))
        try:
            if op == "rouwenhorst":
                mc = rouwenhorst(n, rho, sigma, mu)
                rouw_spec(c, n, rho, sigma, mu, np.asarray(mc.P), np.asarray(mc.state_values))
            else:
                mc = tauchen(n, rho, sigma, mu, int(rp["n_std"]))
                tauchen_spec(c, n, rho, sigma, mu, int(rp["n_std"]), np.asarray(mc.P), np.asarray(mc.state_values))
            print("state_values =", np.asarray(mc.state_values).tolist())
            print("P =", np.asarray(mc.P).tolist())
        except Exception as e:
            c.fails.append((op + "_raises", "%s: %s" % (type(e).__name__, e)))
    elif op == "estimate_mc":
        from quantecon.markov.estimate import estimate_mc
        X = np.array(rp["X"], dtype=rp.get("dtype"))
        obs = [tuple(Fraction(v.item()) for v in row) for row in X.reshape(len(X), -1)]
        states, C, tot = brute_estimate(obs)
        print("expected states =", [[float(v) for v in s] for s in states])
        print("expected counts =", C)
        try:
            mc = estimate_mc(X)
            P = np.asarray(mc.P)
            print("state_values =", np.asarray(mc.state_values).tolist())
            print("P =", P.tolist())
            n = len(states)
            if not all(t > 0 for t in tot):
                c.fails.append(("estimate_mc_unleft_state", "a state that is never left was accepted"))
            elif P.shape != (n, n) or any(float(P[i, j]) != C[i][j] / tot[i] for i in range(n) for j in range(n)):
                c.fails.append(("estimate_mc_P", "P[i,j] != N_ij / N_i"))
        except Exception as e:
            print("raised %s: %s" % (type(e).__name__, e))
            if all(t > 0 for t in tot) or not isinstance(e, ValueError):
                c.fails.append(("estimate_mc_raises", "%s: %s" % (type(e).__name__, e)))
    elif op == "fit_discrete_mc":
        from quantecon.markov.estimate import fit_discrete_mc
        from quantecon import _gridtools as gt
        X = [[Fraction(v) for v in row] for row in rp["X"]]
        grids = [[Fraction(v) for v in g] for g in rp["grids"]]
        tg = tuple(np.array([float(v) for v in g]) for g in grids)
        Xa = np.array([[float(v) for v in row] for row in X])
        idx = [int(k) for k in np.atleast_1d(gt.cartesian_nearest_index(Xa, tg, order=rp["order"]))]
        print("nearest indices (code) =", idx)
        states, C, tot = brute_estimate(idx)
        print("expected visited indices =", states, "counts =", C)
        try:
            mc = fit_discrete_mc(Xa, tg, order=rp["order"])
            print("state_values =", np.asarray(mc.state_values).tolist())
            print("P =", np.asarray(mc.P).tolist())
        except Exception as e:
            print("raised %s: %s" % (type(e).__name__, e))
    else:
        print("nothing to replay in", sorted(rp))
        return 2
    for key, what in c.fails:
        print("VIOLATION property=C13 %s: %s" % (key, what))
    return 1 if c.fails else 0
