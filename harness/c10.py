"""C10 — simulated paths stay in the state space and follow the transition law:
correspondence (model driver vs. real code on the same injected uniforms) + spec run
(an exact, model-independent oracle on the real code's outputs)."""
import glob
import json
import math
import os
from unittest import mock

import numpy as np
from scipy import sparse

from .common import Case, fx, fxs, fxm, ints, intm, rats, ratm

FILES = ["quantecon/markov/core.py", "quantecon/util/array.py", "quantecon/_discrete_rv.py",
         "quantecon/random/utilities.py", "quantecon/util/random.py"]

U_MAX = 1.0 - 2.0 ** -53        # largest double below 1


# ----------------------------------------------------------------------------
# injected random stream


class Planted(np.random.RandomState):
    """RandomState whose uniform / integer outputs are the planted ones.
    Shapes and argument errors are those of the real generator (the call is forwarded first)."""

    def __init__(self, uniforms=(), integers=()):
        super().__init__(12345)
        self.uq = list(uniforms)       # one entry per expected call of random()/uniform()
        self.iq = list(integers)
        self.log = []
        self.shape_mismatch = None

    def _next_uniform(self, base):
        if not self.uq:
            self.shape_mismatch = ("unexpected extra call", np.shape(base))
            return base
        want = self.uq.pop(0)
        if np.shape(want) != np.shape(base):
            self.shape_mismatch = (np.shape(want), np.shape(base))
            return base
        self.log.append(want)
        if np.ndim(base) == 0:
            return float(want)
        return np.array(want, dtype=float).reshape(np.shape(base))

    def random(self, size=None):
        return self._next_uniform(super().random_sample(size))

    def uniform(self, low=0.0, high=1.0, size=None):
        base = super().uniform(low, high, size)
        assert low == 0 and high == 1
        return self._next_uniform(base)

    def randint(self, low, high=None, size=None, dtype=int):
        base = super().randint(low, high=high, size=size, dtype=dtype)
        if not self.iq:
            self.shape_mismatch = ("unexpected randint", np.shape(base))
            return base
        want = self.iq.pop(0)
        if np.shape(want) != np.shape(base):
            self.shape_mismatch = (np.shape(want), np.shape(base))
            return base
        return np.array(want, dtype=base.dtype).reshape(np.shape(base))


class PlantedGen(np.random.Generator):
    """the same for the new-style np.random.Generator API"""

    def __init__(self, uniforms=(), integers=()):
        super().__init__(np.random.PCG64(12345))
        self.uq = list(uniforms)
        self.iq = list(integers)
        self.shape_mismatch = None

    def _next(self, q, base, what):
        if not q:
            self.shape_mismatch = ("unexpected " + what, np.shape(base))
            return base
        want = q.pop(0)
        if np.shape(want) != np.shape(base):
            self.shape_mismatch = (np.shape(want), np.shape(base))
            return base
        if np.ndim(base) == 0:
            return type(base)(want) if what == "integers" else float(want)
        return np.array(want, dtype=np.asarray(base).dtype).reshape(np.shape(base))

    def random(self, size=None, dtype=np.float64, out=None):
        return self._next(self.uq, super().random(size), "random")

    def uniform(self, low=0.0, high=1.0, size=None):
        assert low == 0 and high == 1
        return self._next(self.uq, super().uniform(low, high, size), "uniform")

    def integers(self, low, high=None, size=None, dtype=np.int64, endpoint=False):
        return self._next(self.iq, super().integers(low, high, size=size, dtype=dtype, endpoint=endpoint), "integers")


# ----------------------------------------------------------------------------
# kept results, aliasing, unchanged inputs


def bits(a):
    a = np.asarray(a)
    return (a.shape, a.dtype.str, a.tobytes())


class Keeper:
    """every array a call returned is kept together with a copy of its bits at return time and re-judged
    later: it must be bitwise unchanged, whatever was called or assigned afterwards"""

    def __init__(self, cap=400):
        self.kept, self.cap, self.checked = [], cap, 0

    def keep(self, what, arr):
        if isinstance(arr, np.ndarray):
            self.kept.append((what, arr, bits(arr)))
            if len(self.kept) > self.cap:
                self.kept.pop(0)

    def recheck(self, ctx, when):
        for what, arr, b in self.kept:
            self.checked += 1
            if bits(arr) != b:
                ctx.spec_fail("kept_result_changed", "the array returned by %s changed after %s" % (what, when),
                              {"op": what, "after": when, "at_return": repr(np.frombuffer(b[2], dtype=b[1])[:20]),
                               "now": repr(arr.ravel()[:20])})

    def aliases(self, ctx, what, new, others, replay):
        """`new` (a returned array) must not share memory with inputs, object arrays or earlier results"""
        if not isinstance(new, np.ndarray):
            return
        for name, o in list(others) + [("the result of an earlier call (%s)" % w, a) for w, a, _ in self.kept[-40:]]:
            if isinstance(o, np.ndarray) and o is not new and np.shares_memory(new, o):
                ctx.spec_fail("result_aliases", "the array returned by %s shares memory with %s" % (what, name),
                              dict(replay or {}, aliased_with=name))


KEEP = Keeper()


class Unchanged:
    """snapshot of arrays that a call must leave bitwise unchanged"""

    def __init__(self, named):
        self.items = [(n, a, bits(a)) for n, a in named if isinstance(a, np.ndarray)]

    def check(self, ctx, what, replay):
        for n, a, b in self.items:
            if bits(a) != b:
                ctx.spec_fail("input_modified", "%s modified %s" % (what, n), dict(replay or {}, modified=n))


# ----------------------------------------------------------------------------
# independent oracle (plain Python floats, linear scans, the definitions)


def seq_cumsum(p):
    """sequential left-to-right cumulative sum in double arithmetic"""
    out, acc = [], None
    for x in p:
        acc = x if acc is None else acc + x
        out.append(acc)
    return out


def inv_cdf_ok(p, cdf, u, j):
    """is j an admissible inverse-CDF image of u under mass p with cumulative sums cdf?
    returns None or a reason.  (p[j] > 0 is demanded in every case.)"""
    n = len(p)
    if not (0 <= j < n):
        return "index %r outside range(%d)" % (j, n)
    if not p[j] > 0:
        return "index %d has probability %r" % (j, p[j])
    first = next((i for i in range(n) if u < cdf[i]), None)
    if first is not None:
        if j != first:
            return "u=%r: least i with u < cdf[i] is %d, got %d" % (u, first, j)
        return None
    # u >= cdf[-1] (cumulative sum below 1 by rounding / tolerance): last state carrying mass
    if cdf[j] != cdf[-1]:
        return "u=%r >= cdf[-1]: got %d but cdf[%d]=%r != cdf[-1]=%r" % (u, j, j, cdf[j], cdf[-1])
    return None


def ref_step(p, cdf, u):
    """reference next index (used only to *plant* uniforms adaptively and for counters)"""
    for i, c in enumerate(cdf):
        if u < c:
            return i, False
    i = len(cdf) - 1
    while i > 0 and cdf[i - 1] == cdf[i]:
        i -= 1
    return i, True


def expected_init(n, init, reps, drawn):
    """documented init handling: (dim, list of initial states) or 'ERR'"""
    if init is None:
        k = 1 if reps is None else reps
        return (1 if reps is None else 2), list(drawn[:k])
    if isinstance(init, (int, np.integer)):
        if not (-n <= init < n):
            return "ERR"
        k = 1 if reps is None else reps
        return (1 if reps is None else 2), [int(init) % n] * k
    l = [int(i) for i in init]
    if any(not (-n <= i < n) for i in l):
        return "ERR"
    st = [i % n for i in l]
    if reps is not None:
        st = st * reps
    return 2, st


# ----------------------------------------------------------------------------
# generators


def gen_row(rng, n, ctx):
    """a probability row accepted by np.allclose(row sum, 1); returns (list of doubles, dyadic?)"""
    kind = rng.randrange(9)
    if kind <= 2 or n == 1:
        # dyadic: nonnegative integers summing to 2^m, some zeros (possibly trailing)
        m = rng.choice([3, 4, 6])
        tot = 2 ** m
        w = [0] * n
        supp = rng.sample(range(n), rng.randint(1, n))
        for _ in range(tot):
            w[rng.choice(supp)] += 1
        ctx.count("row:dyadic")
        return [x / tot for x in w], True
    if kind == 3:
        ctx.count("row:uniform-1/n")        # ten times 0.1 sums to 1-2^-53
        return [1.0 / n] * n, False
    if kind == 4:
        # uniform on a leading block, zero-probability trailing states
        k = rng.randint(1, n)
        ctx.count("row:trailing-zeros")
        return [1.0 / k] * k + [0.0] * (n - k), False
    if kind == 5:
        # deficient / excessive mass inside the allclose tolerance
        r, _ = gen_row(rng, n, ctx)
        eps = rng.choice([1e-5, 3e-6, 1e-7, 1e-9, 2.0 ** -30, -1e-6, -1e-9])
        ctx.count("row:deficient" if eps > 0 else "row:excess")
        return [x * (1 - eps) for x in r], False
    if kind == 6:
        # tiny positive entries that do not move the cumulative sum
        r, _ = gen_row(rng, n, ctx)
        j = rng.randrange(n)
        if r[j] == 0.0:
            r[j] = rng.choice([1e-30, 1e-18, 2.0 ** -60])
            ctx.count("row:tiny-entry")
        return r, False
    # generic floats
    w = [rng.random() if rng.random() < 0.7 else 0.0 for _ in range(n)]
    if sum(w) == 0:
        w[rng.randrange(n)] = 1.0
    s = math.fsum(w)
    ctx.count("row:generic")
    return [x / s for x in w], False


def gen_dyadic_row(rng, n, ctx):
    while True:
        r, d = gen_row(rng, n, ctx)
        if d:
            return r, d


def gen_matrix(rng, n, ctx):
    rows, dy = [], True
    all_dyadic = rng.random() < 0.35       # exact cumulative sums: these also run at Rat
    for _ in range(n):
        r, d = gen_dyadic_row(rng, n, ctx) if all_dyadic else gen_row(rng, n, ctx)
        rows.append(r)
        dy = dy and d
    return rows, dy


def plant_uniform(rng, p, cdf, ctx):
    """a double in [0,1) aimed at the branches of the search for this row"""
    kind = rng.randrange(10)
    u = None
    if kind == 0:
        u = 0.0
        ctx.count("u:zero")
    elif kind == 1:
        u = U_MAX
        ctx.count("u:1-2^-53")
    elif kind in (2, 3):
        c = rng.choice(cdf)
        if kind == 3:
            c = float(np.nextafter(c, rng.choice([0.0, 2.0])))
        if 0.0 <= c < 1.0:
            u = c
            ctx.count("u:breakpoint" if kind == 2 else "u:next-to-breakpoint")
    elif kind == 4 and cdf[-1] < 1.0:
        lo = cdf[-1]
        u = min(U_MAX, lo + (1.0 - lo) * rng.random())
        ctx.count("u:above-last-cdf")
    if u is None:
        u = rng.random()
        ctx.count("u:generic")
    return u


class Arg:
    """an `init` argument: the object passed to the API, its wire form, and its logical content
    kind: 'none' | 's' (numbers.Integral scalar) | 'a' (array-like of such) |
          'x' (scalar that is not numbers.Integral: 0-d array, np.bool_, float) |
          'b' (array-like that converts to ints but whose elements are not Integral: bool/float arrays)
    val : None | int | list of ints  (indices, or label codes when state_values are set)"""

    def __init__(self, obj, kind, val):
        self.obj, self.kind, self.val = obj, kind, val
        self.wire = {"none": "none", "s": "s:%s" % val, "x": "x"}.get(kind) or "%s:%s" % (kind, ints(val))


def int_form(rng, i, ctx, what="init"):
    """the integer i as a randomly chosen instance of numbers.Integral"""
    cands = [int, int, np.int16, np.int32, np.int64, np.intp]
    if -128 <= i < 128:
        cands.append(np.int8)
    if 0 <= i < 256:
        cands.append(np.uint8)
    if i >= 0:
        cands.append(np.uint64)
    if i in (0, 1) and what in ("init", "mcsp-init"):
        cands.append(bool)
    t = rng.choice(cands)
    ctx.count("form:%s:%s" % (what, t.__name__))
    return t(i)


def count_form(rng, i, ctx, what):
    """ts_length / num_reps / k / size / sample_size: Python int, NumPy ints, 0-d array"""
    if i is None:
        return None
    cands = [int, int, np.int32, np.int64, np.intp, np.uint8, np.uint64, lambda v: np.array(v)]
    if what == "ts_length" and i == 0 and not isinstance(i, bool):
        ctx.count("form:ts_length:zero")   # unsigned zeros included: `ts_length-1` must not wrap (fix d656660)
    if i >= 256:
        cands = [c for c in cands if c is not np.uint8]
    t = rng.choice(cands)
    ctx.count("form:%s:%s" % (what, getattr(t, "__name__", "0d-array").replace("<lambda>", "0d-array")))
    return t(i)


def array_form(rng, l, ctx):
    """(object, kind) for the list of ints l"""
    nonneg = all(i >= 0 for i in l)
    small = all(-128 <= i < 128 for i in l)
    forms = ["list", "tuple", "int64", "int32", "int16", "intp", "npscalars", "0d-list", "strided-view", "reversed-view"]
    if small:
        forms.append("int8")
    if nonneg and all(i < 256 for i in l):
        forms.append("uint8")
    if nonneg:
        forms.append("uint64")
    if l and all(i in (0, 1) for i in l):
        forms += ["boolarray", "boollist"]
    if l:
        forms.append("floatarray")
    f = rng.choice(forms)
    ctx.count("form:array:" + f)
    if f == "list":
        return list(l), "a"
    if f == "tuple":
        return tuple(l), "a"
    if f == "strided-view":
        big = np.full(3 * len(l) + 1, -99, dtype=np.int64)
        big[1::3] = l
        return big[1::3], "a"
    if f == "reversed-view":
        return np.array(l[::-1], dtype=np.int64)[::-1], "a"
    if f == "npscalars":
        ts = [np.int16, np.int32, np.int64, np.intp] + ([np.int8] if small else []) + ([np.uint8] if nonneg and all(i < 256 for i in l) else [])
        return [rng.choice(ts)(i) for i in l], "a"
    if f == "0d-list":
        return [np.array(i) for i in l], "a"
    if f == "boolarray":
        return np.array(l, dtype=bool), "b"
    if f == "boollist":
        return [bool(i) for i in l], "b"
    if f == "floatarray":
        return np.array(l, dtype=float), "b"
    return np.array(l, dtype=getattr(np, f)), "a"


def gen_init(rng, n, ctx):
    """an Arg for a chain without state values (contents are state indices)"""
    kind = rng.randrange(13)
    if kind <= 1:
        ctx.count("init:None")
        return Arg(None, "none", None)
    if kind <= 4:
        i = rng.randrange(n)
        ctx.count("init:scalar")
        return Arg(int_form(rng, i, ctx), "s", i)
    if kind == 5:
        i = rng.randrange(-n, 0)
        ctx.count("init:scalar-negative")
        return Arg(int_form(rng, i, ctx), "s", i)
    if kind == 6:
        i = rng.choice([n, n + 1, -n - 1, 10 * n + 3, -7 * n - 1])
        ctx.count("init:scalar-out-of-range")
        return Arg(int_form(rng, i, ctx), "s", i)
    if kind == 12:
        i = rng.randrange(n)
        f = rng.choice(["0d-array", "np.bool_", "float", "np.float64"])
        ctx.count("init:not-Integral:" + f)
        obj = {"0d-array": np.array(i), "np.bool_": np.bool_(i % 2 == 1), "float": float(i), "np.float64": np.float64(i)}[f]
        return Arg(obj, "x", None)
    ln = rng.randint(0, 4)
    if kind <= 9:
        l = [rng.randrange(n) for _ in range(ln)]
        ctx.count("init:array" if ln else "init:array-empty")
    elif kind == 10:
        l = [rng.randrange(-n, n) for _ in range(ln)]
        ctx.count("init:array-with-negatives")
    else:
        l = [rng.randrange(n) for _ in range(max(ln, 1))]
        l[rng.randrange(len(l))] = rng.choice([n, -n - 1, 3 * n])
        ctx.count("init:array-out-of-range")
    obj, k = array_form(rng, l, ctx)
    return Arg(obj, k, l)


# state-value labels: every label has an integer code (what crosses the wire)
def code_of(v):
    if isinstance(v, (str, np.str_)):
        return 200000 + ord(str(v)[0])
    x = float(v)
    return int(x) if x == int(x) else 100000 + int(round(2 * x))


def observe(ctx, name, what, replay):
    """behaviour on an undocumented argument form that the coordinator classified as an observation, not a
    finding: counted and kept (first instance) in the evidence, never a verdict"""
    ctx.count("observation:" + name)
    ctx.extra.setdefault("observations", {}).setdefault(name, {"what": what, "replay": replay})


# ----------------------------------------------------------------------------
# one simulation case


def seq_cumsum_dt(p, dt):
    """sequential cumulative sum accumulated in dtype dt; values returned as (exact) Python floats"""
    if dt == np.float32:
        out, acc = [], None
        for x in p:
            acc = np.float32(x) if acc is None else np.float32(acc + np.float32(x))
            out.append(float(acc))
        return out
    return seq_cumsum(p)


class Chain:
    """a chain as the kernels see it: rows of (columns, masses, cumulative sums)"""

    def __init__(self, mc, given=None):
        self.mc = mc
        self.n = mc.n
        self.sparse = mc.is_sparse
        self.given = given            # the object the user passed as P (for aliasing / unchanged-input checks)
        if mc.is_sparse:
            self.f32 = mc.P.data.dtype == np.float32
            dt = mc.P.data.dtype.type
            self.data = [float(x) for x in mc.P.data]
            self.indices = [int(x) for x in mc.P.indices]
            self.indptr = [int(x) for x in mc.P.indptr]
            self.rows = []
            for s in range(self.n):
                lo, hi = self.indptr[s], self.indptr[s + 1]
                p = self.data[lo:hi]
                self.rows.append((self.indices[lo:hi], p, seq_cumsum_dt(p, dt)))
        else:
            P = np.asarray(mc.P)
            self.f32 = P.dtype == np.float32
            self.P = [[float(x) for x in r] for r in P]
            self.rows = [(list(range(self.n)), r, seq_cumsum_dt(r, P.dtype.type)) for r in self.P]

    def object_arrays(self):
        mc = self.mc
        out = [("the matrix passed to the constructor", self.given)]
        if self.sparse:
            out += [("mc.P.data", mc.P.data), ("mc.P.indices", mc.P.indices), ("mc.P.indptr", mc.P.indptr),
                    ("the cdfs1d cache", mc._cdfs1d)]
            if sparse.issparse(self.given):
                for att in ("data", "indices", "indptr", "row", "col"):
                    out.append(("the %s array of the sparse matrix passed to the constructor" % att, getattr(self.given, att, None)))
        else:
            out += [("mc.P", mc.P), ("the cdfs cache", mc._cdfs)]
        out.append(("mc.state_values", mc.state_values))
        return [(n, a) for n, a in out if isinstance(a, np.ndarray)]

    def wire(self, sc):
        f = fxs if sc == "float" else rats
        fm = fxm if sc == "float" else ratm
        if self.sparse:
            w = "sparse sc=%s n=%d data=%s indices=%s indptr=%s" % (
                sc, self.n, f(self.data), ints(self.indices), ints(self.indptr))
            if self.f32:      # accumulated in float32 by the code: the model is given the sums (checked by the oracle)
                w += " c1d=" + f([float(x) for x in self.mc.cdfs1d])
            return w
        w = "dense sc=%s P=%s" % (sc, fm(self.P))
        if self.f32:
            w += " cdfs=" + fm([[float(x) for x in r] for r in self.mc.cdfs])
        return w

    def check_cdfs(self, ctx):
        """the cumulative sums the code caches are the sequential sums in the matrix's own precision"""
        if self.sparse:
            got = [float(x) for x in self.mc.cdfs1d]
            want = [c for _, _, cdf in self.rows for c in cdf]
        else:
            got = [float(x) for r in self.mc.cdfs for x in r]
            want = [c for _, _, cdf in self.rows for c in cdf]
        if got != want:
            ctx.spec_fail("cdfs_not_cumsum", "cdfs differ from the row-wise sequential cumulative sums",
                          {"op": "cdfs", "sparse": self.sparse, "got": [x.hex() for x in got], "want": [x.hex() for x in want]})

    def code_cdfs(self, sc):
        if self.sparse:
            c = [float(x) for x in self.mc.cdfs1d]
            return "cdfs1d=" + (fxs(c) if sc == "float" else rats(c))
        c = [[float(x) for x in r] for r in self.mc.cdfs]
        return "cdfs=" + (fxm(c) if sc == "float" else ratm(c))


def canon_X(X):
    X = np.asarray(X)
    if X.ndim == 1:
        return "dim=1|k=1|X=" + intm([X.tolist()])
    return "dim=2|k=%d|X=%s" % (X.shape[0], intm(X.tolist()))


def sim_case(ctx, ch, arg, reps, ts, via, dyadic, cases, tagbase, fixed_u=None, sv=None):
    """one call on ch.mc (whose state_values currently have the codes `sv`, or None);
    returns (protocol tokens of the call, canonical output of the code)"""
    rng = ctx.rng
    n = ch.n
    init, init_wire = arg.obj, arg.wire
    k_draw = (1 if reps is None else reps) if arg.kind == "none" else 0
    drawn = [rng.randrange(n) for _ in range(k_draw)]
    use_gen = rng.random() < 0.25
    if use_gen:
        ctx.count("rng:Generator")
    ts_obj, reps_obj = count_form(rng, ts, ctx, "ts_length"), count_form(rng, reps, ctx, "num_reps")
    scalar = arg.kind == "s"
    logical = None if arg.kind == "none" else arg.val           # what expected_init sees
    if arg.kind == "x":
        exp = "ERR"
    elif sv is not None and via == "simulate" and arg.kind != "none":
        # state values: simulate() first maps every requested value to its first position
        vals = [arg.val] if scalar else list(arg.val)
        if any(v not in sv for v in vals):
            exp = "ERR"
            ctx.count("sv:value-not-found")
        else:
            idx = [sv.index(v) for v in vals]
            exp = expected_init(n, idx[0] if scalar else idx, reps, drawn)
    else:
        exp = expected_init(n, logical, reps, drawn)
    if sv is None and via == "simulate" and exp != "ERR" and arg.kind != "none":
        # simulate() looks the value up among the states: only Integral 0 <= init < n exist
        l = [arg.val] if scalar else list(arg.val)
        if any(i < 0 for i in l) or (arg.kind == "b" and l):
            exp = "ERR"
    # plant uniforms adaptively along the reference walk
    U, fallback_steps = [], 0
    if exp != "ERR" and ts >= 1:
        for s0 in exp[1]:
            row_u, s = [], s0
            for t in range(ts - 1):
                cols, p, cdf = ch.rows[s]
                u = fixed_u if fixed_u is not None else plant_uniform(rng, p, cdf, ctx)
                kk, fb = ref_step(p, cdf, u)
                fallback_steps += fb
                if fb and kk < len(cdf) - 1:
                    ctx.count("step:back-off-over-zero-mass")
                s = cols[kk]
                row_u.append(u)
            U.append(row_u)
    k = len(U)
    Uarr = np.array(U, dtype=float).reshape(k, max(ts - 1, 0))
    if fallback_steps:
        ctx.count("step:u>=cdf[-1]", fallback_steps)

    # how the optional arguments are passed
    styles = ["keyword", "positional"]
    if reps is None:
        styles.append("num_reps-omitted")
    if init is None:
        styles.append("init-omitted")
        if reps is None:
            styles.append("only-ts_length")
    style = rng.choice(styles)
    ctx.count("call-style:" + style)
    raws = []
    guard = Unchanged(ch.object_arrays() + [("the init argument", init), ("the planted uniforms", Uarr)])

    def call(interpreted=False):
        rs = (PlantedGen if use_gen else Planted)(
            uniforms=[Uarr], integers=[np.array(drawn, dtype=np.int64)] if init is None else [])
        f = ch.mc.simulate if via == "simulate" else ch.mc.simulate_indices

        def invoke():
            if style == "positional":
                return f(ts_obj, init, reps_obj, rs)
            if style == "num_reps-omitted":
                return f(ts_obj, init=init, random_state=rs)
            if style == "init-omitted":
                return f(ts_obj, num_reps=reps_obj, random_state=rs)
            if style == "only-ts_length":
                return f(ts_obj, random_state=rs)
            return f(ts_length=ts_obj, init=init, num_reps=reps_obj, random_state=rs)
        try:
            if interpreted:
                with interpreted_kernels():
                    X = invoke()
            else:
                X = invoke()
        except ValueError:
            return "ERR:ValueError", None, rs
        except IndexError:
            return "ERR:IndexError", None, rs
        except MemoryError:
            return "ERR:MemoryError", None, rs
        raws.append(X)
        X = np.asarray(X)
        if sv is not None and via == "simulate":
            X = np.array([code_of(v) for v in X.ravel()], dtype=np.int64).reshape(X.shape)   # labels -> codes
        return canon_X(X), X, rs

    # Pre-flight: the same source run by CPython (kernels' .py_func), where a read outside an array
    # raises instead of returning garbage / crashing the process.  Only if that is clean is the
    # compiled kernel run (and it is the compiled result that is compared with the model).
    out, X, rs = call(interpreted=True)
    returns_values = sv is not None and via == "simulate"
    unsafe = out == "ERR:IndexError" or (not returns_values and X is not None and X.size and (X.min() < 0 or X.max() >= n))
    if unsafe:
        ctx.count("sim:unsafe-in-preflight")
    else:
        out_i = out
        out, X, rs = call()
        if out != out_i:
            ctx.spec_fail("compiled_vs_interpreted", "compiled kernel %s, interpreted %s" % (out, out_i),
                          {"op": "simulate", "sparse": ch.sparse, "init": init_wire, "ts": ts})
    replay = {"op": "simulate", "sparse": ch.sparse, "via": via, "n": n, "init": init_wire, "num_reps": reps,
              "ts_length": ts, "P_rows": [[c, [x.hex() for x in p]] for c, p, _ in ch.rows],
              "uniforms": [[x.hex() for x in r] for r in U], "drawn": drawn, "code": out,
              "state_values": sv, "generator": use_gen, "init_repr": repr(init), "ts_repr": repr(ts_obj),
              "num_reps_repr": repr(reps_obj)}
    key = "simulate_sparse" if ch.sparse else "simulate_dense"
    # ---- spec oracle on the code's output ----
    if ts == 0 and exp != "ERR" and not out.startswith("ERR:ValueError"):
        # ts_length = 0 must be refused in every integer form (an unsigned NumPy 0 used to wrap around in
        # `ts_length-1`: 255 uniforms for a (k, 0) output and an out-of-bounds write in the kernel)
        ctx.spec_fail("ts_length_zero_unsigned", "ts_length=%r accepted / mishandled: %s (a Python 0 raises ValueError)"
                      % (ts_obj, out), replay)
    elif exp == "ERR" or ts == 0:
        ctx.count("sim:error-expected")
        if not out.startswith("ERR:ValueError"):
            # (negative in-range inits may legitimately be accepted or rejected; out-of-range never accepted)
            ctx.spec_fail(key + "_init_range", "init %s outside the state space accepted: %s" % (init_wire, out), replay)
    elif X is None:
        ctx.spec_fail(key + ("_out_of_bounds" if out == "ERR:IndexError" else "_raises"),
                      "valid request raised %s%s" % (out, " (read outside an array)" if out == "ERR:IndexError" else ""), replay)
    else:
        dim, st = exp
        if rs.shape_mismatch:
            ctx.spec_fail(key + "_shape", "uniforms requested with shape %s, documented %s" % rs.shape_mismatch[::-1], replay)
        elif rs.uq or rs.iq:
            ctx.spec_fail(key + "_stream", "the call did not consume the documented random numbers "
                          "(%d uniform arrays, %d integer arrays left)" % (len(rs.uq), len(rs.iq)), replay)
        want_shape = (ts,) if dim == 1 else (len(st), ts)
        if X.shape != want_shape:
            ctx.spec_fail(key + "_shape", "shape %s, documented %s" % (X.shape, want_shape), replay)
        else:
            X2 = X.reshape(len(st), ts)
            bad = None
            if returns_values:
                if any(int(v) not in sv for v in X2.ravel()):
                    bad = "a returned value is not a state value"
                    st = []
                elif len(set(sv)) == n:
                    X2 = np.array([[sv.index(int(v)) for v in r] for r in X2], dtype=int).reshape(len(st), ts)
                else:
                    st = []            # duplicated labels: positions not recoverable; correspondence only
                    ctx.count("sv:duplicate-labels")
            for i, s0 in enumerate(st):
                if X2[i, 0] != s0:
                    bad = "path %d starts at %d, requested %d" % (i, X2[i, 0], s0)
                    break
                for t in range(ts - 1):
                    s, j = int(X2[i, t]), int(X2[i, t + 1])
                    if not (0 <= s < n and 0 <= j < n):
                        bad = "path %d step %d: state %d -> %d outside range(%d)" % (i, t, s, j, n)
                        break
                    cols, p, cdf = ch.rows[s]
                    # admissible positions in the row (a CSR row may store a column twice)
                    why = "no stored entry for column %d in row %d" % (j, s)
                    for pos, c in enumerate(cols):
                        if c == j:
                            why = inv_cdf_ok(p, cdf, U[i][t], pos)
                            if why is None:
                                break
                    if why:
                        bad = "path %d step %d from state %d: %s" % (i, t, s, why)
                        break
                if bad:
                    break
            if bad:
                ctx.spec_fail(key, bad, replay)
        # determinism: the same stream gives the same path
        out2, _, _ = call(interpreted=unsafe)
        if out2 != out:
            ctx.spec_fail(key + "_determinism", "same uniforms, different paths", replay)
    # ---- aliasing, unchanged inputs, kept results ----
    what = "%s(%s)" % ("simulate" if via == "simulate" else "simulate_indices", init_wire)
    guard.check(ctx, what, replay)
    others = ch.object_arrays() + [("the init argument", init if isinstance(init, np.ndarray) else None)]
    for r_ in raws:
        KEEP.aliases(ctx, what, r_, others, replay)
        KEEP.keep(what, r_)
    KEEP.recheck(ctx, what)
    # ---- correspondence ----
    nontrivial = (exp != "ERR" and ts >= 2 and k >= 1)
    scs = ["float"] + (["rat"] if dyadic and not ch.f32 else [])
    toks = None
    for sc in scs:
        t = "init=%s reps=%s drawn=%s via=%s ts=%d u=%s" % (
            init_wire, "none" if reps is None else str(reps), ints(drawn), via, ts,
            (fxm if sc == "float" else ratm)(U))
        toks = toks or t
        line = "C10 %s %s" % (ch.wire(sc), t)
        if sv is not None and via == "simulate":
            line += " sv=" + ints(sv)
        impl = ch.code_cdfs(sc) + "|" + out
        cases.append(Case(line, impl, nontrivial=nontrivial, tag=tagbase + ":" + sc))
    return toks, out


def sim2_case(ctx, ch, cases, tag):
    """simulate() on a chain whose state_values are a 2-D array (one label ROW per state): init is a row, an
    array of rows or None; malformed: scalar, row of another length, unknown row, 3-D array"""
    rng = ctx.rng
    n = ch.n
    m = rng.choice([1, 2, 2, 3])
    sv2 = [[rng.randrange(-5, 9) for _ in range(m)] for _ in range(n)]
    if n >= 2 and rng.random() < 0.25:
        sv2[rng.randrange(1, n)] = list(sv2[0])              # duplicated label row: the first position wins
    distinct = len({tuple(r) for r in sv2}) == n
    sv_obj = rng.choice([lambda: np.array(sv2), lambda: [list(r) for r in sv2], lambda: np.array(sv2, dtype=np.int32),
                         lambda: np.asfortranarray(np.array(sv2))])()
    ch.mc.state_values = sv_obj

    def first(row):
        return next((i for i, r in enumerate(sv2) if list(r) == list(row)), None)
    kind = rng.choice(["none", "row", "row", "row", "rows", "rows", "rows-empty", "row-unknown", "row-wrong-length",
                       "scalar", "3d", "rows-with-unknown"])
    ctx.count("sv2:init:" + kind)
    reps = rng.choice([None, None, 1, 2])
    ts = rng.choice([1, 2, 3, 5])
    exp = None                       # list of start indices, or "ERR"
    if kind == "none":
        init, wire = None, "none"
        k_draw = 1 if reps is None else reps
        drawn = [rng.randrange(n) for _ in range(k_draw)]
        exp, dim = drawn, (1 if reps is None else 2)
    else:
        drawn = []
        if kind == "row":
            row = list(rng.choice(sv2))
            init = rng.choice([list, tuple, np.array])(row)
            wire, exp, dim = "r:" + ints(row), [first(row)] * (1 if reps is None else reps), (1 if reps is None else 2)
        elif kind == "row-unknown":
            row = [99] * m
            init, wire, exp = row, "r:" + ints(row), "ERR"
        elif kind == "row-wrong-length":
            base = list(rng.choice(sv2))
            row = rng.choice([base + [0], base + [base[-1]], base[:-1], base[:1] if m >= 2 else [], []])
            if len(row) == m:
                row = base + [0]
            ctx.count("sv2:wrong-length:" + ("longer" if len(row) > m else "prefix" if row else "empty"))
            init, wire, exp = (np.array(row, dtype=int) if rng.random() < 0.5 else row), "r:" + ints(row), "ERR"
        elif kind == "scalar":
            init, wire, exp = int(sv2[0][0]), "bad", "ERR"
        elif kind == "3d":
            init, wire, exp = np.array([[sv2[0]]]), "bad", "ERR"
        elif kind == "rows-empty":
            init, wire = np.empty((0, m), dtype=int), "m:-"
            exp, dim = [], 2
        else:
            rows_ = [list(rng.choice(sv2)) for _ in range(rng.randint(1, 3))]
            if kind == "rows-with-unknown":
                rows_[rng.randrange(len(rows_))] = [77] * m
            init = rng.choice([lambda: np.array(rows_), lambda: [list(r) for r in rows_], lambda: tuple(tuple(r) for r in rows_)])()
            wire = "m:" + intm(rows_)
            if kind == "rows-with-unknown":
                exp = "ERR"
            else:
                exp, dim = [first(r) for r in rows_] * (1 if reps is None else reps), 2
    U = []
    if exp != "ERR":
        for s0 in exp:
            row_u, s = [], s0
            for t in range(ts - 1):
                cols, p, cdf = ch.rows[s]
                u = plant_uniform(rng, p, cdf, ctx)
                s = cols[ref_step(p, cdf, u)[0]]
                row_u.append(u)
            U.append(row_u)
    Uarr = np.array(U, dtype=float).reshape(len(U), max(ts - 1, 0))
    guard = Unchanged(ch.object_arrays() + [("the init argument", init)])

    def call(interpreted):
        rs = Planted(uniforms=[Uarr], integers=[np.array(drawn, dtype=np.int64)] if init is None else [])
        try:
            if interpreted:
                with interpreted_kernels():
                    X = ch.mc.simulate(ts, init=init, num_reps=reps, random_state=rs)
            else:
                X = ch.mc.simulate(ts, init=init, num_reps=reps, random_state=rs)
        except ValueError:
            return "ERR:ValueError", None, rs
        except IndexError:
            return "ERR:IndexError", None, rs
        X = np.asarray(X)
        if X.ndim == 2:
            return "dim=2|k=1|X=" + intm(X.tolist()), X, rs
        if X.ndim == 3:
            return "dim=3|k=%d|X=%s" % (X.shape[0], "/".join(intm(pth) for pth in X.tolist()) if X.shape[0] else "-"), X, rs
        return "unexpected ndim %d" % X.ndim, X, rs
    out, X, rs = call(True)
    if out != "ERR:IndexError":
        out, X, rs = call(False)
    replay = {"op": "simulate with 2-D state_values", "sparse": ch.sparse, "state_values": sv2, "init": wire,
              "init_repr": repr(init), "num_reps": reps, "ts_length": ts, "drawn": drawn,
              "P_rows": [[c, [x.hex() for x in p]] for c, p, _ in ch.rows], "uniforms": [[x.hex() for x in r] for r in U],
              "code": out}
    key = "simulate_2d_state_values"
    if exp == "ERR":
        if out != "ERR:ValueError":
            ctx.spec_fail(key + "_init", "init %s is not a label row of the chain, yet: %s" % (wire, out), replay)
    elif X is None:
        ctx.spec_fail(key + "_raises", "valid request raised %s" % out, replay)
    else:
        want_shape = (ts, m) if dim == 1 else (len(exp), ts, m)
        bad = None
        if X.shape != want_shape or rs.shape_mismatch or rs.uq or rs.iq:
            bad = "shape %s, documented %s (random numbers: %s)" % (X.shape, want_shape, rs.shape_mismatch or "%d left" % len(rs.uq + rs.iq))
        else:
            X3 = X.reshape(len(exp), ts, m)
            for i, s0 in enumerate(exp):
                idx = [first(r) for r in X3[i].tolist()]
                if any(j is None for j in idx):
                    bad = "a returned row is not a label row"
                    break
                if X3[i, 0].tolist() != list(sv2[s0]):
                    bad = "path %d starts at label %s, requested %s" % (i, X3[i, 0].tolist(), sv2[s0])
                    break
                if not distinct:
                    ctx.count("sv2:duplicate-label-rows")
                    continue
                for t in range(ts - 1):
                    s, j = idx[t], idx[t + 1]
                    cols, p, cdf = ch.rows[s]
                    why = "no stored entry for column %d in row %d" % (j, s)
                    for pos, c in enumerate(cols):
                        if c == j:
                            why = inv_cdf_ok(p, cdf, U[i][t], pos)
                            if why is None:
                                break
                    if why:
                        bad = "path %d step %d from state %d: %s" % (i, t, s, why)
                        break
                if bad:
                    break
        if bad:
            ctx.spec_fail(key, bad, replay)
        KEEP.aliases(ctx, "simulate (2-D state_values)", X, ch.object_arrays() + [("the init argument", init)], replay)
        KEEP.keep("simulate (2-D state_values)", X)
    guard.check(ctx, "simulate (2-D state_values)", replay)
    w = ch.wire("float").replace("dense ", "dense2 ", 1).replace("sparse ", "sparse2 ", 1)
    cases.append(Case("C10 %s sv2=%s init2=%s reps=%s drawn=%s ts=%d u=%s" % (
        w, intm(sv2), wire, "none" if reps is None else str(reps), ints(drawn), ts, fxm(U)), out,
        nontrivial=(exp != "ERR" and ts >= 2 and len(U) >= 1), tag=tag))
    ch.mc.state_values = None


class interpreted_kernels:
    """run the path kernels of markov/core.py as plain Python (their .py_func)"""

    def __enter__(self):
        from quantecon.markov import core
        self.core, self.saved = core, {}
        for name in ("_generate_sample_paths", "_generate_sample_paths_sparse"):
            f = getattr(core, name, None)
            if f is not None and hasattr(f, "py_func"):
                self.saved[name] = f
                setattr(core, name, f.py_func)
        return self

    def __exit__(self, *a):
        for name, f in self.saved.items():
            setattr(self.core, name, f)
        return False


def rows_acceptable(rows, slack=1e-9):
    """exact reading of the constructor's requirement; None when a row sum is too close to the tolerance
    boundary for the exact test and the double test to be comparable"""
    from fractions import Fraction
    tol = Fraction(1, 10 ** 8) + Fraction(1, 10 ** 5)
    ok = True
    for r in rows:
        d = abs(sum(Fraction(float(x)) for x in r) - 1)
        if abs(d - tol) < Fraction(slack):
            return None
        ok = ok and d <= tol and all(x >= 0 for x in r)
    return ok


def construct(ctx, MarkovChain, given, rows):
    """MarkovChain(given), judged: a matrix that meets the documented requirement must be accepted in every
    form / format, one that does not must be refused"""
    f32 = getattr(given, "dtype", None) == np.float32       # row sums are then accumulated in float32
    want = rows_acceptable(rows, 2e-6 if f32 else 1e-9)
    try:
        mc = MarkovChain(given)
    except ValueError:
        mc = None
    if want is not None and (mc is not None) != want:
        ctx.spec_fail("constructor_checks", "MarkovChain(<%s>) %s, the requirement says %s" % (
            type(given).__name__, "accepted" if mc is not None else "raised ValueError", "accept" if want else "refuse"),
            {"op": "MarkovChain", "form": type(given).__name__, "P": [[float(x).hex() for x in r] for r in rows]})
    if mc is None:
        ctx.count("constructor-rejected")
    return mc


def dense_form(rng, rows, ctx):
    """the matrix as list / tuple / ndarray in C or F order / strided, transposed or reversed view / float32"""
    A = np.array(rows)
    n = len(rows)
    f = rng.choice(["C", "C", "F", "list", "tuple", "strided", "transposed-view", "reversed-view", "float32", "float32-F"])
    ctx.count("form:P:" + f)
    if f == "C":
        return A
    if f == "F":
        return np.asfortranarray(A)
    if f == "list":
        return [list(r) for r in rows]
    if f == "tuple":
        return tuple(tuple(r) for r in rows)
    if f == "strided":
        big = np.full((2 * n, 3 * n), 7.0)
        big[::2, ::3] = A
        return big[::2, ::3]
    if f == "transposed-view":
        return np.ascontiguousarray(A.T).T
    if f == "reversed-view":
        return np.ascontiguousarray(A[::-1, ::-1])[::-1, ::-1]
    if f == "float32":
        return A.astype(np.float32)
    return np.asfortranarray(A.astype(np.float32))


def make_sparse(rng, rows, ctx):
    """the matrix in a sparse format: CSR (canonical or hand-built), CSC, COO (also with duplicate entries),
    LIL, sparse arrays, int64 index arrays, float32 data"""
    m = make_csr(rng, rows, ctx)
    f = rng.choice(["csr", "csr", "csr", "csc", "coo", "coo-duplicates", "lil", "csr_array", "coo_array", "int64-indices",
                    "float32"])
    ctx.count("form:sparse:" + f)
    if f == "csc":
        return m.tocsc()
    if f == "coo":
        return m.tocoo()
    if f == "coo-duplicates":
        c = m.tocoo()
        if c.nnz:
            j = rng.randrange(c.nnz)          # split one entry into two halves (summed by the CSR conversion)
            data = np.concatenate([c.data, [c.data[j] / 2]])
            data[j] = c.data[j] / 2
            return sparse.coo_matrix((data, (np.concatenate([c.row, [c.row[j]]]), np.concatenate([c.col, [c.col[j]]]))),
                                     shape=c.shape)
        return c
    if f == "lil":
        return m.tolil()
    if f == "csr_array":
        return sparse.csr_array(m)
    if f == "coo_array":
        return sparse.coo_array(m.tocoo())
    if f == "int64-indices":
        m.indices = m.indices.astype(np.int64)
        m.indptr = m.indptr.astype(np.int64)
        return m
    if f == "float32":
        return m.astype(np.float32)
    return m


def make_csr(rng, rows, ctx):
    """CSR matrix for the rows; sometimes hand-built with explicit zeros / unsorted columns"""
    n = len(rows)
    if rng.random() < 0.4:
        ctx.count("csr:canonical")
        return sparse.csr_matrix(np.array(rows))
    data, indices, indptr = [], [], [0]
    for r in rows:
        ent = [(j, x) for j, x in enumerate(r) if x != 0.0]
        zeros = [j for j, x in enumerate(r) if x == 0.0]
        for j in zeros:
            if rng.random() < 0.4:
                ent.append((j, 0.0))           # explicitly stored zero
                ctx.count("csr:explicit-zero")
        if rng.random() < 0.5:
            rng.shuffle(ent)
            ctx.count("csr:unsorted-row")
        else:
            ent.sort()
        for j, x in ent:
            indices.append(j)
            data.append(x)
        indptr.append(len(data))
    return sparse.csr_matrix((np.array(data, dtype=float), np.array(indices, dtype=np.int32),
                              np.array(indptr, dtype=np.int32)), shape=(n, n))


# ----------------------------------------------------------------------------


def load_corpus(ctx):
    out = []
    for f in sorted(glob.glob(os.path.join(ctx.corpus_dir, "c10_*.json"))):
        try:
            out.extend(json.load(open(f)))
        except Exception as e:       # a broken corpus file is a tool problem, but not fatal
            ctx.notes.append("corpus file %s unreadable: %s" % (f, e))
    return out


def run(ctx):
    import quantecon as qe
    from quantecon.markov.core import MarkovChain, mc_sample_path
    from quantecon.util import array as qarray
    searchsorted = qarray.searchsorted
    searchsorted_cdf = getattr(qarray, "searchsorted_cdf", None)   # absent in trees before the F2 repair
    from quantecon.random import utilities as qru

    rng = ctx.rng
    cases = []
    ctx.rule = ("chains built row by row from: dyadic rows (exact cumsum; also run at Rat), 1/n rows (cumsum below 1), "
                "zero-probability trailing states, mass deficient/excessive inside allclose, tiny entries, generic floats; "
                "dense and CSR (canonical and hand-built with stored zeros / unsorted columns); every init kind "
                "(None, scalar, negative, out of range, array, empty array) x num_reps in {None,0,1,2,3} x simulate/"
                "simulate_indices; uniforms planted adaptively along the walk: 0, 1-2^-53, exact cdf break-points and their "
                "neighbours, values >= cdf[-1]; non-trivial = valid request with at least one transition. "
                "Round 2: object HISTORIES on one MarkovChain (state_values assigned / permuted / dtype changed / None / back / "
                "wrong length between simulate and simulate_indices calls by value, list of values, None, index; each call "
                "judged against the current labels and compared with the model both singly and as a whole history); "
                "ARGUMENT FORMS: init as Python int/bool, np.int8..int64, uint8/uint64, intp, 0-d arrays, np.bool_, floats, "
                "lists/tuples/arrays of every integer dtype, lists of NumPy scalars and of 0-d arrays, bool and float arrays; "
                "ts_length/num_reps/sample_size/k as NumPy ints and 0-d arrays; the number and shape of the random numbers "
                "consumed must be exactly the documented ones (recording stream, no leftovers). "
                "Hardening round: every returned array is KEPT with a copy of its bits and re-judged after every later call / "
                "assignment (kept_result_changed); np.shares_memory of every result with the inputs, the object's arrays "
                "(P, CSR arrays, cdf caches, state_values, q, Q) and earlier results (result_aliases); every input and object "
                "array bitwise unchanged after every call (input_modified); P as list/tuple/C/F/strided/transposed/reversed "
                "views/float32/integer/bool dtypes; sparse input as csr/csc/coo(+duplicates)/lil/csr_array/coo_array, int64 "
                "index arrays, float32 data, stored zeros, each judged against the exact constructor requirement "
                "(constructor_checks) and cdfs against the sequential sums in the matrix's precision; optional arguments "
                "omitted / positional / keyword for simulate*, mc_sample_path (defaults init=0, sample_size=1000), "
                "DiscreteRV.draw, random.draw; q and cdf as list/tuple/array/strided/reversed/float32; histories on one "
                "DiscreteRV object (assignments to .q between draws; drvhist)")
    ctx.assumptions.append("NumPy's RandomState reproducibility (equal seeds give equal streams) is trusted; the harness "
                           "injects the uniforms through a RandomState subclass, so the model sees the numbers the kernel saw")

    # ---- corpus: the inputs of the repaired defects F2 / F3 and past disagreements -------------
    for c in load_corpus(ctx):
        P = np.array(c["P"], dtype=float)
        mc = MarkovChain(sparse.csr_matrix(P) if c.get("sparse") else P)
        ch = Chain(mc)
        init = c["init"]
        arg = Arg(init, "none" if init is None else ("s" if isinstance(init, int) else "a"), init)
        sim_case(ctx, ch, arg, c.get("reps"), c["ts"], c.get("via", "indices"), False, cases,
                 "corpus", fixed_u=(float.fromhex(c["u"]) if "u" in c else None))
        ctx.count("corpus-cases")

    # ---- simulate / simulate_indices ------------------------------------------------------------
    n_chains = ctx.n(250, 2500)
    for ci in range(n_chains):
        n = rng.choice([1, 2, 3, 3, 4, 5, 6, 7, 10, 10])
        rows, dyadic = gen_matrix(rng, n, ctx)
        for sp in (False, True):
            try:
                if sp:
                    given = make_sparse(rng, rows, ctx)
                elif dyadic and rng.random() < 0.1 and all(x in (0.0, 1.0) for r in rows for x in r):
                    given = np.array(rows, dtype=rng.choice([int, np.int32, np.uint8, bool]))
                    ctx.count("P:integer-dtype")
                else:
                    given = dense_form(rng, rows, ctx)
                pguard = Unchanged([("the matrix passed to the constructor", given)] + (
                    [("its %s array" % a_, getattr(given, a_, None)) for a_ in ("data", "indices", "indptr", "row", "col")]
                    if sparse.issparse(given) else []))
                rows_eff = np.asarray(given.todense() if sparse.issparse(given) else given, dtype=float).tolist()
                mc = construct(ctx, MarkovChain, given, rows_eff)
            except ValueError:
                ctx.count("constructor-rejected")
                continue
            if mc is None:
                continue
            ch = Chain(mc, given if isinstance(given, np.ndarray) or sparse.issparse(given) else None)
            ch.check_cdfs(ctx)
            pguard.check(ctx, "MarkovChain(P) / .cdfs", {"op": "MarkovChain", "P": repr(given)[:400]})
            for _ in range(ctx.n(3, 4)):
                arg = gen_init(rng, n, ctx)
                reps = rng.choice([None, None, None, 0, 1, 2, 3])
                ts = rng.choice([0, 1, 2, 3, 5, 8, 13]) if rng.random() < 0.9 else rng.randint(20, ctx.n(60, 400))
                via = rng.choice(["indices", "indices", "simulate"])
                sim_case(ctx, ch, arg, reps, ts, via, dyadic, cases, "sparse" if sp else "dense")
            if rng.random() < 0.4:
                sim2_case(ctx, ch, cases, ("sparse" if sp else "dense") + "-sv2")

    # ---- object histories: one MarkovChain, state_values re-assigned between the calls ------------
    # every call is judged by the oracle against the CURRENT state_values and compared with the model twice:
    # as a single call (state_values explicit) and as part of the whole history (histdense / histsparse)
    def gen_labels(n, kindhint=None):
        """(object for the setter, list of label objects, codes)"""
        kind = kindhint or rng.choice(["int", "int", "int32", "float-half", "float-integral", "str"])
        if kind in ("int", "int32", "float-integral"):
            vals = rng.sample(range(-20, 40), n)
            if n >= 2 and rng.random() < 0.15:
                vals[rng.randrange(1, n)] = vals[0]              # duplicated label: first position wins
            arr = np.array(vals, dtype={"int": np.int64, "int32": np.int32, "float-integral": float}[kind])
        elif kind == "float-half":
            vals = [v + 0.5 for v in rng.sample(range(-20, 40), n)]
            arr = np.array(vals)
        else:
            vals = rng.sample("abcdefghijklmnopqrstuvwxyz", n)
            arr = np.array(vals)
        ctx.count("hist:labels:" + kind)
        r = rng.random()
        if r < 0.45 or kind in ("int32",):
            obj = arr
        elif r < 0.6:
            big = np.concatenate([arr, arr])[np.repeat(np.arange(n), 2)]      # strided view of a larger array
            obj = big[::2]
            ctx.count("hist:labels-as-strided-view")
        elif r < 0.75:
            obj = tuple(arr.tolist())
        else:
            obj = [x for x in arr.tolist()]
        return obj, list(arr), [code_of(v) for v in arr]

    def value_arg(labels, codes, stale):
        """an init given by VALUE for the current labelling (sometimes a value that is not / no longer a label)"""
        pool = list(zip(labels, codes))
        kind = rng.randrange(6)
        if kind == 0:
            return Arg(None, "none", None)

        def pick():
            if stale and rng.random() < 0.2:
                ctx.count("hist:init-from-an-earlier-labelling")
                return rng.choice(stale)
            return rng.choice(pool)
        if kind <= 3:
            v, c = pick()
            is_int = isinstance(v, (int, np.integer))
            r = rng.random()
            if is_int and r < 0.5:
                obj = int_form(rng, int(v), ctx, what="value")
            elif r < 0.65:
                obj = np.array(v)            # 0-d array: np.asarray(value).ndim == 0, a single value
                ctx.count("form:value:0d-array")
            else:
                obj = v if rng.random() < 0.5 else (v.item() if hasattr(v, "item") else v)
            return Arg(obj, "s", c)
        picks = [pick() for _ in range(rng.randint(0, 3))]
        vs, cs = [p[0] for p in picks], [p[1] for p in picks]
        if not vs:
            return Arg([], "a", [])
        same = len({type(v) for v in vs}) == 1
        obj = np.array(vs) if (same and rng.random() < 0.5) else list(vs)
        if isinstance(obj, list) and any(isinstance(v, (str, np.str_)) for v in vs) and not all(isinstance(v, (str, np.str_)) for v in vs):
            obj = [vs[0]]                     # (a list mixing strings and numbers is not a list of values)
            cs = [cs[0]]
        return Arg(obj, "a", cs)

    for hi in range(ctx.n(120, 1200)):
        n = rng.choice([2, 3, 3, 4, 5, 6])
        rows, dyadic = gen_matrix(rng, n, ctx)
        sp = rng.random() < 0.5
        try:
            given = make_sparse(rng, rows, ctx) if sp else dense_form(rng, rows, ctx)
            rows_eff = np.asarray(given.todense() if sparse.issparse(given) else given, dtype=float).tolist()
            mc = construct(ctx, MarkovChain, given, rows_eff)
        except ValueError:
            continue
        if mc is None:
            continue
        ch = Chain(mc, given if isinstance(given, np.ndarray) or sparse.issparse(given) else None)
        ch.check_cdfs(ctx)
        labelings = []                # earlier (labels, codes)
        cur = None                    # (obj, labels, codes) or None
        stale = []
        sv0 = None
        if rng.random() < 0.6:
            cur = gen_labels(n)
            mc.state_values = cur[0]
            labelings.append(cur)
            sv0 = cur[2]
        ops, outs = [], []
        n_calls_by_value = 0
        for oi in range(rng.randint(4, 9)):
            if rng.random() < 0.35:
                # ---- re-assignment of state_values ----
                kind = rng.choice(["permute", "permute", "fresh", "dtype", "none", "back", "wrong-length"])
                new, want_ok = None, True
                if kind == "permute" and cur is not None:
                    perm = list(range(n))
                    rng.shuffle(perm)
                    arr = np.asarray(cur[0])[perm]
                    new = (arr if rng.random() < 0.5 else arr.tolist(), [cur[1][i] for i in perm], [cur[2][i] for i in perm])
                elif kind == "dtype" and cur is not None and all(isinstance(v, (int, np.integer)) for v in cur[1]):
                    arr = np.asarray(cur[0]).astype(rng.choice([float, np.int32, np.int16]))
                    new = (arr, list(arr), list(cur[2]))
                elif kind == "back" and labelings:
                    new = rng.choice(labelings)
                elif kind == "wrong-length":
                    o, l, c = gen_labels(n + rng.choice([-1, 1]))
                    new, want_ok = (o, l, c), False
                elif kind == "none":
                    new = "none"
                else:
                    kind = "fresh"
                    new = gen_labels(n)
                ctx.count("hist:set:" + kind)
                try:
                    mc.state_values = None if new == "none" else new[0]
                    out = "set-ok"
                except ValueError:
                    out = "ERR:ValueError"
                KEEP.recheck(ctx, "an assignment to state_values")
                if (out == "set-ok") != want_ok:
                    ctx.spec_fail("state_values_setter", "assignment of %r: %s" % (None if new == "none" else new[0], out),
                                  {"op": "state_values", "n": n, "value": repr(None if new == "none" else new[0])})
                if out == "set-ok":
                    if cur is not None:
                        stale += [(v, c) for v, c in zip(cur[1], cur[2])]
                    cur = None if new == "none" else new
                    if cur is not None and want_ok:
                        labelings.append(cur)
                ops.append("o%d.kind=set o%d.sv=%s" % (oi, oi, "none" if new == "none" else ints(new[2])))
                outs.append(out)
                continue
            # ---- a call ----
            via = rng.choice(["simulate", "simulate", "simulate", "indices"])
            codes = None if cur is None else cur[2]
            if via == "simulate" and cur is not None:
                cur_stale = [(v, c) for v, c in stale if c not in codes]
                arg = value_arg(cur[1], cur[2], cur_stale)
                if arg.kind != "none":
                    n_calls_by_value += 1
            else:
                arg = gen_init(rng, n, ctx)
            reps = rng.choice([None, None, None, 1, 2])
            ts = rng.choice([1, 2, 3, 5, 8])
            toks, out = sim_case(ctx, ch, arg, reps, ts, via, False, cases,
                                 ("sparse" if sp else "dense") + "-hist-call", sv=codes)
            ops.append("o%d.kind=call " % oi + " ".join("o%d.%s" % (oi, t) for t in toks.split(" ")))
            outs.append(out)
        ctx.count("hist:histories")
        if n_calls_by_value >= 2:
            ctx.count("hist:with>=2-calls-by-value")
        wire = ch.wire("float").replace("dense ", "histdense ", 1).replace("sparse ", "histsparse ", 1)
        cases.append(Case("C10 %s sv0=%s nops=%d %s" % (wire, "none" if sv0 is None else ints(sv0), len(ops), " ".join(ops)),
                          " ## ".join(outs), nontrivial=True, tag="history"))

    # ---- ts_length = 0 in every unsigned form, always exercised (interpreted kernels first, as everywhere) ----
    mc0 = MarkovChain(np.array([[0.5, 0.5], [0.25, 0.75]]))
    ch0 = Chain(mc0)
    import warnings
    for z in (np.uint8(0), np.uint16(0), np.uint32(0), np.uint64(0)):
        rs = Planted(uniforms=[np.zeros((1, 0))])     # nothing may be drawn beyond an empty (1, -1)-shaped request
        try:
            with interpreted_kernels(), warnings.catch_warnings():
                warnings.simplefilter("ignore")
                X = mc0.simulate_indices(z, init=0, random_state=rs)
            out = "returned shape %s" % (np.shape(X),)
        except ValueError:
            out = "ERR:ValueError"
        except (IndexError, MemoryError) as e:
            out = "ERR:" + type(e).__name__
        ctx.count("ts_length-unsigned-zero:" + out.split(" ")[0])
        if out != "ERR:ValueError":
            ctx.spec_fail("ts_length_zero_unsigned",
                          "simulate_indices(ts_length=%r, init=0): %s; with a Python int 0 it raises ValueError" % (z, out),
                          {"op": "simulate_indices", "ts_length": repr(z), "init": 0, "P": [[0.5, 0.5], [0.25, 0.75]]})
        cases.append(Case("C10 %s init=s:0 reps=none drawn=- via=indices ts=0 u=-" % ch0.wire("float"),
                          ch0.code_cdfs("float") + "|" + out, nontrivial=False, tag="dense:float"))

    # ---- the constructor's checks: which matrices are chains at all -----------------------------
    from fractions import Fraction
    TOL = Fraction(1, 10 ** 8) + Fraction(1, 10 ** 5)
    for _ in range(ctx.n(300, 3000)):
        n = rng.choice([1, 2, 3, 4, 6, 9, 10])
        rows, _d = gen_matrix(rng, n, ctx)
        kind = rng.randrange(8)
        if kind == 0:
            i, j = rng.randrange(n), rng.randrange(n)
            rows[i][j] += rng.choice([2e-5, 1.2e-5, 1e-4, 0.5, -3e-5]) if rows[i][j] > 0.1 else 2e-5
            ctx.count("accept:row-sum-off")
        elif kind == 1:
            i, j = rng.randrange(n), rng.randrange(n)
            rows[i][j] += rng.choice([9e-6, -9e-6, 5e-6, 1e-9]) if rows[i][j] > 0.1 else 9e-6
            ctx.count("accept:row-sum-inside-tolerance")
        elif kind == 2 and n >= 2:
            i = rng.randrange(n)
            j, k = rng.sample(range(n), 2)
            rows[i][j] -= rows[i][j] + 0.25
            rows[i][k] += 0.25 + (rows[i][j] + 0.25) * 0   # keep it simple: a negative entry
            ctx.count("accept:negative-entry")
        elif kind == 3:
            rows = rows[:-1] if n >= 2 and rng.random() < 0.5 else [r + [0.0] for r in rows]
            ctx.count("accept:not-square")
        elif kind == 4:
            rows[rng.randrange(n)] = [0.0] * n
            ctx.count("accept:zero-row")
        # keep away from the 1e-15 sliver where the double test and the exact test may differ
        sliver = any(abs(abs(sum(Fraction(x) for x in r) - 1) - TOL) < Fraction(1, 10 ** 12) for r in rows)
        if sliver:
            ctx.count("accept:skipped-boundary-sliver")
            continue
        for sp in (False, True):
            try:
                A = np.array(rows)
                MarkovChain(sparse.csr_matrix(A) if sp else A)
                out = "ok"
            except ValueError:
                out = "ERR:ValueError"
            # independent exact oracle of the documented requirement
            square = all(len(r) == len(rows) for r in rows)
            want_ok = square and all(x >= 0 for r in rows for x in r) and \
                all(abs(sum(Fraction(x) for x in r) - 1) <= TOL for r in rows)
            ctx.count("accept:" + out)
            if (out == "ok") != want_ok:
                ctx.spec_fail("constructor_checks", "MarkovChain(%s) -> %s, requirement says %s" % (
                    "csr" if sp else "dense", out, "ok" if want_ok else "ValueError"),
                    {"op": "MarkovChain", "sparse": sp, "P": [[x.hex() for x in r] for r in rows]})
            cases.append(Case("C10 accept P=%s" % fxm(rows), out, nontrivial=True, tag="accept"))

    # ---- equal seeds give equal paths (the real generator, no injection) -----------------------
    for _ in range(ctx.n(6, 40)):
        n = rng.randint(2, 6)
        rows, _d = gen_matrix(rng, n, ctx)
        try:
            mc = MarkovChain(np.array(rows))
        except ValueError:
            continue
        seed = rng.randrange(2 ** 31)
        a = mc.simulate_indices(30, init=None, num_reps=2, random_state=seed)
        b = mc.simulate_indices(30, init=None, num_reps=2, random_state=seed)
        c = MarkovChain(sparse.csr_matrix(np.array(rows))).simulate_indices(30, init=None, num_reps=2, random_state=seed)
        ctx.count("seed-determinism-runs")
        if not (np.array_equal(a, b)):
            ctx.spec_fail("seed_determinism", "equal seeds, different paths", {"P": rows, "seed": seed})
        if not ((0 <= a).all() and (a < n).all() and (0 <= c).all() and (c < n).all()):
            ctx.spec_fail("seed_range", "state outside range", {"P": rows, "seed": seed})
        # the same for a Generator seed, mc_sample_path and DiscreteRV.draw
        g1 = mc.simulate_indices(20, init=0, random_state=np.random.default_rng(seed))
        g2 = mc.simulate_indices(20, init=0, random_state=np.random.default_rng(seed))
        m1 = mc_sample_path(np.array(rows), init=rows[0], sample_size=20, random_state=seed)
        m2 = mc_sample_path(np.array(rows), init=rows[0], sample_size=20, random_state=seed)
        d1 = qe.DiscreteRV(rows[0]).draw(k=20, random_state=seed)
        d2 = qe.DiscreteRV(rows[0]).draw(k=20, random_state=seed)
        if not (np.array_equal(g1, g2) and np.array_equal(m1, m2) and np.array_equal(d1, d2)):
            ctx.spec_fail("seed_determinism", "equal seeds, different results (Generator / mc_sample_path / DiscreteRV)",
                          {"P": rows, "seed": seed})
        for arr in (g1, m1, d1):
            if not ((0 <= np.asarray(arr)).all() and (np.asarray(arr) < n).all()):
                ctx.spec_fail("seed_range", "state outside range", {"P": rows, "seed": seed})

    # ---- mc_sample_path --------------------------------------------------------------------------
    # init: a state in every numbers.Integral form, a distribution in several array forms, or (what the
    # code then treats as a one-point distribution) a scalar that is not numbers.Integral
    for _ in range(ctx.n(250, 2500)):
        n = rng.choice([2, 3, 4, 6, 10])
        rows, dyadic = gen_matrix(rng, n, ctx)
        try:
            mc = MarkovChain(np.array(rows))
        except ValueError:
            continue
        ch = Chain(mc)
        ts = rng.choice([1, 2, 4, 9])
        ts_obj = count_form(rng, ts, ctx, "sample_size")
        mode = rng.choice(["dist", "dist", "state", "state", "state", "not-Integral"])
        zero_d_int = None
        if mode == "dist":
            dist, ddy = gen_row(rng, n, ctx)
            form = rng.choice(["list", "tuple", "array", "np-scalars"])
            ctx.count("form:mcsp-dist:" + form)
            init_arg = {"list": list(dist), "tuple": tuple(dist), "array": np.array(dist),
                        "np-scalars": [np.float64(x) for x in dist]}[form]
        elif mode == "state":
            x0 = rng.choice([rng.randrange(n), rng.randrange(n), rng.randrange(n), n, -1])
            init_arg, ddy, dist = int_form(rng, x0, ctx, what="mcsp-init"), True, None
        else:
            v = rng.randrange(n)
            f = rng.choice(["0d-int-array", "float", "np.bool_"])
            ctx.count("form:mcsp-init:" + f)
            if f == "0d-int-array":
                init_arg, dist, zero_d_int = np.array(v), [float(v)], v
            elif f == "float":
                init_arg, dist = float(v), [float(v)]
            else:
                init_arg, dist = np.bool_(v % 2 == 1), [float(v % 2)]
            ddy = False
        use_dist = dist is not None
        if use_dist:
            dcdf = seq_cumsum(dist)
            u0 = plant_uniform(rng, dist, dcdf, ctx) if mode == "dist" else rng.random()
            x0, fb = ref_step(dist, dcdf, u0)
            if fb and mode == "dist":
                ctx.count("mcsp:u0>=cdf[-1]")
        else:
            u0 = None
        U, s0 = [], x0
        if 0 <= x0 < n:
            for t in range(ts - 1):
                cols, p, cdf = ch.rows[s0]
                u = plant_uniform(rng, p, cdf, ctx)
                s0 = cols[ref_step(p, cdf, u)[0]]
                U.append(u)
            Us = [U]
        else:
            Us = []
        uq = ([np.float64(u0)] if use_dist else []) + [np.array(Us, dtype=float).reshape(len(Us), ts - 1)]
        P_arg = dense_form(rng, rows, ctx)
        if isinstance(P_arg, np.ndarray) and P_arg.dtype == np.float32:
            P_arg = np.array(rows)             # (float32 accumulation is exercised through MarkovChain directly)
        mstyles = ["keyword", "positional"]
        if mode == "state" and x0 == 0:
            mstyles.append("init-omitted")      # default init=0
        mstyle = rng.choice(mstyles)
        ctx.count("call-style:mcsp:" + mstyle)
        mguard = Unchanged([("the matrix P", P_arg), ("the init argument", init_arg)])
        mraws = []

        def call_mcsp(interpreted):
            rs = Planted(uniforms=list(uq))

            def invoke():
                if mstyle == "positional":
                    return mc_sample_path(P_arg, init_arg, ts_obj, rs)
                if mstyle == "init-omitted":
                    return mc_sample_path(P_arg, sample_size=ts_obj, random_state=rs)
                return mc_sample_path(P=P_arg, init=init_arg, sample_size=ts_obj, random_state=rs)
            try:
                if interpreted:
                    with interpreted_kernels():
                        X = invoke()
                else:
                    X = invoke()
                mraws.append(X)
                return np.asarray(X), canon_X(X), rs
            except ValueError:
                return None, "ERR:ValueError", rs
            except IndexError:
                return None, "ERR:IndexError", rs
        X, out, rs = call_mcsp(True)          # pre-flight, see sim_case
        if out != "ERR:IndexError" and not (X is not None and X.size and (X.min() < 0 or X.max() >= n)):
            X, out, rs = call_mcsp(False)
        else:
            ctx.count("mcsp:unsafe-in-preflight")
        replay = {"op": "mc_sample_path", "P": [[x.hex() for x in r] for r in rows], "init": repr(init_arg),
                  "sample_size": repr(ts_obj), "u0": None if u0 is None else u0.hex(),
                  "uniforms": [u.hex() for u in U], "code": out}
        mguard.check(ctx, "mc_sample_path", replay)
        for r_ in mraws:
            KEEP.aliases(ctx, "mc_sample_path", r_, [("the matrix P", P_arg), ("the init argument", init_arg)], replay)
            KEEP.keep("mc_sample_path", r_)
        KEEP.recheck(ctx, "mc_sample_path")
        if mode == "not-Integral":
            # the code takes the scalar for a one-point distribution (one extra uniform, start at state 0);
            # for an integer-valued 0-d array that is not what "scalar(int)" in the docstring promises
            if zero_d_int is not None and (X is None or int(X[0]) != zero_d_int or rs.log[:1] == [np.float64(u0)]):
                observe(ctx, "mc_sample_path_0d_int_init",
                        "mc_sample_path(init=np.array(%d)) treats the 0-d integer array as a distribution: draws an extra "
                        "uniform and starts at state %s" % (zero_d_int, None if X is None else int(X[0])), replay)
        elif not (0 <= x0 < n):
            if X is not None:
                ctx.spec_fail("mc_sample_path_init", "initial state %d accepted" % x0, replay)
        elif X is None:
            ctx.spec_fail("mc_sample_path_raises", "valid request raised %s" % out, replay)
        else:
            bad = None
            X = np.asarray(X)
            if rs.shape_mismatch or rs.uq:
                bad = ("random numbers consumed differ from the documented ones (%s)" %
                       ("request of shape %s where %s was due" % rs.shape_mismatch[::-1] if rs.shape_mismatch
                        else "%d planted arrays left" % len(rs.uq)))
            elif X.shape != (ts,):
                bad = "shape %s" % (X.shape,)
            elif use_dist and inv_cdf_ok(dist, dcdf, u0, int(X[0])):
                bad = "X_0: " + inv_cdf_ok(dist, dcdf, u0, int(X[0]))
            elif not use_dist and X[0] != x0:
                bad = "X_0 = %d, requested %d" % (X[0], x0)
            else:
                for t in range(ts - 1):
                    s, j = int(X[t]), int(X[t + 1])
                    if not (0 <= s < n):
                        bad = "state %d" % s
                        break
                    why = inv_cdf_ok(ch.rows[s][1], ch.rows[s][2], U[t], j)
                    if why:
                        bad = "step %d from %d: %s" % (t, s, why)
                        break
            if bad:
                ctx.spec_fail("mc_sample_path", bad, replay)
        for sc in ["float"] + (["rat"] if dyadic and ddy else []):
            fm, f1 = (fxm, fxs) if sc == "float" else (ratm, rats)
            line = "C10 mcsp sc=%s P=%s ts=%d u=%s " % (sc, fm(rows), ts, fm(Us))
            line += ("dist=%s u0=%s" % (f1(dist), f1([u0]))) if use_dist else ("x0=%d" % x0)
            cases.append(Case(line, out, nontrivial=(X is not None and ts >= 2), tag="mcsp:" + sc))

    # mc_sample_path with sample_size omitted (documented default 1000) and init omitted (default 0)
    for _ in range(ctx.n(2, 10)):
        n = rng.choice([2, 3, 5])
        rows, _d = gen_matrix(rng, n, ctx)
        try:
            ch = Chain(MarkovChain(np.array(rows)))
        except ValueError:
            continue
        U, s0 = [], 0
        for t in range(999):
            cols, p, cdf = ch.rows[s0]
            u = plant_uniform(rng, p, cdf, ctx)
            s0 = cols[ref_step(p, cdf, u)[0]]
            U.append(u)
        rs = Planted(uniforms=[np.array([U])])
        X = np.asarray(mc_sample_path(np.array(rows), random_state=rs))
        out = canon_X(X)
        ctx.count("call-style:mcsp:all-defaults")
        bad = None
        if X.shape != (1000,) or rs.uq or rs.shape_mismatch:
            bad = "shape %s / stream %s for the defaults init=0, sample_size=1000" % (X.shape, rs.shape_mismatch)
        elif X[0] != 0:
            bad = "default init: path starts at %d" % X[0]
        else:
            for t in range(999):
                why = inv_cdf_ok(ch.rows[int(X[t])][1], ch.rows[int(X[t])][2], U[t], int(X[t + 1]))
                if why:
                    bad = "step %d: %s" % (t, why)
                    break
        if bad:
            ctx.spec_fail("mc_sample_path_defaults", bad, {"op": "mc_sample_path", "P": [[x.hex() for x in r] for r in rows],
                                                           "uniforms": [u.hex() for u in U[:50]]})
        cases.append(Case("C10 mcsp sc=float P=%s ts=1000 u=%s x0=0" % (fxm(rows), fxm([U])), out, tag="mcsp:float"))

    # ---- DiscreteRV.draw and random.draw -------------------------------------------------------------
    for _ in range(ctx.n(400, 4000)):
        n = rng.choice([1, 2, 3, 4, 6, 7, 10])
        q, dyadic = gen_row(rng, n, ctx)
        cdf = seq_cumsum(q)
        kdraw = rng.choice([0, 1, 2, 5, 9])
        us = [plant_uniform(rng, q, cdf, ctx) for _ in range(kdraw)]
        nfb = sum(1 for u in us if ref_step(q, cdf, u)[1])
        if nfb:
            ctx.count("draw:u>=cdf[-1]", nfb)
        # DiscreteRV
        rs = Planted(uniforms=[np.array(us, dtype=float)])
        qform = rng.choice(["list", "tuple", "array", "array", "strided-view", "float32"])
        ctx.count("form:drv-q:" + qform)
        q_obj = {"list": lambda: list(q), "tuple": lambda: tuple(q), "array": lambda: np.array(q),
                 "strided-view": lambda: np.repeat(np.array(q), 2)[::2],
                 "float32": lambda: np.array(q, dtype=np.float32)}[qform]()
        f32 = qform == "float32"
        if f32:
            q = [float(x) for x in q_obj]              # the masses the object really holds
            cdf = seq_cumsum_dt(q, np.float32)
            us = [plant_uniform(rng, q, cdf, ctx) for _ in range(kdraw)]
            rs = Planted(uniforms=[np.array(us, dtype=float)])
        qguard = Unchanged([("the q argument", q_obj)])
        if rng.random() < 0.25:
            # another vector first (other dtype, often the same length), then the setter
            first = rng.choice([[1.0], [1] + [0] * (len(q) - 1), np.eye(len(q), dtype=bool)[-1], [1.0 / len(q)] * len(q)])
            d = qe.DiscreteRV(first)
            d.q = q_obj
            ctx.count("drv:q-setter")
        else:
            d = qe.DiscreteRV(q_obj)
        Qguard = Unchanged([("DiscreteRV.Q", d.Q), ("DiscreteRV.q", d.q)])
        k_obj = count_form(rng, kdraw, ctx, "drv-k")
        dstyle = rng.choice(["keyword", "positional"] + (["k-omitted"] if kdraw == 1 else []))
        ctx.count("call-style:drv:" + dstyle)
        if dstyle == "positional":
            idx = d.draw(k_obj, rs)
        elif dstyle == "k-omitted":
            idx = d.draw(random_state=rs)
        else:
            idx = d.draw(k=k_obj, random_state=rs)
        replay = {"op": "DiscreteRV.draw", "q": [x.hex() for x in q], "uniforms": [u.hex() for u in us],
                  "code": np.asarray(idx).tolist(), "q_form": qform, "k": repr(k_obj)}
        qguard.check(ctx, "DiscreteRV(q).draw", replay)
        Qguard.check(ctx, "DiscreteRV.draw", replay)
        KEEP.aliases(ctx, "DiscreteRV.draw", idx, [("the q argument", q_obj), ("DiscreteRV.Q", d.Q), ("DiscreteRV.q", d.q)], replay)
        KEEP.keep("DiscreteRV.draw", idx)
        Qc = [float(x) for x in d.Q]
        bad = None
        if Qc != cdf:
            bad = "Q is not the sequential cumulative sum of q"
        elif np.shape(idx) != (kdraw,) or rs.shape_mismatch or rs.uq:
            bad = "shape %s for k=%r (uniforms: %s)" % (np.shape(idx), k_obj, rs.shape_mismatch or "%d arrays left" % len(rs.uq))
        else:
            for u, j in zip(us, idx):
                bad = inv_cdf_ok(q, cdf, u, int(j))
                if bad:
                    break
        if bad:
            ctx.spec_fail("DiscreteRV_draw", bad, replay)
        if f32:
            cases.append(Case("C10 drv sc=float q=%s u=%s Q=%s" % (fxs(q), fxs(us), fxs(Qc)),
                              "Q=%s|%s" % (fxs(Qc), ints(idx)), nontrivial=kdraw > 0, tag="drv-f32:float"))
            dyadic = False
            KEEP.recheck(ctx, "DiscreteRV.draw")
            continue
        for sc in ["float"] + (["rat"] if dyadic else []):
            f1 = fxs if sc == "float" else rats
            cases.append(Case("C10 drv sc=%s q=%s u=%s" % (sc, f1(q), f1(us)),
                              "Q=%s|%s" % (f1(Qc), ints(idx)), nontrivial=kdraw > 0, tag="drv:" + sc))
        # random.draw (pure-Python entry; the uniforms come from np.random.random)
        size = kdraw if rng.random() < 0.8 or kdraw != 1 else None
        size_obj = size if size is None or rng.random() < 0.5 else \
            rng.choice([np.int64, np.int32, np.int16, np.intp, np.uint8, np.uint64])(size)
        if size is not None:
            ctx.count("form:draw-size:" + type(size_obj).__name__)
        calls = []

        def fake_random(sz=None, _us=us):
            calls.append(sz)
            return (_us[0] if _us else 0.5) if sz is None else np.array(_us[:int(sz)], dtype=float)
        cform = rng.choice(["array", "array", "strided-view", "reversed-view", "tuple", "list"])
        ctx.count("form:draw-cdf:" + cform)
        if cform == "strided-view":
            cdf_arr = np.repeat(np.array(cdf), 3)[::3]
        elif cform == "reversed-view":
            cdf_arr = np.array(cdf[::-1])[::-1]
        elif cform == "tuple":
            cdf_arr = tuple(cdf)
        elif cform == "list":
            cdf_arr = list(cdf)
        else:
            cdf_arr = np.array(cdf)
        dguard = Unchanged([("the cdf argument", cdf_arr)])
        import warnings
        with mock.patch.object(np.random, "random", fake_random), warnings.catch_warnings():
            warnings.simplefilter("ignore")          # (Numba's reflected-list deprecation warning)
            if size_obj is None and rng.random() < 0.5:
                got = qru.draw(cdf_arr)              # size omitted
            elif rng.random() < 0.3:
                got = qru.draw(cdf=cdf_arr, size=size_obj)
            else:
                got = qru.draw(cdf_arr, size_obj)
        dguard.check(ctx, "random.draw", {"op": "random.draw", "cdf": [x.hex() for x in cdf]})
        if cform in ("list", "tuple") and list(cdf_arr) != cdf:
            ctx.spec_fail("input_modified", "random.draw modified the cdf %s" % cform, {"op": "random.draw"})
        KEEP.aliases(ctx, "random.draw", got, [("the cdf argument", cdf_arr)], {"op": "random.draw"})
        KEEP.keep("random.draw", got)
        bad = None
        if size is not None and np.shape(got) != (size,):
            # every numbers.Integral size asks for an array of that many draws (fix c73be8b)
            ctx.spec_fail("random_draw_numpy_int_size", "random.draw(cdf, size=%r) returned %r (shape %s), not %d draws"
                          % (size_obj, got, np.shape(got), size),
                          {"op": "random.draw", "cdf": [x.hex() for x in cdf], "size": repr(size_obj), "code": repr(got)})
        scalar_out = np.ndim(got) == 0
        gl = [int(got)] if scalar_out else [int(x) for x in got]
        ul = [float(us[0]) if us else 0.5] if scalar_out else us[:len(gl)]
        if calls != [size_obj] and not (size is None and calls == []):
            bad = "np.random.random called with %r for size=%r" % (calls, size_obj)
        for u, j in zip(ul, gl):
            bad = bad or inv_cdf_ok(q, cdf, u, j)
        if bad:
            ctx.spec_fail("random_draw", bad, {"op": "random.draw", "cdf": [x.hex() for x in cdf], "size": size,
                                               "uniforms": [u.hex() for u in ul], "code": gl})
        for sc in ["float"] + (["rat"] if dyadic else []):
            f1 = fxs if sc == "float" else rats
            cases.append(Case("C10 draw sc=%s cdf=%s u=%s" % (sc, f1(cdf), f1(ul)), ints(gl),
                              nontrivial=len(ul) > 0, tag="draw:" + sc))
    # ---- histories on one DiscreteRV object: draws interleaved with assignments to .q -----------------
    for _ in range(ctx.n(100, 1000)):
        n_fix = rng.choice([1, 2, 3, 4, 7])

        def new_q():
            """a probability vector whose value kind, dtype and container are drawn independently of every earlier
            vector of this object (same length most of the time: that is where a setter can reuse storage)"""
            n = n_fix if rng.random() < 0.7 else rng.choice([1, 2, 3, 4, 7])
            kind = rng.choice(["one-hot", "one-hot", "dyadic", "dyadic", "generic"])
            if kind == "one-hot":
                q = [0.0] * n
                q[rng.randrange(n)] = 1.0
                dt = rng.choice(["int64", "int32", "uint8", "bool", "float64", "float32", "pyint", "pybool", "pyfloat"])
            elif kind == "dyadic":
                q, _d = gen_dyadic_row(rng, n, ctx)
                dt = rng.choice(["float64", "float64", "float32", "pyfloat"])
            else:
                q, _d = gen_row(rng, n, ctx)
                dt = rng.choice(["float64", "pyfloat"])
            ctx.count("drvhist:q:%s:%s" % (kind, dt))
            if dt.startswith("py"):
                vals = [{"pyint": int, "pybool": bool, "pyfloat": float}[dt](x) for x in q]
                obj = rng.choice([list, tuple])(vals)
            else:
                arr = np.array(q).astype(getattr(np, dt.replace("bool", "bool_")))
                f = rng.choice(["array", "array", "strided-view", "reversed-view", "list-of-scalars"])
                obj = {"array": lambda: arr, "strided-view": lambda: np.repeat(arr, 2)[::2],
                       "reversed-view": lambda: np.ascontiguousarray(arr[::-1])[::-1],
                       "list-of-scalars": lambda: list(arr)}[f]()
            return q, obj
        q, q_obj = new_q()
        q0 = q
        d = qe.DiscreteRV(q_obj)
        held = [("the q argument", q_obj)]
        ops, outs = [], []
        for oi in range(rng.randint(3, 8)):
            if rng.random() < 0.3:
                q, q_obj = new_q()
                d.q = q_obj
                held.append(("an assigned q", q_obj))
                ops.append("o%d.kind=set o%d.q=%s" % (oi, oi, fxs(q)))
                outs.append("set-ok")
                ctx.count("drvhist:set")
                KEEP.recheck(ctx, "an assignment to DiscreteRV.q")
                continue
            cdf = seq_cumsum(q)
            kd = rng.choice([0, 1, 1, 2, 5])
            us = [plant_uniform(rng, q, cdf, ctx) for _ in range(kd)]
            rs = Planted(uniforms=[np.array(us, dtype=float)])
            g = Unchanged(held + [("DiscreteRV.Q", d.Q), ("DiscreteRV.q", d.q)])
            idx = d.draw(random_state=rs) if kd == 1 and rng.random() < 0.4 else d.draw(count_form(rng, kd, ctx, "drv-k"), rs)
            rep = {"op": "DiscreteRV history", "q_now": [x.hex() for x in q], "uniforms": [u.hex() for u in us],
                   "code": np.asarray(idx).tolist(), "n_earlier_ops": oi}
            g.check(ctx, "DiscreteRV.draw", rep)
            KEEP.aliases(ctx, "DiscreteRV.draw", idx, held + [("DiscreteRV.Q", d.Q), ("DiscreteRV.q", d.q)], rep)
            KEEP.keep("DiscreteRV.draw", idx)
            KEEP.recheck(ctx, "DiscreteRV.draw")
            bad = None
            if [float(x) for x in d.Q] != cdf or [float(x) for x in np.asarray(d.q)] != q:
                bad = "q / Q of the object are not the CURRENT vector and its cumulative sum"
            elif np.shape(idx) != (kd,) or rs.shape_mismatch or rs.uq:
                bad = "shape %s for k=%d" % (np.shape(idx), kd)
            else:
                for u, j in zip(us, idx):
                    bad = bad or inv_cdf_ok(q, cdf, u, int(j))
            if bad:
                ctx.spec_fail("DiscreteRV_history", bad, rep)
            ops.append("o%d.kind=draw o%d.u=%s" % (oi, oi, fxs(us)))
            outs.append(ints(idx))
            ctx.count("drvhist:draw")
        cases.append(Case("C10 drvhist sc=float q0=%s nops=%d %s" % (fxs(q0), len(ops), " ".join(ops)), " ## ".join(outs),
                          tag="drvhist"))

    # random.draw(cdf, size) with `size` a NumPy integer (Python-level entry)
    for _ in range(ctx.n(80, 500)):
        n = rng.choice([2, 3, 7])
        q, _d = gen_row(rng, n, ctx)
        cdf = seq_cumsum(q)
        size = rng.choice([1, 2, 5])
        size_obj = rng.choice([np.int64, np.int32, np.int16, np.int8, np.intp, np.uint8, np.uint64])(size)
        us = [plant_uniform(rng, q, cdf, ctx) for _ in range(size)]
        calls = []

        def fake_random2(sz=None, _us=us):
            calls.append(sz)
            return _us[0] if sz is None else np.array(_us[:int(sz)], dtype=float)
        with mock.patch.object(np.random, "random", fake_random2):
            got = qru.draw(np.array(cdf), size_obj)
        ctx.count("form:draw-size:" + type(size_obj).__name__)
        rep = {"op": "random.draw", "cdf": [x.hex() for x in cdf], "size": repr(size_obj), "uniforms": [u.hex() for u in us],
               "code": repr(got)}
        if np.shape(got) != (size,):
            ctx.spec_fail("random_draw_numpy_int_size",
                          "random.draw(cdf, size=%r) returned %r (shape %s) instead of %d draws (fix c73be8b: every "
                          "numbers.Integral size is a sample size)" % (size_obj, got, np.shape(got), size), rep)
            gl, ul = [int(got)], us[:1]
        else:
            gl, ul = [int(x) for x in got], us
        bad = None
        for u, j in zip(ul, gl):
            bad = bad or inv_cdf_ok(q, cdf, u, j)
        if bad:
            ctx.spec_fail("random_draw", bad, rep)
        cases.append(Case("C10 draw sc=float cdf=%s u=%s" % (fxs(cdf), fxs(ul)), ints(gl), tag="draw-npsize:float"))
    # random.draw called from compiled code (the @overload path); the uniforms are those Numba's own
    # generator yields for the seed, observed by a second compiled function with the same seed
    try:
        from numba import njit

        @njit
        def jit_draw_n(cdf, size, seed):
            np.random.seed(seed)
            return qru.draw(cdf, size)

        @njit
        def jit_draw_1(cdf, seed):
            np.random.seed(seed)
            return qru.draw(cdf)

        @njit
        def jit_unif(size, seed):
            np.random.seed(seed)
            return np.random.random(size)
        have_jit = True
    except Exception as e:          # no Numba: nothing to observe
        have_jit = False
        ctx.notes.append("jitted draw not exercised: %r" % (e,))
    for _ in range(ctx.n(60, 600) if have_jit else 0):
        n = rng.choice([1, 2, 3, 7, 10])
        q, dyadic = gen_row(rng, n, ctx)
        cdf = seq_cumsum(q)
        seed = rng.randrange(2 ** 31)
        size = rng.choice([None, 1, 4, 16])
        if size is None:
            ul = [float(jit_unif(1, seed)[0])]
            gl = [int(jit_draw_1(np.array(cdf), seed))]
        else:
            ul = [float(x) for x in jit_unif(size, seed)]
            gl = [int(x) for x in jit_draw_n(np.array(cdf), size, seed)]
            gl2 = [int(x) for x in jit_draw_n(np.array(cdf), size, seed)]
            if gl2 != gl:
                ctx.spec_fail("random_draw_jit_determinism", "equal seeds, different draws", {"cdf": [x.hex() for x in cdf], "seed": seed})
        bad = None
        for u, j in zip(ul, gl):
            bad = bad or inv_cdf_ok(q, cdf, u, j)
        if bad or len(gl) != len(ul):
            ctx.spec_fail("random_draw_jit", bad or "wrong number of draws",
                          {"op": "random.draw (compiled)", "cdf": [x.hex() for x in cdf], "size": size, "seed": seed,
                           "uniforms": [u.hex() for u in ul], "code": gl})
        cases.append(Case("C10 draw sc=float cdf=%s u=%s" % (fxs(cdf), fxs(ul)), ints(gl), tag="draw-jit:float"))

    # empty probability vector: Q[-1] does not exist
    try:
        qe.DiscreteRV([]).draw(k=1, random_state=Planted(uniforms=[np.array([0.5])]))
        out = "no-error"
    except IndexError:
        out = "ERR:IndexError"
    cases.append(Case("C10 drv sc=float q=- u=%s" % fxs([0.5]), out, nontrivial=False, tag="drv:float"))

    # ---- the search routines themselves, on arbitrary (also unsorted / non-finite) arrays ------------
    specials = [0.0, -0.0, 1.0, U_MAX, float("inf"), -float("inf"), float("nan"), 0.5, 0.25]
    for _ in range(ctx.n(1500, 15000)):
        ln = rng.randint(0, 9)
        kind = rng.randrange(4)
        if kind == 0:
            a = sorted(rng.choice([0.0, 0.125, 0.25, 0.5, 0.75, 1.0]) for _ in range(ln))
            ctx.count("ss:sorted-with-ties")
        elif kind == 1:
            a = sorted(rng.random() for _ in range(ln))
            ctx.count("ss:sorted")
        elif kind == 2:
            a = [rng.choice([0.0, 0.25, 0.5, 1.0]) for _ in range(ln)]
            ctx.count("ss:unsorted")
        else:
            a = [rng.choice(specials) for _ in range(ln)]
            ctx.count("ss:non-finite")
        v = rng.choice(a) if a and rng.random() < 0.5 else rng.choice(specials + [rng.random()])
        arr = np.array(a, dtype=float)
        i1 = int(searchsorted(arr, v))
        if searchsorted_cdf is None:
            ctx.count("ss:no-searchsorted_cdf-in-tree")
            cases.append(Case("C10 ss sc=float a=%s v=%s" % (fxs(a), fx(v)), str(i1), nontrivial=ln >= 2, tag="ss"))
            continue
        i2 = int(searchsorted_cdf(arr, v))
        finite_sorted = kind in (0, 1) and not (math.isnan(v))
        if finite_sorted:
            ref = sum(1 for x in a if x <= v)             # definition: number of entries <= v
            if i1 != ref:
                ctx.spec_fail("searchsorted", "searchsorted(%r,%r)=%d, entries <= v: %d" % (a, v, i1, ref),
                              {"op": "searchsorted", "a": [x.hex() for x in a], "v": float(v).hex(), "code": i1})
            if a and not (0 <= i2 < ln and (i2 == ref or (ref == ln and a[i2] == a[-1] and (i2 == 0 or a[i2 - 1] != a[i2])))):
                ctx.spec_fail("searchsorted_cdf", "searchsorted_cdf(%r,%r)=%d" % (a, v, i2),
                              {"op": "searchsorted_cdf", "a": [x.hex() for x in a], "v": float(v).hex(), "code": i2})
        elif a and not (0 <= i2 < ln):
            ctx.spec_fail("searchsorted_cdf_range", "searchsorted_cdf(%r,%r)=%d outside the array" % (a, v, i2),
                          {"op": "searchsorted_cdf", "a": [repr(x) for x in a], "v": repr(v), "code": i2})
        cases.append(Case("C10 ss sc=float a=%s v=%s" % (fxs(a), fx(v)), str(i1), nontrivial=ln >= 2, tag="ss"))
        cases.append(Case("C10 sscdf sc=float a=%s v=%s" % (fxs(a), fx(v)), str(i2), nontrivial=ln >= 2, tag="sscdf"))
        if kind != 3:
            cs = np.cumsum(arr)
            cases.append(Case("C10 cumsum sc=float a=%s" % fxs(a), fxs(cs), nontrivial=ln >= 2, tag="cumsum"))

    # ---- malformed requests must be refused by the driver ---------------------------------------------
    for bad in ["C10 dense sc=float P=x3ff0000000000000 init=s:0 reps=none drawn=- via=indices u=-",   # no ts
                "C10 ss sc=float a=zz v=x0000000000000000", "C10 nosuchop sc=float", "C10 ss a=- v=1",
                "C10 dense2 sc=float P=x3ff0000000000000 sv2=1 init2=q:1 reps=none drawn=- ts=1 u=-",      # unknown init form
                "C10 dense2 sc=float P=x3ff0000000000000 init2=r:1 reps=none drawn=- ts=1 u=-"]:            # no sv2
        cases.append(Case(bad, "bad-op", nontrivial=False, cmp=lambda mo, impl: None if mo == "bad-op" else "accepted",
                          tag="malformed"))

    ctx.extra["trace_fidelity"] = ("every dense/sparse/drv case compares the cumulative sums computed by the model's "
                                   "Float instance with the code's cdfs / cdfs1d / Q bit for bit (part of the exact "
                                   "string comparison), so a mismatch count of 0 means 100% trace fidelity")
    outs = ctx.driver([c.line for c in cases if c.tag == "malformed"])
    for o in outs:
        if o != "bad-op":
            ctx.mismatches.append({"request": "malformed", "model": o, "code": "bad-op", "why": "driver accepted a malformed request"})
    ctx.run_cases([c for c in cases if c.tag != "malformed"])


# ----------------------------------------------------------------------------
# ./check C10 --replay <file>: re-run a recorded failing input on the real code


def replay(data):
    """prints what the real code does now on the recorded input; exit 1 if the oracle still objects"""
    from quantecon.markov.core import MarkovChain
    r = data.get("replay", data)
    op = r.get("op")
    print("replaying %s: %s" % (op, data.get("what", "")))
    if op == "simulate":
        n = r["n"]
        rows = [(c, [float.fromhex(x) for x in p]) for c, p in r["P_rows"]]
        if r["sparse"]:
            data_, ind, ptr = [], [], [0]
            for c, p in rows:
                data_ += p
                ind += c
                ptr.append(len(data_))
            P = sparse.csr_matrix((np.array(data_), np.array(ind, dtype=np.int32), np.array(ptr, dtype=np.int32)), shape=(n, n))
        else:
            P = np.array([p for _, p in rows])
        mc = MarkovChain(P, state_values=r.get("state_values"))
        iw = r["init"]
        init = None if iw == "none" else (int(iw[2:]) if iw.startswith("s:") else [int(t) for t in iw[2:].split(",") if t not in ("", "-")])
        U = np.array([[float.fromhex(x) for x in row] for row in r["uniforms"]], dtype=float)
        ts = r["ts_length"]
        U = U.reshape(len(r["uniforms"]), max(ts - 1, 0))
        rs = Planted(uniforms=[U], integers=[np.array(r.get("drawn", []), dtype=np.int64)] if init is None else [])
        f = mc.simulate if r["via"] == "simulate" else mc.simulate_indices
        try:
            with interpreted_kernels():
                out = canon_X(f(ts, init=init, num_reps=r["num_reps"], random_state=rs))
        except (ValueError, IndexError) as e:
            out = "ERR:" + type(e).__name__
        print("recorded: %s\nnow     : %s" % (r.get("code"), out))
        return 0 if out != r.get("code") else 1
    print(json.dumps(r, indent=1)[:4000])
    return 0
