"""C06 — discrete Lyapunov and Riccati solvers: correspondence + spec run.

Correspondence (model = lean/QEModel/C06.lean, run at Rat and at Float):
  * lyap / lyapf : the doubling loop of solve_discrete_lyapunov with its stopping rule; the number of
    iterations the code made is observed through the public `max_it` argument (smallest max_it that does
    not raise) and compared exactly unless the stopping test was marginal; X inside an envelope.
  * gammasel     : the choice of gamma on the condition numbers the code itself computed (np.linalg.cond
    is wrapped, not replaced), compared exactly (bits of the chosen gamma / ValueError).
  * riccinit / ricc / riccf : initial triple, structured doubling with stopping rule; pass count observed by
    counting the code's calls of `solve`; X inside an envelope.
Spec run (exact Fractions on the code's X, independent of the model): residual of the equation, symmetry,
PSD (LDL^T), closed-loop Schur stability (Faddeev-LeVerrier + Schur-Cohn recursion), agreement of methods.
"""
import math
from fractions import Fraction as F
from unittest import mock

import numpy as np

from .common import Case, fx, fxs, fxm, parse_rat, parse_rats, parse_ratm, unfx

FILES = ["quantecon/_matrix_eqn.py"]

EPS = float(np.finfo(float).eps)
CANDIDATES = (0.01, 0.1, 0.25, 0.5, 1.0, 2.0, 10.0, 100.0, 10e5)
LYAP_TOL = 1e-15
ENV = 1e-8          # "up to rounding": 1e-8 * scale
ENV_AGREE = 1e-7    # agreement of two different algorithms

# ----------------------------------------------------------------------------------------------
# exact linear algebra on lists of Fractions


def fm(a):
    a = np.atleast_2d(np.asarray(a, dtype=float))
    return [[F(float(x)) for x in row] for row in a]


def eye(n):
    return [[F(int(i == j)) for j in range(n)] for i in range(n)]


def mm(A, B):
    Bt = list(zip(*B))
    return [[sum((a * b for a, b in zip(r, c)), F(0)) for c in Bt] for r in A]


def tr(A):
    return [list(r) for r in zip(*A)]


def madd(A, B):
    return [[a + b for a, b in zip(r, s)] for r, s in zip(A, B)]


def msub(A, B):
    return [[a - b for a, b in zip(r, s)] for r, s in zip(A, B)]


def scal(c, A):
    return [[c * a for a in r] for r in A]


def maxabs(A):
    return max((abs(x) for r in A for x in r), default=F(0))


def ninf(A):
    return max((sum(abs(x) for x in r) for r in A), default=F(0))


def solve_exact(A, B):
    """X with A X = B, or None when A is singular"""
    n = len(A)
    T = [list(r) + list(b) for r, b in zip(A, B)]
    for k in range(n):
        p = next((i for i in range(k, n) if T[i][k] != 0), None)
        if p is None:
            return None
        T[k], T[p] = T[p], T[k]
        pv = T[k][k]
        T[k] = [x / pv for x in T[k]]
        for i in range(n):
            if i != k and T[i][k] != 0:
                f = T[i][k]
                T[i] = [x - f * y for x, y in zip(T[i], T[k])]
    return [r[n:] for r in T]


def rank(A):
    T = [list(r) for r in A]
    rk, rows, cols = 0, len(T), len(T[0]) if T else 0
    for c in range(cols):
        p = next((i for i in range(rk, rows) if T[i][c] != 0), None)
        if p is None:
            continue
        T[rk], T[p] = T[p], T[rk]
        for i in range(rk + 1, rows):
            if T[i][c] != 0:
                f = T[i][c] / T[rk][c]
                T[i] = [x - f * y for x, y in zip(T[i], T[rk])]
        rk += 1
    return rk


def charpoly(A):
    """coefficients c[0..n] of det(zI - A) = sum c[k] z^k (Faddeev-LeVerrier, exact)"""
    n = len(A)
    c = [F(0)] * (n + 1)
    c[n] = F(1)
    Mk = [[F(0)] * n for _ in range(n)]
    for k in range(1, n + 1):
        Mk = madd(mm(A, Mk), scal(c[n - k + 1], eye(n)))
        AM = mm(A, Mk)
        c[n - k] = -sum(AM[i][i] for i in range(n)) / k
    return c


def schur_stable_poly(c):
    """all roots of sum c[k] z^k strictly inside the unit disk (Schur-Cohn recursion, exact)"""
    c = list(c)
    while len(c) > 1:
        a0, an = c[0], c[-1]
        if an == 0:
            return False
        if not abs(a0) < abs(an):
            return False
        rev = c[::-1]
        d = [an * x - a0 * y for x, y in zip(c, rev)]   # constant term vanishes
        c = d[1:]
    return True


def schur_stable(A):
    return schur_stable_poly(charpoly(A))


def is_pd(S):
    """symmetric S positive definite: all LDL^T pivots > 0 (exact)"""
    n = len(S)
    T = [list(r) for r in S]
    for k in range(n):
        if T[k][k] <= 0:
            return False
        for i in range(k + 1, n):
            f = T[i][k] / T[k][k]
            if f != 0:
                T[i] = [x - f * y for x, y in zip(T[i], T[k])]
    return True


def is_psd(S):
    """symmetric S positive semidefinite (exact): symmetric elimination, a zero pivot needs a zero row"""
    n = len(S)
    if any(S[i][j] != S[j][i] for i in range(n) for j in range(n)):
        return False
    T = [list(r) for r in S]
    for k in range(n):
        if T[k][k] < 0:
            return False
        if T[k][k] == 0:
            if any(T[k][j] != 0 for j in range(k, n)):
                return False
            continue
        for i in range(k + 1, n):
            f = T[i][k] / T[k][k]
            if f != 0:
                T[i] = [x - f * y for x, y in zip(T[i], T[k])]
    return True


def controllable(A, B):
    n = len(A)
    blocks, cur = [], B
    for _ in range(n):
        blocks.append(cur)
        cur = mm(A, cur)
    K = [sum((blk[i] for blk in blocks), []) for i in range(n)]
    return rank(K) == n


def to_np(A):
    return np.array([[float(x) for x in r] for r in A], dtype=float)


def is_float_exact(A):
    return all(F(float(x)) == x for r in A for x in r)


def finite(X):
    return bool(np.all(np.isfinite(X)))


# ----------------------------------------------------------------------------------------------
# generators (all data dyadic with few bits, so the doubles handed to the code are the exact rationals)


def unimodular(rng, n, steps=None):
    """integer matrix with determinant +-1 and its inverse"""
    T, Ti = eye(n), eye(n)
    for _ in range(steps if steps is not None else rng.randint(0, 2 * n)):
        i, j = rng.randrange(n), rng.randrange(n)
        if i == j:
            continue
        c = F(rng.choice([-1, 1]))
        # T <- E T with E = I + c e_i e_j' ; Ti <- Ti E^{-1}
        T[i] = [x + c * y for x, y in zip(T[i], T[j])]
        for r in Ti:
            r[j] = r[j] - c * r[i]
    return T, Ti


def dy(rng, lo, hi, den):
    return F(rng.randint(lo, hi), den)


def gen_stable(rng, n, rho_den=16, rho_max=14):
    """Schur-stable dyadic A = T D T^{-1}: D block upper triangular with 1x1 blocks |d|<1 and
    2x2 rotation-like blocks [[a,-b],[b,a]], a^2+b^2<1; T unimodular"""
    D = [[F(0)] * n for _ in range(n)]
    i = 0
    while i < n:
        if i + 1 < n and rng.random() < 0.4:
            while True:
                a, b = dy(rng, -rho_max, rho_max, rho_den), dy(rng, -rho_max, rho_max, rho_den)
                if a * a + b * b < F(rho_max, rho_den) ** 2 and b != 0:
                    break
            D[i][i], D[i][i + 1], D[i + 1][i], D[i + 1][i + 1] = a, -b, b, a
            i += 2
        else:
            D[i][i] = dy(rng, -rho_max, rho_max, rho_den)
            i += 1
    for r in range(n):
        for c in range(r + 1, n):
            if D[r][c] == 0 and rng.random() < 0.5:
                D[r][c] = dy(rng, -4, 4, 4)
    T, Ti = unimodular(rng, n)
    return mm(mm(T, D), Ti)


def gen_random_stable(rng, n):
    """random dyadic matrix, certified Schur stable by the exact test (rejection)"""
    for _ in range(200):
        A = [[dy(rng, -8, 8, 8 * max(1, n // 2)) for _ in range(n)] for _ in range(n)]
        if schur_stable(A):
            return A
    return gen_stable(rng, n)


def gen_rowcontraction(rng, n):
    """dyadic A with ||A||inf < 1: every absolute row sum at most cap < 1"""
    den = rng.choice([8, 16, 32])
    cap = rng.choice([den - 1, den - 1, den // 2, den // 4])
    A = []
    for _ in range(n):
        budget = rng.randint(max(1, cap // 2), cap)
        cuts = sorted(rng.randint(0, budget) for _ in range(n - 1))
        parts = [b - a for a, b in zip([0] + cuts, cuts + [budget])]
        A.append([F(rng.choice([-1, 1]) * v, den) for v in parts])
    return A


def gen_sym_psd(rng, n, rk=None, den=2):
    rk = n if rk is None else rk
    C = [[dy(rng, -3, 3, den) for _ in range(n)] for _ in range(rk)]
    return mm(tr(C), C) if rk > 0 else [[F(0)] * n for _ in range(n)], C


def gen_pd(rng, n):
    """R = L D L' with unit lower triangular dyadic L and positive dyadic D; also R^{-1} (dyadic)"""
    L = eye(n)
    for i in range(n):
        for j in range(i):
            L[i][j] = dy(rng, -2, 2, 2)
    D = [[F(0)] * n for _ in range(n)]
    for i in range(n):
        D[i][i] = rng.choice([F(1, 2), F(1), F(2), F(4), F(1, 4)])
    R = mm(mm(L, D), tr(L))
    if rng.random() < 0.4:
        R = scal(F(2) ** rng.randint(-4, 6), R)
    return R, solve_exact(R, eye(n))


# ----------------------------------------------------------------------------------------------
# the real code, observed


def call_lyap(me, A, B, **kw):
    try:
        X = me.solve_discrete_lyapunov(A, B, **kw)
        return "ok", np.atleast_2d(np.asarray(X, dtype=float))
    except ValueError as e:
        return "ERR:ValueError", str(e)


def lyap_its(me, A, B, max_it):
    """final n_its of the doubling loop, observed through max_it: the call raises iff n_its > max_it"""
    lo, hi = 1, max_it          # invariant: raises at lo-1 (or lo == 1), does not raise at hi
    while lo < hi:
        mid = (lo + hi) // 2
        st, _ = call_lyap(me, A, B, max_it=mid)
        if st == "ok":
            hi = mid
        else:
            lo = mid + 1
    return lo


class Rec:
    def __init__(self):
        self.cond, self.solve = [], []


def call_ricc(me, A, B, Q, R, N, record=True, **kw):
    rec = Rec()
    real_solve, real_cond = np.linalg.solve, np.linalg.cond

    def s(a, b):
        rec.solve.append((np.array(a, dtype=float, copy=True), np.array(b, dtype=float, copy=True)))
        return real_solve(a, b)

    def c(x, p=None):
        v = real_cond(x, p)
        rec.cond.append((p, float(v)))
        return v

    def go():
        try:
            X = me.solve_discrete_riccati(A, B, Q, R, N, **kw)
            return "ok", np.atleast_2d(np.asarray(X, dtype=float))
        except ValueError as e:
            return "ERR:ValueError", str(e)
        except np.linalg.LinAlgError as e:
            return "ERR:LinAlgError", str(e)
        except UnboundLocalError as e:
            return "ERR:UnboundLocalError", str(e)
    if not record:
        return go(), rec
    with mock.patch.object(me, "solve", s), mock.patch.object(np.linalg, "cond", c):
        out = go()
    return out, rec


def parse_cond(rec):
    """per candidate (cn, f1, f3, accepted) from the recorded cond calls"""
    out, i, seq = [], 0, rec.cond
    for _g in CANDIDATES:
        if i >= len(seq):
            return None
        cn = seq[i][1]
        i += 1
        if i < len(seq) and seq[i][0] is not None:      # cond(Z, inf): the candidate was admitted
            f1, f3 = seq[i][1], seq[i + 1][1]
            i += 2
            out.append((cn, f1, f3, True))
        else:
            out.append((cn, 0.0, 0.0, False))
    return out if i == len(seq) else None


# ----------------------------------------------------------------------------------------------
# spec oracles (exact, on the code's output)


def lyap_spec(ctx, key, A, B, X, replay, env=ENV):
    """A X A' - X + B = 0 up to rounding, for stable A"""
    if not finite(X):
        ctx.spec_fail(key, "non-finite X for a Schur-stable A", replay)
        return
    Xf = fm(X)
    res = madd(msub(mm(mm(A, Xf), tr(A)), Xf), B)
    scale = max(F(1), maxabs(Xf), maxabs(B)) * (1 + ninf(A)) ** 2
    r = maxabs(res)
    ctx.extra["lyap_max_rel_residual"] = max(ctx.extra.get("lyap_max_rel_residual", 0.0), float(r / scale))
    if r > F(env) * scale:
        ctx.spec_fail(key, "Lyapunov residual %.3e > %.1e*scale(%.3e)" % (float(r), env, float(scale)), replay)


def ricc_quantities(A, B, Q, R, N, Xf):
    S = madd(R, mm(mm(tr(B), Xf), B))
    Mx = madd(N, mm(mm(tr(B), Xf), A))
    Fm = solve_exact(S, Mx)
    if Fm is None:
        return None
    rhs = madd(msub(mm(mm(tr(A), Xf), A), mm(tr(Mx), Fm)), Q)
    return msub(Xf, rhs), msub(A, mm(B, Fm))


def ricc_spec(ctx, key, A, B, Q, R, N, X, replay, env=ENV):
    """symmetric PSD X solving the Riccati equation up to rounding, stabilising"""
    if not finite(X):
        ctx.spec_fail(key, "non-finite X", replay)
        return
    Xf = fm(X)
    sx = max(F(1), maxabs(Xf))
    asym = maxabs(msub(Xf, tr(Xf)))
    if asym > F(env) * sx:
        ctx.spec_fail(key, "X not symmetric: max|X-X'|=%.3e" % float(asym), replay)
    q = ricc_quantities(A, B, Q, R, N, Xf)
    if q is None:
        ctx.spec_fail(key, "R + B'XB singular at the returned X", replay)
        return
    res, Acl = q
    scale = sx * (1 + ninf(A)) ** 2
    r = maxabs(res)
    ctx.extra["ricc_max_rel_residual"] = max(ctx.extra.get("ricc_max_rel_residual", 0.0), float(r / scale))
    if r > F(env) * scale:
        ctx.spec_fail(key, "Riccati residual %.3e > %.1e*scale(%.3e)" % (float(r), env, float(scale)), replay)
    Xs = scal(F(1, 2), madd(Xf, tr(Xf)))
    if not is_pd(madd(Xs, scal(F(env) * sx, eye(len(Xs))))):
        ctx.spec_fail(key, "X not positive semidefinite (LDL' of X + 1e-8*scale*I has a non-positive pivot)", replay)
    if not schur_stable(Acl):
        ctx.spec_fail(key, "closed loop A - B F not Schur stable (exact Schur-Cohn test on its characteristic "
                           "polynomial)", replay)


def ref_riccati(A, B, Q, R, N, iters=4000):
    """independent reference for the *domain restriction* only (plain value iteration in doubles):
    returns (X, closed-loop spectral radius) or None when it does not settle"""
    X = np.zeros_like(Q)
    for it in range(iters):
        S = R + B.T @ X @ B
        M = N + B.T @ X @ A
        try:
            Fm = np.linalg.solve(S, M)
        except np.linalg.LinAlgError:
            return None
        Xn = A.T @ X @ A - M.T @ Fm + Q
        Xn = (Xn + Xn.T) / 2
        if not np.all(np.isfinite(Xn)) or np.max(np.abs(Xn)) > 1e9:
            return None
        if np.max(np.abs(Xn - X)) <= 1e-13 * max(1.0, np.max(np.abs(Xn))):
            X = Xn
            break
        X = Xn
    else:
        return None
    Fm = np.linalg.solve(R + B.T @ X @ B, N + B.T @ X @ A)
    rho = float(np.max(np.abs(np.linalg.eigvals(A - B @ Fm))))
    return X, rho


# ----------------------------------------------------------------------------------------------
# argument forms and aliasing (spec run only: the forms are legal inputs, the result must not depend on them)

FORMS = ("C", "F", "T-view", "strided", "reversed", "readonly", "list", "f32", "int")
ENV32 = 1e-4        # envelope when an input is float32 (the code then computes partly in float32)


def as_form(a, form):
    """the C-contiguous float64 2-D array `a` in another legal form; None when the form cannot hold the values"""
    a = np.array(a, dtype=float, order="C")
    if form == "C":
        return a
    if form == "F":
        return np.asfortranarray(a)
    if form == "T-view":                      # N = S.T : Fortran-contiguous view of somebody else's memory
        return np.ascontiguousarray(a.T).T
    if form == "strided":
        big = np.full((2 * a.shape[0] + 1, 3 * a.shape[1] + 2), 7.5)
        v = big[1::2, 2::3]
        v[...] = a
        return v
    if form == "reversed":
        return np.array(a[::-1, ::-1])[::-1, ::-1]
    if form == "readonly":
        b = np.asfortranarray(a) if a.shape[0] > 1 else a.copy()
        b.flags.writeable = False
        return b
    if form == "list":
        return a.tolist()
    if form == "f32":
        b = a.astype(np.float32)
        return b if np.array_equal(b.astype(float), a) else None
    if form == "int":
        b = a.astype(np.int64)
        return b if np.array_equal(b.astype(float), a) else None
    raise ValueError(form)


def root_of(x):
    while isinstance(getattr(x, "base", None), np.ndarray):
        x = x.base
    return x


def snapshot(obj):
    """bit-exact image of an argument (for views: of the whole underlying buffer as well)"""
    if isinstance(obj, np.ndarray):
        r = root_of(obj)
        return ("nd", obj.dtype.str, obj.shape, obj.strides, np.array(obj).tobytes(), np.array(r).tobytes())
    import copy
    return ("py", copy.deepcopy(obj))


def unchanged(obj, snap):
    if isinstance(obj, np.ndarray):
        r = root_of(obj)
        return snap == ("nd", obj.dtype.str, obj.shape, obj.strides, np.array(obj).tobytes(), np.array(r).tobytes())
    return snap == ("py", obj)


def module_arrays(*mods):
    """every ndarray reachable from module globals (directly or inside dict / list / tuple containers)"""
    out = []

    def walk(name, v, depth):
        if isinstance(v, np.ndarray):
            out.append((name, v))
        elif depth < 3 and isinstance(v, dict):
            for kk, vv in list(v.items()):
                walk("%s[%r]" % (name, kk), vv, depth + 1)
        elif depth < 3 and isinstance(v, (list, tuple)):
            for ii, vv in enumerate(v):
                walk("%s[%d]" % (name, ii), vv, depth + 1)
    for m in mods:
        for nm, v in list(vars(m).items()):
            if not nm.startswith("__"):
                walk("%s.%s" % (m.__name__, nm), v, 0)
    return out


# ----------------------------------------------------------------------------------------------
# comparators


def kvs(s):
    out = {}
    for t in s.split(" "):
        if "=" in t:
            k, v = t.split("=", 1)
            out[k] = v
    return out


def cmp_mat(Xm, Xc, env, what):
    if len(Xm) != len(Xc) or any(len(a) != len(b) for a, b in zip(Xm, Xc)):
        return "%s: shapes differ" % what
    sx = max(F(1), maxabs(Xc))
    d = maxabs(msub(Xm, Xc))
    if d > F(env) * sx:
        return "%s: max|model-code|=%.3e > %.1e*%.3e" % (what, float(d), env, float(sx))
    return None


def least_K(rho, beta, tol):
    """least K with beta/(1-rho^2) * (rho^(2^K))^2 <= tol (theorem lyap_terminates), by repeated squaring"""
    C = beta / (1 - rho * rho)
    x, K = rho, 0          # x = rho^(2^K)
    while C * x * x > tol:
        x, K = x * x, K + 1
        if K > 60:
            return None
    return K


def weighted_domain(A, B, tol):
    """certificate for theorem lyap_terminates_weighted: positive w, rho < 1 with |A| w <= rho w (exact), beta with
    |B_pq| <= beta w_p w_q, and the least K with beta/(1-rho^2) (rho^(2^K))^2 w_p w_q <= tol for all p, q.
    w is a truncated Neumann series sum_j |A|^j 1, rounded up to multiples of 1/64."""
    n = len(A)
    absA = [[abs(x) for x in r] for r in A]
    w = [F(1)] * n
    acc = [F(1)] * n
    for _ in range(60):
        acc = [sum(absA[p][c] * acc[c] for c in range(n)) for p in range(n)]
        w = [a + b for a, b in zip(w, acc)]
        if max(acc) < F(1, 1000):
            break
    else:
        return None
    w = [F(math.ceil(x * 64), 64) for x in w]
    rho = max(sum(absA[p][c] * w[c] for c in range(n)) / w[p] for p in range(n))
    if not rho < 1:
        return None
    beta = max(abs(B[p][q]) / (w[p] * w[q]) for p in range(n) for q in range(n))
    wmax = max(w)
    C = beta / (1 - rho * rho) * wmax * wmax
    x, K = rho, 0
    while C * x * x > tol:
        x, K = x * x, K + 1
        if K > 60:
            return None
    return K, rho


def mk_lyap_cmp(ctx, tag, psd=False, nil_n=0, tcK=None, weighted=False):
    def cmp(mo, impl):
        ki = kvs(impl)
        if tcK is not None and tag == "lyap":
            # instance check of lyap_terminates / lyap_total_correct on the model's exact run:
            # ||A||inf < 1  =>  normal return with n_its <= K + 2;  PSD B  =>  exact residual <= tol
            kmm = kvs(mo)
            ctx.count("lyap:weighted-domain:model-checked" if weighted else "lyap:rownorm<1:model-checked")
            if not mo.startswith("ok") or int(kmm["its"]) > tcK + 2:
                return "row-sum domain (weighted=%s) but the model did not return within K+2=%d counted iterations" % (
                    weighted, tcK + 2)
            if psd and not weighted:      # residual <= tol is proved only for ||A||inf <= 1
                ctx.count("lyap:total-correct:psd-instances")
                if parse_rat(kmm["res"]) > F(LYAP_TOL):
                    return "||A||inf < 1, PSD B: exact residual of the model's X exceeds tol" 
        if nil_n and tag == "lyap":
            # instance check of lyap_nilpotent_stops / lyap_nilpotent_exact on the model's exact run and on the
            # code's count: A^(2^k) = 0 with 2^k >= n, so n_its <= k + 2 and the exact residual is 0
            k = max(0, (nil_n - 1).bit_length())
            kmm = kvs(mo)
            ctx.count("lyap:nilpotent:exact-return")
            if not mo.startswith("ok") or int(kmm["its"]) > k + 2 or int(ki.get("its", 99)) > k + 2:
                return "nilpotent A (n=%d): more than k+2=%d counted iterations" % (nil_n, k + 2)
            if parse_rat(kmm["res"]) != 0 and int(kmm["its"]) - 1 >= k:
                return "nilpotent A: exact residual of the model's X is not 0" 
        if psd and tag == "lyap" and mo.startswith("ok"):
            # instance check of theorem lyap_psd_return_spec on the model's exact run: for PSD B the exact
            # residual of the returned X is at most tol * (max abs row sum of A)^2 in every entry
            kmm = kvs(mo)
            res, rs = parse_rat(kmm["res"]), parse_rat(kmm["rowsum"])
            ctx.count("lyap:psd-B:exact-return")
            if res <= F(LYAP_TOL):
                ctx.count("lyap:psd-B:exact-residual<=tol")
            if res > F(LYAP_TOL) * max(F(1), rs * rs):
                return "exact residual %.3e of the model's X exceeds tol*rowsum^2 for PSD B" % float(res)
        head_m, head_i = mo.split(" ")[0], impl.split(" ")[0]
        km = kvs(mo)
        diffs = parse_rats(km.get("diffs", "-"))
        if head_i == "ok":
            Xc = parse_ratm(ki["X"])
            sx = max(F(1), maxabs(Xc))
        else:
            sx = F(1)
        band = F(55, 100) * F(EPS) * sx     # |fl(g0+t)-g0 - t| <= ulp(g1)/2 <= eps/2*|g1|
        marginal = any(abs(d - F(LYAP_TOL)) <= band + d / 10 ** 9 for d in diffs)
        if marginal:
            ctx.count(tag + ":stopping-test-marginal")
        if head_m != head_i:
            if marginal:
                return None
            return "status differs"
        if int(km["its"]) != int(ki["its"]):
            if marginal and abs(int(km["its"]) - int(ki["its"])) <= 1:
                return None
            return "iteration count differs: model %s code %s" % (km["its"], ki["its"])
        ctx.count(tag + ":its-equal")
        if head_i == "ok":
            Xm = parse_ratm(km["X"])
            why = cmp_mat(Xm, Xc, ENV, "X")
            if why:
                return why
            if km["X"] == ki["X"]:
                ctx.count(tag + ":bit-equal")
        return None
    return cmp


def mk_ricc_cmp(ctx, tag, tol):
    def cmp(mo, impl):
        head_m, head_i = mo.split(" ")[0], impl.split(" ")[0]
        km, ki = kvs(mo), kvs(impl)
        errs = parse_rats(km.get("errs", "-"))
        if head_i == "ok":
            Xc = parse_ratm(ki["X"])
            sx = max(F(1), maxabs(Xc))
        else:
            sx = F(1)
        band = F(tol) / 100 + F(10) ** -12 * sx
        marginal = any(abs(e - F(tol)) <= band for e in errs)
        if marginal:
            ctx.count(tag + ":stopping-test-marginal")
        if head_m != head_i:
            return None if marginal else "status differs"
        if head_i == "ok":
            if int(km["passes"]) != int(ki["passes"]):
                if marginal and abs(int(km["passes"]) - int(ki["passes"])) <= 1:
                    return None
                return "pass count differs: model %s code %s" % (km["passes"], ki["passes"])
            ctx.count(tag + ":passes-equal")
            why = cmp_mat(parse_ratm(km["X"]), Xc, ENV, "X")
            if why:
                return why
            if km["X"] == ki["X"]:
                ctx.count(tag + ":bit-equal")
        elif head_i == "ERR:ValueError":
            if km.get("i") != ki.get("i"):
                return "reported iteration differs: model %s code %s" % (km.get("i"), ki.get("i"))
        return None
    return cmp


def cmp_init(mo, impl):
    if mo.startswith("ERR") or impl.startswith("ERR"):
        return None if mo.split(" ")[0] == impl.split(" ")[0] else "status differs"
    km, ki = kvs(mo), kvs(impl)
    A0, G0, H0 = parse_ratm(km["A"]), parse_ratm(km["G"]), parse_ratm(km["H"])
    k = len(A0)
    W1 = madd(eye(k), mm(G0, H0))
    W2 = madd(eye(k), mm(H0, G0))
    for nm, mod in (("A0", A0), ("W1", W1), ("W2", W2), ("HA", mm(H0, A0))):
        why = cmp_mat(mod, parse_ratm(ki[nm]), ENV, nm)
        if why:
            return why
    return None


# ----------------------------------------------------------------------------------------------


def ratm_line(A):
    return ";".join(",".join(("%d/%d" % (x.numerator, x.denominator)) if x.denominator != 1 else str(x.numerator)
                             for x in r) for r in A)


def run(ctx):
    from quantecon import _matrix_eqn as me
    from quantecon import _quadsums as qs

    rng = ctx.rng
    cases = []
    ctx.rule = ("Lyapunov: n<=4; A Schur stable by construction (T D T^-1, T unimodular, D block triangular with "
                "dyadic eigen-blocks) or random dyadic certified by the exact Schur-Cohn test; B symmetric PSD, general, "
                "zero; A with max abs row sum < 1 (domain of the total-correctness theorem: model and code must return within K+2 counted iterations, K the least with C*(rho^(2^K))^2<=tol); scalars; nilpotent A; |eig|=1 (permutation/identity) for the max_it exit. Riccati: k<=5, n<=4; R=LDL' "
                "PD dyadic; N zero or dyadic; Q = C'C + N'R^-1N with rank(C)<=k (singular Q); A stable / unstable and "
                "(A-BR^-1N,B) controllable / block-stabilisable with a uncontrollable stable block; detectability certified "
                "exactly (observability rank test or stable A-BR^-1N); domain restricted to reference closed-loop radius "
                "<=0.97 by an independent value iteration. A case is non-trivial when n>=2 or k>=2 and the loop makes >=2 passes.")
    ctx.assumptions += [
        "np.linalg.solve is modelled by exact Gauss-Jordan (MatAlg.solve); np.linalg.cond is a parameter: the model's "
        "gamma rule runs on the condition numbers recorded from the code's own calls",
        "scipy paths (qz, bartels-stewart) are not modelled; they are judged by the exact spec oracle only",
        "real-valued outputs compared inside 1e-8*max(1,|X|); iteration counts exactly unless an exact diff/error lies "
        "within rounding distance of the tolerance (counted as stopping-test-marginal)",
    ]

    # ============================ Lyapunov ========================================================
    def lyap_case(A, B, max_it, kind, spec=True, scalar=False):
        n = len(A)
        psd = is_psd(B)
        if psd:
            ctx.count("lyap:B-is-PSD")
        An, Bn = to_np(A), to_np(B)
        if scalar:
            Aa, Ba = float(A[0][0]), float(B[0][0])
        else:
            Aa, Ba = An, Bn
        ctx.count("lyap:kind:" + kind)
        ctx.count("lyap:n=%d" % n)
        replay = {"fn": "solve_discrete_lyapunov", "A": An.tolist(), "B": Bn.tolist(), "max_it": max_it,
                  "method": "doubling"}
        rho = ninf(A)
        tcK = None
        if rho < 1:
            ctx.count("lyap:rownorm<1")
            tcK = least_K(rho, maxabs(B), F(LYAP_TOL))
            if tcK is not None and tcK + 2 > max_it:
                tcK = None      # the theorem needs max_it >= K + 2
            if tcK is not None:
                ctx.count("lyap:rownorm<1:K=%02d" % tcK)
        wK = None
        if not rho < 1 and spec and max_it == 50:
            wd = weighted_domain(A, B, F(LYAP_TOL))
            if wd is not None and wd[0] + 2 <= max_it:
                wK = wd[0]
                ctx.count("lyap:weighted-domain")
            else:
                ctx.count("lyap:outside-rowsum-domains")
        st, X = call_lyap(me, Aa, Ba, max_it=max_it)
        if st == "ok":
            its = lyap_its(me, Aa, Ba, max_it)
            impl = "ok its=%d X=%s" % (its, fxm(X.tolist()))
            ctx.count("lyap:its=%02d" % its)
            if wK is not None:
                if its <= wK + 2:
                    ctx.count("lyap:weighted-domain:code-within-K+2")
                elif its > wK + 3:
                    ctx.spec_fail("lyap_termination_bound_weighted", "|A|w<=rho w, rho<1: code made n_its=%d > K+3=%d"
                                  % (its, wK + 3), replay)
            if tcK is not None:
                # the code (doubles): the exact-arithmetic bound, +1 for a rounding-marginal stopping test
                if its <= tcK + 2:
                    ctx.count("lyap:rownorm<1:code-within-K+2")
                    if its == tcK + 2:
                        ctx.count("lyap:rownorm<1:bound-attained")
                elif its > tcK + 3:
                    ctx.spec_fail("lyap_termination_bound", "||A||inf=%s<1: code made n_its=%d > K+3=%d" % (
                        rho, its, tcK + 3), replay)
            if spec:
                lyap_spec(ctx, "lyap_doubling", A, B, X, replay)
        else:
            m = [int(t) for t in X.replace(",", " ").split() if t.isdigit()]
            impl = "ERR:ValueError its=%d" % (m[0] if m else -1)
            ctx.count("lyap:ValueError")
            if tcK is not None:
                ctx.spec_fail("lyap_termination_bound", "||A||inf=%s<1, max_it=%d >= K+2=%d but the code raised" % (
                    rho, max_it, tcK + 2), replay)
            if spec:
                ctx.spec_fail("lyap_doubling_raise", "ValueError for a Schur-stable A within max_it=%d" % max_it, replay)
        nt = n >= 2 and st == "ok" and its >= 3
        tolr = "x%016x" % int.from_bytes(np.float64(LYAP_TOL).tobytes(), "little")
        cases.append(Case("C06 lyap A=%s B=%s tol=%s maxit=%d" % (ratm_line(A), ratm_line(B), tolr, max_it), impl,
                          nontrivial=nt, cmp=mk_lyap_cmp(ctx, "lyap", psd=psd, nil_n=(n if kind == "nilpotent" else 0), tcK=(tcK if tcK is not None else wK), weighted=(tcK is None and wK is not None)), tag="lyap"))
        cases.append(Case("C06 lyapf A=%s B=%s tol=%s maxit=%d" % (fxm(An.tolist()), fxm(Bn.tolist()), tolr, max_it), impl,
                          nontrivial=nt, cmp=mk_lyap_cmp(ctx, "lyapf"), tag="lyapf"))
        if st == "ok" and spec:
            # bartels-stewart: spec only, plus agreement
            try:
                Xb = np.atleast_2d(me.solve_discrete_lyapunov(An, Bn, method="bartels-stewart"))
                rb = dict(replay, method="bartels-stewart")
                lyap_spec(ctx, "lyap_bartels_stewart", A, B, Xb, rb)
                ctx.count("lyap:bartels-stewart")
                if finite(X) and finite(Xb):
                    d = float(np.max(np.abs(X - Xb)))
                    sx = max(1.0, float(np.max(np.abs(X)))) * float((1 + ninf(A)) ** 2)
                    if d > ENV_AGREE * sx:
                        ctx.spec_fail("lyap_methods_agree", "doubling and bartels-stewart differ by %.3e" % d, replay)
            except Exception as e:  # scipy refusing a valid stable problem is a violation of the property
                ctx.spec_fail("lyap_bartels_stewart_raise", "bartels-stewart raised %s" % type(e).__name__, replay)

    nL = ctx.n(120, 1500)
    for t in range(nL):
        n = 1 + (t % 4)
        kind = rng.choice(["schur", "schur", "random", "schur-slow", "rownorm<1", "rownorm<1"])
        if kind == "rownorm<1":
            A = gen_rowcontraction(rng, n)
        elif kind == "schur":
            A = gen_stable(rng, n)
        elif kind == "schur-slow":
            A = gen_stable(rng, n, rho_den=32, rho_max=31)
        else:
            A = gen_random_stable(rng, n)
        bk = rng.choice(["psd", "psd-singular", "general", "identity"])
        if bk == "psd":
            B = gen_sym_psd(rng, n)[0]
        elif bk == "psd-singular":
            B = gen_sym_psd(rng, n, rk=max(0, n - 1))[0]
        elif bk == "general":
            B = [[dy(rng, -4, 4, 2) for _ in range(n)] for _ in range(n)]
        else:
            B = eye(n)
        ctx.count("lyap:B:" + bk)
        lyap_case(A, B, 50, kind)
    # scalar inputs (python floats through np.atleast_2d)
    for a, b in [(F(1, 2), F(1)), (F(-7, 8), F(3)), (F(0), F(2)), (F(15, 16), F(1, 4))]:
        lyap_case([[a]], [[b]], 50, "scalar", scalar=True)
    # nilpotent A: converges exactly, diff = 0
    for n in (2, 3, 4) * ctx.n(3, 12):
        Nl = [[F(int(j == i + 1)) * dy(rng, 1, 3, 1) for j in range(n)] for i in range(n)]
        T, Ti = unimodular(rng, n, steps=4)
        lyap_case(mm(mm(T, Nl), Ti), gen_sym_psd(rng, n)[0], 50, "nilpotent")
    # the max_it exit: eigenvalues on the unit circle (gamma doubles, no convergence), and small max_it on stable A
    for n in (1, 2, 3, 4):
        perm = list(range(n))
        rng.shuffle(perm)
        P = [[F(rng.choice([-1, 1]) if perm[i] == j else 0) for j in range(n)] for i in range(n)]
        lyap_case(P, gen_sym_psd(rng, n)[0] if n > 1 else [[F(1)]], rng.choice([50, 7, 2, 1]), "unit-circle", spec=False)
    for n in (2, 3):
        A = gen_stable(rng, n, rho_den=32, rho_max=31)
        for mi in (0, 1, 2, 3, 5):
            lyap_case(A, eye(n), mi, "small-max_it", spec=False)

    # m_quadratic_sum / var_quadratic_sum: spec only (they are thin wrappers of the Lyapunov solvers)
    for t in range(ctx.n(6, 60)):
        n = 1 + (t % 4)
        A = gen_stable(rng, n)
        B = gen_sym_psd(rng, n)[0]
        An, Bn = to_np(A), to_np(B)
        try:
            V = np.atleast_2d(qs.m_quadratic_sum(An, Bn))
            lyap_spec(ctx, "m_quadratic_sum", A, B, V, {"fn": "m_quadratic_sum", "A": An.tolist(), "B": Bn.tolist()})
        except ValueError:
            ctx.spec_fail("m_quadratic_sum_raise", "ValueError for stable A", {"A": An.tolist(), "B": Bn.tolist()})
        ctx.count("quadsum:m")
        # var_quadratic_sum: q0 = x0'Qx0 + beta/(1-beta) tr(C'QC), Q = H + beta A'QA (linear, solved exactly)
        beta = F(rng.choice([1, 3, 7, 15]), 16)
        C = [[dy(rng, -2, 2, 2) for _ in range(n)] for _ in range(n)]
        x0 = [dy(rng, -4, 4, 2) for _ in range(n)]
        H = B
        idx = [(i, j) for i in range(n) for j in range(n)]
        Lm = []
        for (i, j) in idx:          # Q_ij - beta * sum_{a,b} A[a][i] Q_ab A[b][j] = H_ij
            row = [F(0)] * (n * n)
            row[i * n + j] += 1
            for a in range(n):
                for b in range(n):
                    row[a * n + b] -= beta * A[a][i] * A[b][j]
            Lm.append(row)
        sol = solve_exact(Lm, [[H[i][j]] for (i, j) in idx])
        if sol is not None:
            Qx = [[sol[i * n + j][0] for j in range(n)] for i in range(n)]
            cq = mm(mm(tr(C), Qx), C)
            want = sum(x0[i] * Qx[i][j] * x0[j] for i in range(n) for j in range(n)) + \
                sum(cq[i][i] for i in range(n)) * beta / (1 - beta)
            got = float(np.squeeze(qs.var_quadratic_sum(An, to_np(C), to_np(H), float(beta), np.array([float(v) for v in x0]))))
            if not math.isfinite(got) or abs(F(got) - want) > F(ENV) * max(F(1), abs(want)) * (1 + ninf(A)) ** 2:
                ctx.spec_fail("var_quadratic_sum", "q0=%r, exact %.17g" % (got, float(want)),
                              {"A": An.tolist(), "C": to_np(C).tolist(), "H": to_np(H).tolist(), "beta": float(beta),
                               "x0": [float(v) for v in x0]})
            ctx.count("quadsum:var")

    # ============================ Riccati =========================================================
    def gen_ricc(kind, k, n):
        """returns dict with exact A,B,Q,R,N (Fractions) or None (rejected)"""
        R, Rinv = gen_pd(rng, n)
        if rng.random() < 0.6:
            N = [[dy(rng, -2, 2, 4) for _ in range(k)] for _ in range(n)]
            if all(x == 0 for r in N for x in r):
                N[0][0] = F(1, 2)
        else:
            N = [[F(0)] * k for _ in range(n)]
        rk = rng.choice([k, k, max(1, k - 1), max(1, k - 2)])
        Qt, C = gen_sym_psd(rng, k, rk=rk, den=2)
        Q = madd(Qt, mm(mm(tr(N), Rinv), N))
        block = False
        if kind == "stable":
            A = gen_stable(rng, k)
            B = [[dy(rng, -2, 2, 2) for _ in range(n)] for _ in range(k)]
        elif kind == "unstable":
            A = [[dy(rng, -6, 6, 4) for _ in range(k)] for _ in range(k)]
            B = [[dy(rng, -2, 2, 2) for _ in range(n)] for _ in range(k)]
            if schur_stable(A):
                A[0][0] += 2
        else:   # "block": unstable controllable part + stable part the input does not reach
            ku = max(1, k // 2)
            ks = k - ku
            Au = [[dy(rng, -6, 6, 4) for _ in range(ku)] for _ in range(ku)]
            Au[0][0] += rng.choice([-2, 2])
            Bu = [[dy(rng, -2, 2, 2) for _ in range(n)] for _ in range(ku)]
            if not controllable(Au, Bu):
                return None
            As = gen_stable(rng, ks) if ks else []
            A12 = [[dy(rng, -2, 2, 2) for _ in range(ks)] for _ in range(ku)]
            A = [Au[i] + A12[i] for i in range(ku)] + [[F(0)] * ku + As[i] for i in range(ks)]
            B = Bu + [[F(0)] * n for _ in range(ks)]
            T, Ti = unimodular(rng, k, steps=3)
            A, B = mm(mm(T, A), Ti), mm(T, B)
            Qt2 = mm(mm(tr(Ti), Qt), Ti)
            C = mm(C, Ti)
            Q = madd(Qt2, mm(mm(tr(N), Rinv), N))
            block = ks > 0
        At = msub(A, mm(mm(B, Rinv), N))
        # exact certificates of the hypotheses of the property
        if not (block or controllable(At, B)):
            return None
        if not (schur_stable(At) or controllable(tr(At), tr(C))):
            return None
        if not all(is_float_exact(M) for M in (A, B, Q, R, N)):
            return None
        return {"A": A, "B": B, "Q": Q, "R": R, "N": N, "block": block, "Nzero": all(x == 0 for r in N for x in r),
                "Qsing": rk < k, "unstable": not schur_stable(A)}

    tol_tok = lambda t: "x%016x" % int.from_bytes(np.float64(t).tobytes(), "little")

    def ricc_case(d, kind, tol=1e-10, max_iter=500, spec=True, scalar=False, rat_model=True):
        A, B, Q, R, N = d["A"], d["B"], d["Q"], d["R"], d["N"]
        k, n = len(A), len(R)
        An, Bn, Qn, Rn, Nn = map(to_np, (A, B, Q, R, N))
        replay = {"fn": "solve_discrete_riccati", "A": An.tolist(), "B": Bn.tolist(), "Q": Qn.tolist(), "R": Rn.tolist(),
                  "N": Nn.tolist(), "tolerance": tol, "max_iter": max_iter, "method": "doubling"}

        def ricc_judge(st, X, args):
            if st != "ok":
                ctx.spec_fail("ricc_doubling_raise", "doubling raised %s on a well-conditioned stabilisable/detectable "
                                                     "problem: %s" % (st, X), replay)
            else:
                ricc_spec(ctx, "ricc_doubling", A, B, Q, R, N, X, replay)
            (stq, Xq), _ = call_ricc(me, *args, record=False, method="qz")
            rq = dict(replay, method="qz")
            if stq != "ok":
                ctx.spec_fail("ricc_qz_raise", "qz raised %s: %s" % (stq, Xq), rq)
            else:
                ctx.count("ricc:qz")
                ricc_spec(ctx, "ricc_qz", A, B, Q, R, N, Xq, rq)
                if st == "ok" and finite(X) and finite(Xq):
                    dd = float(np.max(np.abs(X - Xq)))
                    sx = max(1.0, float(np.max(np.abs(Xq)))) * float((1 + ninf(A)) ** 2)
                    ctx.extra["ricc_max_rel_method_gap"] = max(ctx.extra.get("ricc_max_rel_method_gap", 0.0), dd / sx)
                    if dd > ENV_AGREE * sx:
                        ctx.spec_fail("ricc_methods_agree", "doubling and qz differ by %.3e (scale %.3e)" % (dd, sx), replay)
        if scalar:
            args = (float(An[0, 0]), float(Bn[0, 0]), float(Qn[0, 0]), float(Rn[0, 0]), None if d["Nzero"] else float(Nn[0, 0]))
        else:
            args = (An, Bn, Qn, Rn, None if (d["Nzero"] and rng.random() < 0.5) else Nn)
        # the plain call is what is judged; the recorded call (wrappers around solve/cond) feeds the correspondence
        (st0, X0), _ = call_ricc(me, *args, record=False, tolerance=tol, max_iter=max_iter)
        if spec:
            ricc_judge(st0, X0, args)
        (st, X), rec = call_ricc(me, *args, tolerance=tol, max_iter=max_iter)
        if st != st0 or (st == "ok" and X.tobytes() != X0.tobytes()):
            ctx.mismatches.append({"request": "recorded call", "code": str(st0), "model": str(st), "meta": replay,
                                   "why": "wrapping solve/cond changed the result of solve_discrete_riccati"})
        ctx.count("ricc:kind:" + kind)
        ctx.count("ricc:k=%d,n=%d" % (k, n))
        for nm in ("block", "Nzero", "Qsing", "unstable"):
            if d.get(nm):
                ctx.count("ricc:" + nm)
        # ---- gamma rule on the code's own condition numbers
        pc = parse_cond(rec)
        if pc is None:
            ctx.mismatches.append({"request": "recorded cond calls", "code": str([c[0] for c in rec.cond])[:200], "model": "-",
                                   "meta": replay, "why": "the pattern of np.linalg.cond calls is not the one the model "
                                                          "describes (lines 176-190)"})
            return
        nacc = sum(1 for c in pc if c[3])
        ctx.count("ricc:candidates-admitted=%d" % nacc)
        gamma = None
        if len(rec.solve) > 3 * nacc:
            Rhat = rec.solve[3 * nacc][0]
            BB = Bn.T @ Bn
            match = [g for g in CANDIDATES if np.array_equal(np.atleast_2d(Rn + g * BB), Rhat)]
            if len(match) >= 1:
                gamma = match[0]
            if len(match) != 1:
                ctx.count("ricc:gamma-ambiguous")
        if gamma is not None or st == "ERR:ValueError" and len(rec.solve) == 3 * nacc:
            impl_g = fx(gamma) if gamma is not None else "ERR:ValueError"
            if gamma is not None:
                ctx.count("ricc:gamma=%g" % gamma)
            else:
                ctx.count("ricc:gamma-none")
            cases.append(Case("C06 gammasel g=%s cn=%s f1=%s f3=%s eps=%s" % (
                fxs(CANDIDATES), fxs([c[0] for c in pc]), fxs([c[1] for c in pc]), fxs([c[2] for c in pc]), fx(EPS)),
                impl_g, nontrivial=nacc >= 2, tag="gammasel"))
        if gamma is None:
            if st == "ok":
                ctx.mismatches.append({"request": "recorded solve calls", "code": "%d calls" % len(rec.solve), "model": "-",
                                       "meta": replay, "why": "the pattern of solve calls is not the one the model describes "
                                                              "(3 per admitted candidate, 3 initial, 3 per pass)"})
            return
        passes = (len(rec.solve) - 3 * nacc - 3) // 3
        ctx.count("ricc:passes=%02d" % passes)
        # ---- initial triple
        if len(rec.solve) >= 3 * nacc + 6:
            W1, A0 = rec.solve[3 * nacc + 3]
            W2, _ = rec.solve[3 * nacc + 4]
            _, HA = rec.solve[3 * nacc + 5]
            impl_i = "A0=%s W1=%s W2=%s HA=%s" % (fxm(A0.tolist()), fxm(W1.tolist()), fxm(W2.tolist()), fxm(HA.tolist()))
            cases.append(Case("C06 riccinit g=%s A=%s B=%s Q=%s R=%s N=%s" % (
                fx(gamma), ratm_line(A), ratm_line(B), ratm_line(Q), ratm_line(R), ratm_line(N)), impl_i,
                nontrivial=k >= 2, cmp=cmp_init, tag="riccinit"))
        # ---- the loop
        if st == "ok":
            impl = "ok passes=%d X=%s" % (passes, fxm(X.tolist()))
        elif st == "ERR:ValueError":
            m = [int(t.strip(".")) for t in X.split() if t.strip(".").isdigit()]
            impl = "ERR:ValueError i=%d" % (m[0] if m else -1)
            ctx.count("ricc:ValueError-maxiter")
        else:
            impl = st
            ctx.count("ricc:" + st)
        nt = k >= 2 and passes >= 2
        if rat_model:
            cases.append(Case("C06 ricc g=%s A=%s B=%s Q=%s R=%s N=%s tol=%s maxit=%d" % (
                fx(gamma), ratm_line(A), ratm_line(B), ratm_line(Q), ratm_line(R), ratm_line(N), tol_tok(tol), max_iter),
                impl, nontrivial=nt, cmp=mk_ricc_cmp(ctx, "ricc", tol), tag="ricc"))
        cases.append(Case("C06 riccf g=%s A=%s B=%s Q=%s R=%s N=%s tol=%s maxit=%d" % (
            fx(gamma), fxm(An.tolist()), fxm(Bn.tolist()), fxm(Qn.tolist()), fxm(Rn.tolist()), fxm(Nn.tolist()),
            tol_tok(tol), max_iter), impl, nontrivial=nt, cmp=mk_ricc_cmp(ctx, "riccf", tol), tag="riccf"))

    nR = ctx.n(90, 1000)
    made, tries = 0, 0
    while made < nR and tries < 40 * nR:
        tries += 1
        k = 1 + (made % 5)
        n = 1 + ((made // 5 + made) % 4)
        kind = ["stable", "unstable", "block"][made % 3] if k >= 2 else rng.choice(["stable", "unstable"])
        d = gen_ricc(kind, k, n)
        if d is None:
            ctx.count("ricc:gen-rejected-certificate")
            continue
        ref = ref_riccati(*map(to_np, (d["A"], d["B"], d["Q"], d["R"], d["N"])))
        if ref is None or ref[1] > 0.97 or float(np.max(np.abs(ref[0]))) > 1e5:
            ctx.count("ricc:gen-rejected-conditioning")
            continue
        made += 1
        ricc_case(d, kind, rat_model=(k <= ctx.n(3, 4)))
    # scalar inputs (python floats, N=None and N given)
    for (a, b, q, r, nn) in [(F(1), F(1), F(1), F(1), F(0)), (F(3, 2), F(1, 2), F(2), F(1), F(1, 2)),
                             (F(1, 2), F(1), F(0), F(2), F(0)), (F(-2), F(1), F(1), F(1, 2), F(-1, 4))]:
        d = {"A": [[a]], "B": [[b]], "Q": [[q + nn * nn / r]], "R": [[r]], "N": [[nn]], "Nzero": nn == 0,
             "unstable": abs(a) >= 1}
        ricc_case(d, "scalar", scalar=True)
    # error exits: max_iter too small; tolerance variants
    for _ in range(ctx.n(4, 20)):
        k, n = rng.randint(1, 3), rng.randint(1, 2)
        d = gen_ricc("unstable", k, n)
        if d is None:
            continue
        mi = rng.choice([0, 1, 2, 3])
        ricc_case(d, "small-max_iter", max_iter=mi, spec=False)
        ricc_case(d, "loose-tolerance", tol=rng.choice([1e-3, 0.5, 1e-6]), spec=False)
    # no admissible gamma: R = 0 and B'B singular  (ValueError "Unable to initialize")
    for k, n in [(2, 2), (3, 2)]:
        d = {"A": gen_stable(rng, k), "B": [[F(1) if j == 0 else F(0) for j in range(n)] for _ in range(k)],
             "Q": eye(k), "R": [[F(0)] * n for _ in range(n)], "N": [[F(0)] * k for _ in range(n)], "Nzero": True}
        ricc_case(d, "no-admissible-gamma", spec=False)

    # only some candidates admitted (cond(Z)*EPS >= 1 for small gamma): R = diag(2^e, 0), B'B = diag(0, 1)
    for e in (44, 46, 48, 50, 51, 52, 53, 60):
        d = {"A": [[F(1, 2)]], "B": [[F(0), F(1)]], "Q": [[F(1)]], "R": [[F(2) ** e, F(0)], [F(0), F(0)]],
             "N": [[F(0)], [F(0)]], "Nzero": False}
        ricc_case(d, "ill-conditioned-R", spec=False)

    # ============================ argument forms ==================================================
    # every input in C/F order, transposed / strided / reversed / read-only views, lists, float32, int; NumPy scalars
    # for max_it / tolerance / max_iter; method positional or by keyword. Judged by the exact oracle against the
    # ORIGINAL data; every argument must be bitwise unchanged after the call (views: their whole buffer too).
    def pick_forms(mats, force=None):
        out, labels = [], []
        for idx, a in enumerate(mats):
            f = force[idx] if force and force[idx] else rng.choice(FORMS)
            v = as_form(a, f)
            if v is None:
                f, v = "C", as_form(a, "C")
            out.append(v)
            labels.append(f)
            ctx.count("forms:" + f)
        return out, labels

    def call_checked(fn, key, args, kwargs, labels, replay):
        snaps = [snapshot(a) for a in args]
        try:
            res = fn(*args, **kwargs)
            st = "ok"
        except Exception as e:      # a legal form must not raise
            res, st = "%s: %s" % (type(e).__name__, e), "ERR"
        for a, sn, lb, nm in zip(args, snaps, labels, replay["argnames"]):
            if not unchanged(a, sn):
                ctx.spec_fail(key + "_input_mutated", "argument %s (form %s) was modified by the call" % (nm, lb), replay)
        return st, res

    def forms_lyap(A, B, reps):
        An, Bn = to_np(A), to_np(B)
        base = np.atleast_2d(me.solve_discrete_lyapunov(An, Bn))
        for r in range(reps):
            (a, b), labels = pick_forms((An, Bn))
            method = rng.choice(["doubling", "doubling", "bartels-stewart"])
            style = rng.choice(["kw", "positional", "npint"])
            if style == "kw":
                extra_a, kw = (), {"method": method}
            elif style == "positional":
                extra_a, kw = (50, method), {}
            else:
                extra_a, kw = (np.int64(50),), {"method": method}
            ctx.count("forms:lyap:" + style)
            replay = {"fn": "solve_discrete_lyapunov", "A": An.tolist(), "B": Bn.tolist(), "forms": labels, "method": method,
                      "call": style, "argnames": ["A", "B"]}
            st, X = call_checked(me.solve_discrete_lyapunov, "lyap", [a, b] + list(extra_a), kw,
                                 labels + ["-"] * len(extra_a), dict(replay, argnames=["A", "B", "max_it", "method"]))
            if st != "ok":
                ctx.spec_fail("lyap_form_raises", "legal argument forms %s raised %s" % (labels, X), replay)
                continue
            X = np.atleast_2d(np.asarray(X))
            env = ENV32 if "f32" in labels else ENV
            lyap_spec(ctx, "lyap_forms", A, B, np.asarray(X, dtype=float), replay, env=env)
            if float(np.max(np.abs(np.asarray(X, dtype=float) - base))) > max(env, ENV_AGREE) * max(1.0, float(np.max(np.abs(base)))) * float((1 + ninf(A)) ** 2):
                ctx.spec_fail("lyap_forms_agree", "result depends on the argument form %s" % labels, replay)
            for nm, arg in (("A", a), ("B", b)):
                if isinstance(arg, np.ndarray) and isinstance(X, np.ndarray) and np.shares_memory(X, arg):
                    ctx.spec_fail("lyap_result_aliases_input", "returned X shares memory with %s" % nm, replay)
            ctx.count("forms:lyap:calls")

    def forms_ricc(d, reps):
        mats = tuple(map(to_np, (d["A"], d["B"], d["Q"], d["R"], d["N"])))
        (st0, base), _ = call_ricc(me, *mats, record=False, method="qz")
        if st0 != "ok":
            return
        # systematic single-argument forms for N (the argument the start-up block reads three times) + random mixes
        plans = [(None, None, None, None, f) for f in ("F", "T-view", "list", "strided", "readonly")]
        plans += [None] * reps
        for force in plans:
            args, labels = pick_forms(mats, force)
            method = rng.choice(["doubling", "doubling", "qz"])
            style = rng.choice(["kw", "positional", "npscalars"])
            if style == "kw":
                extra_a, kw = (), {"method": method}
            elif style == "positional":
                extra_a, kw = (1e-10, 500, method), {}
            else:
                extra_a, kw = (np.float64(1e-10), np.int64(500)), {"method": method}
            ctx.count("forms:ricc:" + style)
            replay = {"fn": "solve_discrete_riccati", "A": mats[0].tolist(), "B": mats[1].tolist(), "Q": mats[2].tolist(),
                      "R": mats[3].tolist(), "N": mats[4].tolist(), "forms": labels, "method": method, "call": style,
                      "argnames": ["A", "B", "Q", "R", "N", "tolerance", "max_iter", "method"]}
            st, X = call_checked(me.solve_discrete_riccati, "ricc", list(args) + list(extra_a), kw,
                                 labels + ["-"] * len(extra_a), replay)
            if st != "ok":
                ctx.spec_fail("ricc_form_raises", "legal argument forms %s raised %s" % (labels, X), replay)
                continue
            X = np.atleast_2d(np.asarray(X, dtype=float))
            env = ENV32 if "f32" in labels else ENV
            ricc_spec(ctx, "ricc_forms_" + method, d["A"], d["B"], d["Q"], d["R"], d["N"], X, replay, env=env)
            sx = max(1.0, float(np.max(np.abs(base)))) * float((1 + ninf(d["A"])) ** 2)
            if float(np.max(np.abs(X - base))) > max(env, ENV_AGREE) * sx:
                ctx.spec_fail("ricc_forms_agree", "result with forms %s (%s) differs from qz on plain arrays by %.3e" % (
                    labels, method, float(np.max(np.abs(X - base)))), replay)
            for nm, arg in zip("ABQRN", args):
                if isinstance(arg, np.ndarray) and np.shares_memory(X, arg):
                    ctx.spec_fail("ricc_result_aliases_input", "returned X shares memory with %s" % nm, replay)
            ctx.count("forms:ricc:calls")
            ctx.count("forms:ricc:k=%d,n=%d" % (len(d["A"]), len(d["R"])))

    for t in range(ctx.n(10, 80)):
        n = 1 + (t % 4)
        A = gen_stable(rng, n) if t % 3 else gen_rowcontraction(rng, n)
        B = gen_sym_psd(rng, n)[0] if t % 2 else [[dy(rng, -4, 4, 2) for _ in range(n)] for _ in range(n)]
        forms_lyap(A, B, ctx.n(4, 8))
    # integer data (nilpotent A), 0-d arrays
    forms_lyap([[F(0), F(2)], [F(0), F(0)]], [[F(1), F(1)], [F(1), F(3)]], 6)
    for a0, b0 in [(0.5, 1.0), (-0.25, 2.0)]:
        X = np.atleast_2d(me.solve_discrete_lyapunov(np.array(a0), np.array(b0)))
        lyap_spec(ctx, "lyap_forms", [[F(a0)]], [[F(b0)]], X, {"fn": "solve_discrete_lyapunov", "A": a0, "B": b0, "form": "0-d"})
        ctx.count("forms:0-d")
    made, tries = 0, 0
    shapes = [(1, 2), (1, 3), (2, 2), (3, 2), (2, 3), (1, 1), (2, 1), (3, 3), (4, 2)]
    while made < ctx.n(14, 90) and tries < 2000:
        tries += 1
        k, n = shapes[made % len(shapes)]
        d = gen_ricc(rng.choice(["stable", "unstable"]), k, n)
        if d is None or d["Nzero"]:
            continue
        ref = ref_riccati(*map(to_np, (d["A"], d["B"], d["Q"], d["R"], d["N"])))
        if ref is None or ref[1] > 0.97 or float(np.max(np.abs(ref[0]))) > 1e5:
            continue
        made += 1
        forms_ricc(d, ctx.n(2, 5))
    (st, X), _ = call_ricc(me, np.array(1.0), np.array(1.0), np.array(1.0), np.array(1.0), None, record=False)
    if st == "ok":
        ricc_spec(ctx, "ricc_forms_doubling", [[F(1)]], [[F(1)]], [[F(1)]], [[F(1)]], [[F(0)]], X, {"form": "0-d"})
        ctx.count("forms:0-d")

    # ============================ histories ========================================================
    # many solves in one process (equal and different sizes, both solvers, all methods interleaved); EVERY returned
    # array is kept; after each later call every held result must still be bit-identical to what it was when it was
    # returned (and so still satisfy the exact oracle it passed); no result may share memory with another result,
    # with an input, or with an array reachable from the modules' globals.
    held = []

    def hold(label, X, inputs, replay):
        if not isinstance(X, np.ndarray):
            return
        for nm, arg in inputs:
            if isinstance(arg, np.ndarray) and np.shares_memory(X, arg):
                ctx.spec_fail("result_aliases_input", "%s: returned array shares memory with input %s" % (label, nm), replay)
        for (lb2, X2, _, rp2) in held:
            if np.shares_memory(X, X2):
                ctx.spec_fail("results_share_memory", "%s shares memory with the earlier result of %s" % (label, lb2),
                              {"later": replay, "earlier": rp2})
        for nm, arr in module_arrays(me, qs):
            if np.shares_memory(X, arr):
                ctx.spec_fail("result_aliases_module_state", "%s: returned array shares memory with %s" % (label, nm), replay)
        held.append((label, X, X.tobytes(), replay))

    def recheck(after):
        for (lb, X, img, rp) in held:
            if X.tobytes() != img:
                key = "result_overwritten_by_later_call"
                ctx.spec_fail(key, "the array returned by %s changed after a later call (%s); it no longer is the solution "
                                   "it was judged to be" % (lb, after), {"earlier": rp, "later": after})

    nH = ctx.n(60, 400)
    for t in range(nH):
        n = rng.choice([1, 2, 2, 3, 3])
        what = rng.choice(["lyap-d", "lyap-d", "lyap-d", "lyap-bs", "mqs", "ricc-d", "ricc-qz"])
        if what in ("lyap-d", "lyap-bs", "mqs"):
            A = gen_stable(rng, n) if rng.random() < 0.7 else gen_rowcontraction(rng, n)
            B = gen_sym_psd(rng, n)[0]
            An, Bn = to_np(A), to_np(B)
            fa, fb = rng.choice(("C", "F", "T-view", "list")), rng.choice(("C", "F", "T-view", "list"))
            a, b = as_form(An, fa), as_form(Bn, fb)
            replay = {"fn": what, "A": An.tolist(), "B": Bn.tolist(), "forms": [fa, fb], "position_in_history": t}
            if what == "mqs":
                X = qs.m_quadratic_sum(a, b)
            else:
                X = me.solve_discrete_lyapunov(a, b, method="doubling" if what == "lyap-d" else "bartels-stewart")
            lyap_spec(ctx, "history_" + what, A, B, np.atleast_2d(np.asarray(X, dtype=float)), replay)
            hold(what, X, (("A", a), ("B", b)), replay)
            if what == "lyap-d" and rng.random() < 0.5:
                # the two Gramians of one system: same A (transposed), same size, back to back
                Bt = gen_sym_psd(rng, n)[0]
                At = tr(A)
                rp2 = {"fn": "lyap-d", "A": to_np(At).tolist(), "B": to_np(Bt).tolist(), "position_in_history": t,
                       "note": "second Gramian"}
                X2 = me.solve_discrete_lyapunov(to_np(At), to_np(Bt))
                lyap_spec(ctx, "history_lyap-d", At, Bt, np.atleast_2d(np.asarray(X2, dtype=float)), rp2)
                recheck("lyap-d second Gramian at %d" % t)
                hold("lyap-d", X2, (), rp2)
                ctx.count("history:gramian-pair")
        else:
            d = None
            for _ in range(50):
                d = gen_ricc(rng.choice(["stable", "unstable"]), n, rng.choice([1, 2]))
                if d is not None:
                    rf = ref_riccati(*map(to_np, (d["A"], d["B"], d["Q"], d["R"], d["N"])))
                    if rf is not None and rf[1] <= 0.97 and float(np.max(np.abs(rf[0]))) <= 1e5:
                        break
                d = None
            if d is None:
                continue
            mats = tuple(map(to_np, (d["A"], d["B"], d["Q"], d["R"], d["N"])))
            fN = rng.choice(("C", "F", "T-view", "list"))
            args = list(mats[:4]) + [as_form(mats[4], fN)]
            method = "doubling" if what == "ricc-d" else "qz"
            replay = {"fn": what, "A": mats[0].tolist(), "B": mats[1].tolist(), "Q": mats[2].tolist(), "R": mats[3].tolist(),
                      "N": mats[4].tolist(), "forms": ["C", "C", "C", "C", fN], "position_in_history": t}
            X = me.solve_discrete_riccati(*args, method=method)
            ricc_spec(ctx, "history_" + what, d["A"], d["B"], d["Q"], d["R"], d["N"], np.atleast_2d(X), replay)
            hold(what, X, tuple(zip("ABQRN", args)), replay)
        recheck("%s at %d" % (what, t))
        ctx.count("history:" + what)
    # final re-judgement of every held Lyapunov / Riccati result with the exact oracle
    for (lb, X, img, rp) in held:
        Xf = np.atleast_2d(np.asarray(X, dtype=float))
        if lb in ("lyap-d", "lyap-bs", "mqs"):
            lyap_spec(ctx, "history_final_" + lb, fm(rp["A"]), fm(rp["B"]), Xf, rp)
        else:
            ricc_spec(ctx, "history_final_" + lb, fm(rp["A"]), fm(rp["B"]), fm(rp["Q"]), fm(rp["R"]), fm(rp["N"]), Xf, rp)
    ctx.count("history:held-results", len(held))
    ctx.extra["module_level_arrays"] = [nm for nm, _ in module_arrays(me, qs)]


    # ============================ entry points: options and glue ===================================
    # model: lyapEntry / mQuadraticSum / riccEntry (method dispatch, any-integer max_it, N=None -> zeros((n, k))).
    # structured stream: every legal method x max_it combination; malformed stream: unknown / wrong-case / non-string
    # methods, methods of the *other* solver, max_it <= 1 including negatives.
    def mtok(m):
        if not isinstance(m, str):
            return "<nonstr>"
        return m if m and " " not in m else "<empty>"

    tolr_e = "x%016x" % int.from_bytes(np.float64(LYAP_TOL).tobytes(), "little")
    for t in range(ctx.n(6, 30)):
        n = 1 + (t % 3)
        A = gen_rowcontraction(rng, n) if t % 2 else gen_stable(rng, n)
        B = gen_sym_psd(rng, n)[0]
        An, Bn = to_np(A), to_np(B)
        combos = [("doubling", mi) for mi in (50, 7, 3, 2, 1, 0, -1, -5, np.int64(4))]
        combos += [("bartels-stewart", 50), ("bartels-stewart", 0)]
        combos += [(m, 50) for m in ("Doubling", "DOUBLING", "", "qz", "doubling ", "bartels_stewart", None, 3)]
        for method, mi in combos:
            try:
                X = me.solve_discrete_lyapunov(An, Bn, mi, method)
                if method == "doubling":
                    impl = "ok its=%d X=%s" % (lyap_its(me, An, Bn, int(mi)), fxm(np.atleast_2d(X).tolist()))
                else:
                    impl = "EXTERNAL"
            except ValueError as e:
                msg = str(e)
                if msg.startswith("Check your method"):
                    impl = "ERR:ValueError method"
                else:
                    dg = [int(x) for x in msg.replace(",", " ").split() if x.isdigit()]
                    impl = "ERR:ValueError its=%d" % (dg[0] if dg else -1)
            ctx.count("entry:lyap:" + impl.split(" X=")[0].split(" its=")[0].replace(" ", "-"))
            if int(mi) <= 1 and method == "doubling":
                ctx.count("entry:lyap:max_it<=1")
            line = "C06 lyapentry A=%s B=%s tol=%s maxit=%d method=%s entry=lyap" % (
                ratm_line(A), ratm_line(B), tolr_e, int(mi), mtok(method))
            cases.append(Case(line, impl, nontrivial=(n >= 2), tag="lyapentry",
                              cmp=(mk_lyap_cmp(ctx, "lyapentry") if impl.startswith("ok") else None)))
        for mi in (50, 3, 1, 0, -2):
            try:
                V = qs.m_quadratic_sum(An, Bn, mi)
                impl = "ok its=%d X=%s" % (lyap_its(me, An, Bn, int(mi)), fxm(np.atleast_2d(V).tolist()))
            except ValueError as e:
                dg = [int(x) for x in str(e).replace(",", " ").split() if x.isdigit()]
                impl = "ERR:ValueError its=%d" % (dg[0] if dg else -1)
            ctx.count("entry:mqs:" + impl.split(" ")[0])
            line = "C06 lyapentry A=%s B=%s tol=%s maxit=%d method=- entry=mqs" % (ratm_line(A), ratm_line(B), tolr_e, mi)
            cases.append(Case(line, impl, nontrivial=(n >= 2), tag="mqs",
                              cmp=(mk_lyap_cmp(ctx, "mqs") if impl.startswith("ok") else None)))
    made = 0
    for _ in range(400):
        if made >= ctx.n(6, 30):
            break
        k, n = rng.choice([(1, 1), (2, 1), (2, 2), (1, 2), (3, 2)])
        d = gen_ricc(rng.choice(["stable", "unstable"]), k, n)
        if d is None:
            continue
        Z = [[F(0)] * k for _ in range(n)]
        d0 = dict(d, N=Z, Q=msub(d["Q"], mm(mm(tr(d["N"]), solve_exact(d["R"], eye(n))), d["N"])))   # no cross term
        mats = tuple(map(to_np, (d0["A"], d0["B"], d0["Q"], d0["R"])))
        rf = ref_riccati(*mats, np.zeros((n, k)))
        if rf is None or rf[1] > 0.97 or float(np.max(np.abs(rf[0]))) > 1e5:
            continue
        made += 1
        common = "A=%s B=%s Q=%s R=%s" % tuple(ratm_line(x) for x in (d0["A"], d0["B"], d0["Q"], d0["R"]))
        # N omitted, doubling: gamma observed through the recorder, X compared inside the envelope
        (st, X), rec = call_ricc(me, *mats, None)
        pc = parse_cond(rec)
        gamma = None
        if st == "ok" and pc is not None:
            nacc = sum(1 for c in pc if c[3])
            if len(rec.solve) > 3 * nacc:
                match = [g for g in CANDIDATES if np.array_equal(np.atleast_2d(mats[3] + g * (mats[1].T @ mats[1])),
                                                                 rec.solve[3 * nacc][0])]
                gamma = match[0] if match else None
                passes = (len(rec.solve) - 3 * nacc - 3) // 3
        if gamma is not None:
            ricc_spec(ctx, "ricc_entry_N_none", d0["A"], d0["B"], d0["Q"], d0["R"], Z, X,
                      {"fn": "solve_discrete_riccati", "N": None, "A": mats[0].tolist(), "B": mats[1].tolist(),
                       "Q": mats[2].tolist(), "R": mats[3].tolist()})
            for ntok in ("none", ratm_line(Z)):
                cases.append(Case("C06 riccentry g=%s %s N=%s tol=%s maxit=500 method=doubling" % (
                    fx(gamma), common, ntok, tol_tok(1e-10)), "ok passes=%d X=%s" % (passes, fxm(X.tolist())),
                    nontrivial=(k >= 2), cmp=mk_ricc_cmp(ctx, "riccentry", 1e-10), tag="riccentry"))
            ctx.count("entry:ricc:N-none")
        for method in ("qz", "bartels-stewart", "QZ", "Doubling", "", None, 7):
            try:
                me.solve_discrete_riccati(*mats, None, 1e-10, 500, method)
                impl = "EXTERNAL" if method == "qz" else "ok-unexpected"
            except ValueError as e:
                impl = "ERR:ValueError method" if str(e).startswith("Check your method") else "ERR:ValueError other"
            ctx.count("entry:ricc:" + impl.replace(" ", "-"))
            cases.append(Case("C06 riccentry g=1 %s N=none tol=%s maxit=500 method=%s" % (common, tol_tok(1e-10), mtok(method)),
                              impl, nontrivial=False, tag="riccentry"))
        # the method check comes first: a bad method with otherwise malformed arguments is still the method ValueError
        try:
            me.solve_discrete_riccati("junk", mats[1][:, :0], None, object(), method="sda")
            ctx.spec_fail("ricc_method_check_first", "bad method with malformed arguments did not raise", {"method": "sda"})
        except ValueError as e:
            if str(e).startswith("Check your method"):
                ctx.count("entry:ricc:method-check-precedes-argument-errors")
            else:
                ctx.count("entry:ricc:other-error-first")
        except Exception as e:
            ctx.count("entry:ricc:other-error-first:" + type(e).__name__)


    ctx.run_cases(cases)
