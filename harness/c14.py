"""C14 — one payoff convention across all views of a game: correspondence + spec run.

Every case is a *history*: a constructor followed by <= 4 calls on the game.  The real code's
result of each call and the payoff arrays it stores after each call (exact values of every
cell of every player's array, in C order) are compared with the model's state machine
(`QE.C14.run`).  Independently of the model, a definition-level oracle (a dict profile ->
payoff tuple, updated only by the meaning of each call) checks after every call that all
views of the code's game agree with it and that the call's result is what its definition says.
"""
import itertools
import os
import tempfile
from fractions import Fraction

import numpy as np

import re
import warnings

from .common import Case, ints, rat, rats, parse_rats, fx

FILES = ["quantecon/game_theory/normal_form_game.py", "quantecon/game_theory/polymatrix_game.py",
         "quantecon/game_theory/game_converters.py", "quantecon/game_theory/logitdyn.py",
         "quantecon/optimize/minmax.py"]


# ----------------------------------------------------------------------------------------------
# canonical strings

def F(x):
    return Fraction(x)


def arr_str(a):
    return ints(a.shape) + "/" + rats(F(x) for x in a.ravel().tolist())


def state_str(g):
    return ";".join(arr_str(p.payoff_array) for p in g.players)


def act_str(a):
    if isinstance(a, (int, np.integer)):
        return "p%d" % a
    return "m" + rats(F(float(x)) for x in a)


def acts_str(acts):
    return ";".join(act_str(a) for a in acts) if len(acts) else "-"


# ----------------------------------------------------------------------------------------------
# definition-level oracle ("truth"): u[profile] = tuple of the N payoffs (python numbers)

def same(x, w):
    """the code's number x IS the oracle's number w: same kind (integer / float), integers equal as
    integers (no detour through float64), floats equal bit for bit (so -0.0 is not 0.0)"""
    xf, wf = isinstance(x, float), isinstance(w, float)
    if xf != wf:
        return False
    if wf:
        return fx(x) == fx(w)
    return int(x) == int(w)


_INT_TOKEN = re.compile(r"[+-]?[0-9]+$")


def gam_token_value(t):
    """the number a GAM token denotes: an integer literal is an integer (exactly), anything else a double"""
    return int(t) if _INT_TOKEN.match(t) else float(t)


class Truth:
    def __init__(self, nums, u, kind=None):
        self.nums, self.u = tuple(nums), u
        if kind is None:
            v0 = next(iter(u.values()))[0]
            kind = "f" if isinstance(v0, float) else "i"
        self.kind = kind      # 'i': integer payoffs (int dtype), 'f': doubles

    def copy(self):
        return Truth(self.nums, dict(self.u), self.kind)

    @property
    def N(self):
        return len(self.nums)

    def profiles(self):
        return itertools.product(*[range(n) for n in self.nums])

    def delete(self, p, a):
        nums = list(self.nums)
        nums[p] -= 1
        u = {}
        for prof, v in self.u.items():
            if prof[p] == a:
                continue
            q = list(prof)
            if q[p] > a:
                q[p] -= 1
            u[tuple(q)] = v
        return Truth(nums, u, self.kind)

    def sigma(self, j, act, b):
        """probability that player j's action `act` puts on pure action b"""
        if isinstance(act, (int, np.integer)):
            return Fraction(1 if b == act else 0)
        return F(float(act[b]))

    def expect_vector(self, i, opps):
        """exact expected payoff of each own action of player i; opps in the order
        i+1, ..., N-1, 0, ..., i-1 (the library's convention for one player's opponents)"""
        N = self.N
        others = [(i + 1 + k) % N for k in range(N - 1)]
        out = []
        for a in range(self.nums[i]):
            tot = Fraction(0)
            for prof in itertools.product(*[range(self.nums[j]) for j in others]):
                w = Fraction(1)
                for j, act, b in zip(others, opps, prof):
                    w *= self.sigma(j, act, b)
                    if w == 0:
                        break
                if w == 0:
                    continue
                full = [0] * N
                full[i] = a
                for j, b in zip(others, prof):
                    full[j] = b
                tot += w * F(self.u[tuple(full)][i])
            out.append(tot)
        return out


def check_views(ctx, g, T, where, replay):
    """all views of the code's game agree with the definition-level oracle"""
    N = T.N
    if g.N != N or tuple(g.nums_actions) != T.nums:
        ctx.spec_fail("views", "%s: N/nums_actions %s differ from %s" % (where, g.nums_actions, T.nums), replay)
        return
    ppa = g.payoff_profile_array
    if ppa.shape != T.nums + (N,):
        ctx.spec_fail("views", "%s: payoff_profile_array shape %s" % (where, ppa.shape), replay)
        return
    kinds = [ppa.dtype.kind, np.dtype(g.dtype).kind] + [p.payoff_array.dtype.kind for p in g.players]
    if any(k != T.kind for k in kinds):
        ctx.spec_fail("dtype", "%s: dtype kinds %s (profile array, game, players), payoffs are of kind %r" % (where, kinds, T.kind), replay)
        return
    ppl = ppa.tolist()
    pls = [p.payoff_array.tolist() for p in g.players]
    for i, p in enumerate(g.players):
        if p.payoff_array.shape != T.nums[i:] + T.nums[:i]:
            ctx.spec_fail("views", "%s: player %d array shape %s" % (where, i, p.payoff_array.shape), replay)
            return

    def dig(nested, idx):
        for k in idx:
            nested = nested[k]
        return nested
    for prof in T.profiles():
        want = T.u[prof]
        a = dig(ppl, prof)
        if N == 1:
            b = np.atleast_1d(g[prof[0]]).tolist()
        else:
            b = g[prof].tolist()
        c = [dig(pls[i], prof[i:] + prof[:i]) for i in range(N)]
        for i in range(N):
            if not (same(a[i], want[i]) and same(b[i], want[i]) and same(c[i], want[i])):
                ctx.spec_fail("views", "%s: payoff of player %d at %s: profile_array %r, g[.] %r, players[i] %r, "
                              "definition %r" % (where, i, prof, a[i], b[i], c[i], want[i]),
                              dict(replay, profile=list(prof), player=i))
                return


# ----------------------------------------------------------------------------------------------
# exact value of a matrix game (support enumeration, Fractions) for the domination oracle

def solve_lin(A, b):
    n = len(A)
    M = [list(r) + [bb] for r, bb in zip(A, b)]
    for c in range(n):
        piv = next((r for r in range(c, n) if M[r][c] != 0), None)
        if piv is None:
            return None
        M[c], M[piv] = M[piv], M[c]
        pv = M[c][c]
        M[c] = [x / pv for x in M[c]]
        for r in range(n):
            if r != c and M[r][c] != 0:
                f = M[r][c]
                M[r] = [x - f * y for x, y in zip(M[r], M[c])]
    return [M[r][n] for r in range(n)]


def game_value(D):
    """(v, x, y) for the zero-sum game with row-player payoff matrix D (Fractions); exact"""
    m, n = len(D), len(D[0])
    shift = 1 - min(min(r) for r in D)
    E = [[x + shift for x in r] for r in D]
    for k in range(1, min(m, n) + 1):
        for R in itertools.combinations(range(m), k):
            for C in itertools.combinations(range(n), k):
                # x on R equalises the columns in C; y on C equalises the rows in R
                A = [[E[r][c] for r in R] + [Fraction(-1)] for c in C] + [[Fraction(1)] * k + [Fraction(0)]]
                sx = solve_lin(A, [Fraction(0)] * k + [Fraction(1)])
                if sx is None or min(sx[:k]) < 0:
                    continue
                v = sx[k]
                A = [[E[r][c] for c in C] + [Fraction(-1)] for r in R] + [[Fraction(1)] * k + [Fraction(0)]]
                sy = solve_lin(A, [Fraction(0)] * k + [Fraction(1)])
                if sy is None or min(sy[:k]) < 0 or sy[k] != v:
                    continue
                x = [Fraction(0)] * m
                y = [Fraction(0)] * n
                for r, t in zip(R, sx):
                    x[r] = t
                for c, t in zip(C, sy):
                    y[c] = t
                if all(sum(x[r] * E[r][c] for r in range(m)) >= v for c in range(n)) and \
                        all(sum(E[r][c] * y[c] for c in range(n)) <= v for r in range(m)):
                    return v - shift, x, y
    return None


# ----------------------------------------------------------------------------------------------

def gam_num(t):
    """a number as text the reader accepts: its str2num needs a '.' to take the float branch
    ('1e-07' is rejected by int()), so exponent-only reprs get a '.0'"""
    r = repr(t)
    if isinstance(t, float) and "." not in r and "e" in r:
        r = r.replace("e", ".0e")
    return r


class FixedDraw(np.random.RandomState):
    """RandomState whose integer draws are fixed (tie_breaking='random')"""
    def __init__(self, k):
        super().__init__(0)
        self.k = k

    def randint(self, low, high=None, size=None, dtype=int):
        return self.k


def run(ctx):
    import quantecon.game_theory as gt
    from quantecon.game_theory import NormalFormGame, Player
    from quantecon.game_theory.polymatrix_game import PolymatrixGame
    from quantecon.game_theory.game_converters import GAMReader, GAMWriter, to_gam, from_gam
    from quantecon.game_theory.logitdyn import LogitDynamics

    rng = ctx.rng
    ctx.rule = ("histories: random constructor (profile array / zeros / symmetric matrix / Players / GAM numbers / "
                "polymatrix) of an N<=4-player game with 1..5 actions each (asymmetric), payoffs of class int "
                "(int dtype), dyadic float, or doubles needing 17 significant digits, followed by <=4 calls drawn from "
                "{get,set,del,delm,pv,br,isbr,nash,dom,profarr,reprof,replayers,gam,logit,polyrt} incl. a malformed stream; "
                "non-trivial = N>=2 with at least two players having >=2 actions and at least one call; distinct by request line")
    tmpdir = tempfile.mkdtemp(prefix="c14_")
    cases = []
    cur = {}    # description of the library call about to be made (for the replay if it raises)

    # ---- value classes ------------------------------------------------------------------------
    specials = [0.1, 0.2, 0.1 + 0.2, 1 / 3, 2 / 3, 1e-5, 1.0000000000000002, 123456.78901234567, -0.30000000000000004,
                5e-324, 2.2250738585072014e-308, -1e-7, 3.141592653589793, 9007199254740993.0, 0.1 + 0.7]
    huge = [1e15 + 0.125, 1e22]

    # integers that do not survive a detour through float64 / that sit at the int64 limits
    bigints = [2 ** 53 + 1, -(2 ** 53 + 1), 2 ** 53 + 3, 2 ** 62 - 1, -(2 ** 62 - 1), -(2 ** 63), 2 ** 63 - 1,
               10 ** 17 + 1, 12345678901234567, 123456789012345678, 1234567890123456789, -999999999999999999,
               9223372036854775783, -4611686018427387905, 36028797018963969]
    # doubles at the ends of the range, and the two zeros
    extfloats = [1.7976931348623157e308, -1.7976931348623157e308, 5e-324, -5e-324, -0.0, 0.0, 2.2250738585072014e-308,
                 2.225073858507201e-308, 1e-300, -1e300, 9007199254740992.0, 1.0000000000000002e-200, 8.98846567431158e307]
    EXT = ("bigint", "extf")     # classes on which only the index-level calls are exercised (arithmetic would overflow)

    def value(cls):
        if cls == "bigint":
            return rng.choice(bigints) if rng.random() < 0.6 else rng.randint(-9, 9)
        if cls == "extf":
            return rng.choice(extfloats) if rng.random() < 0.6 else rng.uniform(-10, 10)
        if cls == "int":
            return rng.randint(-9, 9)
        if cls == "dyad":
            return rng.randint(-36, 36) / 4.0
        r = rng.random()
        if r < 0.02:
            return rng.choice(huge) * rng.choice([1, -1])
        if r < 0.25:
            return rng.choice(specials) * rng.choice([1, -1])
        return rng.uniform(-10, 10)

    def rand_nums(maxN=4, maxA=5):
        N = rng.choice([1, 2, 2, 2, 3, 3, 3, 4, 4][:9 if maxN >= 4 else 7])
        while True:
            nums = tuple(rng.randint(1, maxA) for _ in range(N))
            if N == 4 and int(np.prod(nums)) > 200 and rng.random() < 0.7:
                continue
            return nums

    def mixed(n, cls):
        if cls == "f17" and rng.random() < 0.5:
            w = [rng.random() for _ in range(n)]
            s = sum(w)
            return np.array([x / s for x in w])
        cuts = sorted(rng.randint(0, 16) for _ in range(n - 1))
        parts = [b - a for a, b in zip([0] + cuts, cuts + [16])]
        return np.array([p / 16.0 for p in parts])

    def rand_act(n, cls, pure_p=0.5):
        if rng.random() < pure_p:
            return rng.randrange(n)
        return mixed(n, cls)

    def tol_tok(tol):
        """the tolerance argument on the wire: `none` when omitted (the model resolves the default as
        the code does), else its exact value"""
        return "none" if tol is None else rat(F(tol))

    def rand_tol(cls):
        r = rng.random()
        if r < 0.3:
            return None
        if r < 0.5:
            return rng.choice([0.0, 0])
        if r < 0.8:
            return rng.choice([0.25, 0.5, 1.0, 2.0, 4.0])
        return 1e-8 if cls == "f17" else 2.0 ** -20

    # ---- constructors: (line part, game, truth, cls, is_poly) -----------------------------------
    def np_dtype(cls):
        return np.int64 if cls in ("int", "bigint") else np.float64

    def make_game():
        cls = rng.choice(["int", "int", "dyad", "dyad", "f17", "f17", "bigint", "bigint", "extf"])
        kind = rng.choice(["prof", "prof", "prof", "zeros", "sym", "players", "gam", "poly"])
        dt = np_dtype(cls)
        if kind == "sym":
            n = rng.randint(2, 5)
            A = np.array([[value(cls) for _ in range(n)] for _ in range(n)], dtype=dt)
            cur["call"] = {"ctor": "sym", "matrix": A.tolist()}
            g = NormalFormGame(A)
            u = {(a, b): (A[a, b].item(), A[b, a].item()) for a in range(n) for b in range(n)}
            return ("ctor=sym n=%d data=%s" % (n, rats(F(x) for x in A.ravel().tolist())), g, Truth((n, n), u), cls, False,
                    {"ctor": "sym", "matrix": A.tolist()})
        nums = rand_nums()
        N = len(nums)
        if kind == "zeros":
            cur["call"] = {"ctor": "zeros", "nums": list(nums)}
            isint = cls in ("int", "bigint")
            g = NormalFormGame(nums) if not isint else NormalFormGame(nums, dtype=int)
            u = {p: tuple([0 if isint else 0.0] * N) for p in itertools.product(*[range(n) for n in nums])}
            return ("ctor=zeros nums=%s" % ints(nums), g, Truth(nums, u), cls, True, {"ctor": "zeros", "nums": list(nums)})
        if kind == "poly" and N >= 2:
            pcls = cls if cls in ("int", "dyad") else "dyad"
            pm = {(i, j): np.array([[value(pcls) for _ in range(nums[j])] for _ in range(nums[i])], dtype=float)
                  for i in range(N) for j in range(N) if i != j}
            cur["call"] = {"ctor": "poly", "nums": list(nums), "polymatrix": {"%d,%d" % k: v.tolist() for k, v in pm.items()}}
            if rng.random() < 0.5:
                g = PolymatrixGame(pm, nums_actions=nums).to_nfg()
            else:       # numbers of players / actions inferred from the dictionary
                g = PolymatrixGame(pm).to_nfg()
                ctx.count("poly:inferred-nums")
            u = {}
            for p in itertools.product(*[range(n) for n in nums]):
                u[p] = tuple(float(sum(F(pm[(i, j)][p[i], p[j]].item()) for j in range(N) if j != i)) for i in range(N))
            mats = ";".join(rats(F(x) for x in pm[(i, j)].ravel().tolist()) for i in range(N) for j in range(N) if i != j)
            return ("ctor=poly nums=%s mats=%s" % (ints(nums), mats), g, Truth(nums, u), pcls, True,
                    {"ctor": "poly", "nums": list(nums), "polymatrix": {"%d,%d" % k: v.tolist() for k, v in pm.items()}})
        # general payoff function
        u = {p: tuple(value(cls) for _ in range(N)) for p in itertools.product(*[range(n) for n in nums])}
        T = Truth(nums, u)
        D = np.empty(nums + (N,), dtype=dt)
        for p, v in u.items():
            D[p] = v
        rep = {"ctor": kind, "payoff_profile_array": D.tolist()}
        cur["call"] = rep
        if kind == "players" or (kind == "poly"):
            pls = []
            for i in range(N):
                shp = nums[i:] + nums[:i]
                A = np.empty(shp, dtype=dt)
                for p, v in u.items():
                    A[p[i:] + p[:i]] = v[i]
                pls.append(Player(A))
            g = NormalFormGame(pls)
            line = "ctor=players shapes=%s datas=%s" % (
                ";".join(ints(p.payoff_array.shape) for p in pls),
                ";".join(rats(F(x) for x in p.payoff_array.ravel().tolist()) for p in pls))
            return (line, g, T, cls, False, rep)
        if kind == "gam":
            # numbers of a .gam file: player by player, first player's action fastest
            toks = []
            for i in range(N):
                for q in itertools.product(*[range(n) for n in reversed(nums)]):
                    toks.append(u[tuple(reversed(q))][i])
            s = "%d\n%s\n\n%s\n" % (N, " ".join(map(str, nums)), " ".join(gam_num(t) for t in toks))
            if rng.random() < 0.5:
                g = GAMReader.from_string(s)
            else:
                fn = os.path.join(tmpdir, "in.gam")
                with open(fn, "w") as f:
                    f.write(s)
                g = from_gam(fn)
            return ("ctor=gam nums=%s data=%s" % (ints(nums), rats(F(t) for t in toks)), g, T, cls, False, dict(rep, gam=s))
        if N == 1:
            # a 1-player game is given by its payoff vector through Players (a profile array of
            # shape (n, 1) works too)
            if rng.random() < 0.5:
                g = NormalFormGame(D)
                return ("ctor=prof shape=%s data=%s" % (ints(D.shape), rats(F(x) for x in D.ravel().tolist())), g, T, cls, False, rep)
            g = NormalFormGame([Player(D[:, 0].copy())])
            return ("ctor=players shapes=%d datas=%s" % (nums[0], rats(F(x) for x in D[:, 0].tolist())), g, T, cls, False, rep)
        if N == 2 and nums[0] == nums[1] and False:
            pass
        g = NormalFormGame(D)
        return ("ctor=prof shape=%s data=%s" % (ints(D.shape), rats(F(x) for x in D.ravel().tolist())), g, T, cls, False, rep)

    # ---- one call ----------------------------------------------------------------------------------
    def envelope_scale(T):
        return 1 + max((abs(float(x)) for v in T.u.values() for x in v), default=0.0)

    def opp_profile(T, i, cls, pure_p=0.5):
        N = T.N
        return [rand_act(T.nums[(i + 1 + k) % N], cls, pure_p) for k in range(N - 1)]

    def as_arg(N, opps):
        """how the library wants one player's opponents' actions"""
        if N == 1:
            return None
        if N == 2:
            return opps[0]
        return tuple(opps)

    def do_op(g, T, cls, is_poly, name, replay):
        """returns (op token or None, out string, new g, new T, is_poly, pv_env flag)"""
        N = T.N
        exact = cls in ("int", "dyad")
        scale = envelope_scale(T)
        env = 0 if exact else 1e-12 * scale

        def near(exp_v, tolv, a_list=None):
            """some comparison v[a] >= max - tol is too close to call in floating point"""
            if exact:
                return False
            mx = max(exp_v)
            for a, va in enumerate(exp_v):
                m = va - (mx - tolv)
                sc = Fraction(scale) + max(abs(x) for x in exp_v)     # a large perturbation enlarges the rounding error
                if abs(m) <= Fraction(4e-12) * sc and not (m == 0 and tolv == 0 and va == mx):
                    return True
            return False

        if name in ("get", "set"):
            malformed = rng.random() < 0.12
            prof = [rng.randrange(n) for n in T.nums]
            neg = False
            if rng.random() < 0.15:
                k = rng.randrange(N)
                prof[k] -= T.nums[k]
                neg = True
                ctx.count("index:negative")
            kind = None
            if malformed:
                kind = rng.choice(["len", "range"])
                if kind == "len" and N >= 2:
                    prof = prof + [0] if rng.random() < 0.5 else prof[:-1]
                else:
                    k = rng.randrange(N)
                    prof[k] = T.nums[k] + rng.randint(0, 2) if rng.random() < 0.5 else -T.nums[k] - 1 - rng.randint(0, 1)
                    kind = "range"
            key = tuple(prof) if N >= 2 else (prof[0] if len(prof) == 1 else tuple(prof))
            tprof = tuple(p % n for p, n in zip(prof, T.nums)) if not malformed else None
            cur["call"] = "g[%r] (%s)" % (key, name)
            if name == "get":
                try:
                    r = g[key]
                    out = "v" + rats(F(x) for x in (np.atleast_1d(r)).tolist())
                    if malformed:
                        ctx.spec_fail("getitem-malformed", "g[%s] returned %r" % (key, r), dict(replay, index=prof))
                    else:
                        want = T.u[tprof]
                        got_l = np.atleast_1d(r).tolist()
                        if len(got_l) != len(want) or not all(same(x, w) for x, w in zip(got_l, want)):
                            ctx.spec_fail("getitem", "g[%s] = %r, definition %r" % (key, r, want), dict(replay, index=prof))
                except (IndexError, TypeError, ValueError) as e:
                    out = "ERR:" + type(e).__name__
                    ctx.count("err:get:" + type(e).__name__)
                    if not malformed:
                        ctx.spec_fail("getitem", "g[%s] raised %s" % (key, out), dict(replay, index=prof))
                return "get:%s" % ints(prof), out, g, T, is_poly
            vals = [value(cls) for _ in range(N)]
            if T.kind == "f":
                vals = [float(v) for v in vals]     # a float game stores doubles
            if malformed and kind == "range" and rng.random() < 0.3 and N >= 2:
                vals = vals[:-1]
                prof = [p % n for p, n in zip(prof, T.nums)]
                key = tuple(prof)
                ctx.count("set:wrong-value-length")
            if N == 2 and not malformed and np.shares_memory(g.players[0].payoff_array, g.players[1].payoff_array):
                # both Players of a game sit on ONE ndarray (the symmetric-matrix constructor did this before
                # fix b12fc74): judge the write on a copy built the same way and report it under its own key;
                # the history goes on (the model describes players that own their arrays)
                gc = NormalFormGame(g.players[0].payoff_array.copy())
                gc[key] = vals
                Tc = T.copy()
                Tc.u[tprof] = tuple(vals)
                bad_cells = [(q, i) for q in Tc.profiles() for i in range(2) if gc[q][i] != Tc.u[q][i]]
                ctx.count("set:on-shared-array")
                if bad_cells:
                    q, i = bad_cells[0]
                    ctx.spec_fail("sym-shared-array", "symmetric game %s: g[%s]=%s makes player %d's payoff at %s equal %r, "
                                  "definition %r (both Players share one ndarray)" % (
                                      g.players[0].payoff_array.tolist(), key, vals, i, q, gc[q][i], Tc.u[q][i]),
                                  dict(replay, index=prof, values=vals))
            try:
                g[key] = vals if N >= 2 else vals[0]
                out = "-"
                if malformed:
                    ctx.spec_fail("setitem-malformed", "g[%s]=%s accepted" % (key, vals), dict(replay, index=prof))
                else:
                    T = T.copy()
                    T.u[tprof] = tuple(vals)
                    is_poly = False
            except (IndexError, TypeError, ValueError) as e:
                out = "ERR:" + type(e).__name__
                ctx.count("err:set:" + type(e).__name__)
                if not malformed:
                    ctx.spec_fail("setitem", "g[%s]=... raised %s" % (key, out), dict(replay, index=prof))
            return "set:%s:%s" % (ints(prof), rats(F(v) for v in vals)), out, g, T, is_poly

        if name == "del":
            p = rng.randrange(N)
            a = rng.randrange(T.nums[p])
            pp, aa = p, a
            bad = None
            r = rng.random()
            if r < 0.2:
                pp = p - N
                ctx.count("del:negative-player")
            if rng.random() < 0.15:
                aa = a - T.nums[p]
                ctx.count("del:negative-action")
            if r > 0.9:
                bad = rng.choice(["player", "action"])
                if bad == "player":
                    pp = rng.choice([N, N + 1, -N - 1])
                else:
                    aa = rng.choice([T.nums[p], -T.nums[p] - 1])
            cur["call"] = "g.delete_action(%d, %d)" % (pp, aa)
            try:
                g2 = g.delete_action(pp, aa)
                out = "-"
                if bad or T.nums[p] == 1:
                    ctx.spec_fail("delete-malformed", "delete_action(%d,%d) accepted on %s" % (pp, aa, T.nums), dict(replay, player=pp, action=aa))
                else:
                    # the old game is untouched, the new one is the definition's
                    check_views(ctx, g, T, "old game after delete_action(%d,%d)" % (pp, aa), dict(replay, player=pp, action=aa))
                    T = T.delete(p, a)
                    # the Player-level method on every player's array (axis = player_idx - i, possibly negative)
                    for i, pl in enumerate(g.players):
                        q = pl.delete_action(aa, p - i)
                        if q.payoff_array.tolist() != g2.players[i].payoff_array.tolist():
                            ctx.spec_fail("player-delete", "Player.delete_action(%d, %d) of player %d differs from the game's" % (aa, p - i, i),
                                          dict(replay, player=pp, action=aa))
                    g = g2
                    ctx.count("del:ok:axis-wrap" if p < N - 1 or True else "del:ok")
            except (IndexError, ValueError) as e:
                out = "ERR:" + type(e).__name__
                ctx.count("err:del:" + type(e).__name__)
                if not bad and T.nums[p] > 1:
                    ctx.spec_fail("delete", "delete_action(%d,%d) raised %s" % (pp, aa, out), dict(replay, player=pp, action=aa))
            return "del:%d:%d" % (pp, aa), out, g, T, is_poly

        if name == "delm":
            p = rng.randrange(N)
            n = T.nums[p]
            k = rng.choice([0, 1, 1, 2, 2, 3, n - 1, n])
            k = max(0, min(n, k))
            dele = sorted(rng.sample(range(n), k))
            acts = [a - n if rng.random() < 0.2 else a for a in dele]
            rng.shuffle(acts)
            if acts and rng.random() < 0.25:
                acts.append(rng.choice(acts))
                ctx.count("delm:duplicate")
            bad = rng.random() < 0.08
            if bad:
                acts.append(rng.choice([n, -n - 1]))
            pp = p - N if rng.random() < 0.2 else p
            cur["call"] = "g.delete_action(%d, %s)" % (pp, acts)
            try:
                g2 = g.delete_action(pp, list(acts))
                out = "-"
                if bad or k == n:
                    ctx.spec_fail("delete-malformed", "delete_action(%d,%s) accepted on %s" % (pp, acts, T.nums), dict(replay, player=pp, actions=acts))
                else:
                    check_views(ctx, g, T, "old game after delete_action(%d,%s)" % (pp, acts), dict(replay, player=pp, actions=acts))
                    for a in reversed(dele):
                        T = T.delete(p, a)
                    g = g2
                    ctx.count("delm:ok:k=%d" % min(k, 3))
            except (IndexError, ValueError) as e:
                out = "ERR:" + type(e).__name__
                ctx.count("err:delm:" + type(e).__name__)
                if not bad and k < n:
                    ctx.spec_fail("delete", "delete_action(%d,%s) raised %s" % (pp, acts, out), dict(replay, player=pp, actions=acts))
            return "delm:%d:%s" % (pp, ints(acts)), out, g, T, is_poly

        if name in ("pv", "br", "isbr"):
            i = rng.randrange(N)
            opps = opp_profile(T, i, cls)
            bad = None
            if N >= 2 and rng.random() < 0.08:
                k = rng.randrange(N - 1)
                n = T.nums[(i + 1 + k) % N]
                if rng.random() < 0.5:
                    opps[k] = n + rng.randint(0, 1)
                    bad = "IndexError"
                else:
                    opps[k] = mixed(n + 1, "dyad")
                    bad = "ValueError"
            arg = as_arg(N, opps)
            player = g.players[i]
            rp = dict(replay, player=i, opponents=[o.tolist() if hasattr(o, "tolist") else o for o in opps])
            cur["call"] = "players[%d].%s with opponents' actions %s" % (i, name, rp["opponents"])
            if bad:
                try:
                    player.payoff_vector(arg)
                    out = "v?"
                    ctx.spec_fail("payoff_vector-malformed", "accepted malformed opponents' actions", rp)
                except (IndexError, ValueError) as e:
                    out = "ERR:" + type(e).__name__
                    ctx.count("err:pv:" + type(e).__name__)
                return "pv:%d:%s" % (i, acts_str(opps)), out, g, T, is_poly
            ev = T.expect_vector(i, opps)
            n_mixed = sum(1 for o in opps if not isinstance(o, int))
            ctx.count("pv:mixed-opponents=%d" % n_mixed)
            if name == "pv":
                v = player.payoff_vector(arg)
                got = [F(x) for x in np.asarray(v, dtype=float).tolist()]
                if len(got) != len(ev) or any(abs(a - b) > Fraction(env) for a, b in zip(got, ev)):
                    ctx.spec_fail("payoff_vector", "payoff_vector %s is not the expected payoff %s" % (
                        [float(x) for x in got], [float(x) for x in ev]), rp)
                return "pv:%d:%s" % (i, acts_str(opps)), "v" + rats(got), g, T, is_poly
            tol = rand_tol(cls)
            tolv = F(1e-8) if tol is None else F(tol)
            if name == "br":
                pert = None
                if rng.random() < 0.3:
                    pert = np.array([value("dyad" if exact else cls) for _ in range(T.nums[i])], dtype=float)
                    ctx.count("br:perturbation")
                evp = [a + (F(b) if pert is not None else 0) for a, b in zip(ev, pert if pert is not None else ev)]
                if near(evp, tolv):
                    ctx.count("skipped:near-boundary")
                    return None
                kw = {} if tol is None else {"tol": tol}
                brs = player.best_response(arg, tie_breaking=False, payoff_perturbation=pert, **kw)
                brs = [int(x) for x in brs]
                want = [a for a, va in enumerate(evp) if va >= max(evp) - tolv]
                if brs != want:
                    ctx.spec_fail("best_response", "best responses %s, definition %s" % (brs, want), dict(rp, tol=tol))
                if len(want) >= 2:
                    ctx.count("br:ties")
                sm = int(player.best_response(arg, payoff_perturbation=pert, **kw))
                k = rng.randrange(len(want))
                rd = int(player.best_response(arg, tie_breaking="random", payoff_perturbation=pert, random_state=FixedDraw(k), **kw))
                if sm != want[0] or rd != want[k]:
                    ctx.spec_fail("best_response-tiebreak", "smallest %d random(%d) %d among %s" % (sm, k, rd, want), dict(rp, tol=tol))
                return ("br:%d:%s:%s:%s" % (i, acts_str(opps), tol_tok(tol), "none" if pert is None else rats(F(x) for x in pert.tolist())),
                        "i" + ints(brs), g, T, is_poly)
            own = rand_act(T.nums[i], cls)
            if near(ev, tolv):
                ctx.count("skipped:near-boundary")
                return None
            own_val = ev[own] if isinstance(own, int) else sum(F(float(x)) * e for x, e in zip(own, ev))
            m = own_val - (max(ev) - tolv)
            if not exact and abs(m) <= Fraction(4e-12) * Fraction(scale) and not isinstance(own, int):
                ctx.count("skipped:near-boundary")
                return None
            kw = {} if tol is None else {"tol": tol}
            r = bool(player.is_best_response(own, arg, **kw))
            if r != (m >= 0):
                ctx.spec_fail("is_best_response", "is_best_response=%s, margin %s" % (r, float(m)), dict(rp, own=act_str(own), tol=tol))
            ctx.count("isbr:%s" % r)
            if m == 0:
                ctx.count("isbr:boundary-exact")
            return ("isbr:%d:%s:%s:%s" % (i, act_str(own), acts_str(opps), tol_tok(tol)), "b%d" % r, g, T, is_poly)

        if name == "nash":
            prof = [rand_act(n, cls, 0.65) for n in T.nums]
            # raise the chance of equilibria: follow pure best responses from a random profile now and then
            if rng.random() < 0.55:
                prof = [rng.randrange(n) for n in T.nums]
                for _round in range(4):
                    moved = False
                    for i in range(N):
                        ev = T.expect_vector(i, [prof[(i + 1 + k) % N] for k in range(N - 1)])
                        b = max(range(len(ev)), key=lambda a: (ev[a], -a))
                        if ev[b] > ev[prof[i]]:
                            prof[i] = b
                            moved = True
                    if not moved:
                        ctx.count("nash:br-fixed-point")
                        break
                if rng.random() < 0.3 and N >= 2:
                    k = rng.randrange(N)
                    prof[k] = rng.randrange(T.nums[k])
            tol = rand_tol(cls)
            tolv = F(1e-8) if tol is None else F(tol)
            cur["call"] = "g.is_nash(%s, tol=%s)" % ([act_str(a) for a in prof], tol)
            ok = True
            for i in range(N):
                opps = [prof[(i + 1 + k) % N] for k in range(N - 1)]
                ev = T.expect_vector(i, opps)
                own = prof[i]
                own_val = ev[own] if isinstance(own, int) else sum(F(float(x)) * e for x, e in zip(own, ev))
                m = own_val - (max(ev) - tolv)
                if not exact and abs(m) <= Fraction(4e-12) * Fraction(scale) and not (m == 0 and isinstance(own, int) and tolv == 0):
                    ctx.count("skipped:near-boundary")
                    return None
                ok = ok and m >= 0
            kw = {} if tol is None else {"tol": tol}
            r = bool(g.is_nash(tuple(prof), **kw))
            if r != ok:
                ctx.spec_fail("is_nash", "is_nash=%s, definition %s" % (r, ok),
                              dict(replay, profile=[act_str(a) for a in prof], tol=tol))
            ctx.count("nash:%s" % r)
            return "nash:%s:%s" % (acts_str(prof), tol_tok(tol)), "b%d" % r, g, T, is_poly

        if name == "dom":
            i = rng.randrange(N)
            n = T.nums[i]
            a = rng.randrange(n)
            tol = rng.choice([None, None, 0.25, 1.0, 2.0 ** -20, 0, 0.0, 1e-8, 0.5])
            tolv = F(1e-8) if tol is None else F(tol)
            others = [(i + 1 + k) % N for k in range(N - 1)]
            cols = list(itertools.product(*[range(T.nums[j]) for j in others]))

            def ui(b, col):
                full = [0] * N
                full[i] = b
                for j, c in zip(others, col):
                    full[j] = c
                return F(T.u[tuple(full)][i])
            kw = {} if tol is None else {"tol": tol}
            player = g.players[i]
            rp = dict(replay, player=i, action=a, tol=tol)
            cur["call"] = "players[%d].is_dominated(%d, tol=%s)" % (i, a, tol)
            if N == 1:
                r = bool(player.is_dominated(a, **kw))
                want = max(ui(b, ()) for b in range(n)) > ui(a, ()) + tolv
                if r != want:
                    ctx.spec_fail("is_dominated", "1-player is_dominated=%s, definition %s" % (r, want), rp)
                ctx.count("dom0:%s" % r)
                return "dom0:%d:%d:%s" % (i, a, tol_tok(tol)), "b%d" % r, g, T, is_poly
            if n == 1:
                r = bool(player.is_dominated(a, **kw))
                if r:
                    ctx.spec_fail("is_dominated", "only action reported dominated", rp)
                return "dompure:%d:%d:%s" % (i, a, tol_tok(tol)), "b%d" % r, g, T, is_poly
            rows = [b for b in range(n) if b != a]
            if len(cols) > 30:
                return None
            if scale > 1e6:
                # minmax works in doubles after shifting the matrix by a constant: payoffs spread over
                # 1e15..1e22 lose the small entries; conditioning of the LP belongs to C04, not to the convention
                ctx.count("skipped:dom-ill-scaled")
                return None
            Dm = [[ui(b, c) - ui(a, c) for c in cols] for b in rows]
            sol = game_value(Dm)
            if sol is None:
                ctx.count("dom:no-certificate")
                return None
            v, x, y = sol
            if abs(v - tolv) <= Fraction(1, 10 ** 9) * Fraction(scale):
                ctx.count("skipped:near-boundary")
                return None
            r = bool(player.is_dominated(a, **kw))
            if r != (v > tolv):
                ctx.spec_fail("is_dominated", "is_dominated=%s but the value of the domination game is %s (tol %s)" % (r, v, tolv), rp)
            if rng.random() < 0.3:
                r2 = bool(player.is_dominated(a, method="highs", **kw))
                if r2 != r:
                    ctx.spec_fail("is_dominated-linprog", "linprog path says %s, minmax path %s" % (r2, r), rp)
            da = player.dominated_actions(**kw)
            if (a in da) != r:
                ctx.spec_fail("dominated_actions", "dominated_actions %s vs is_dominated(%d)=%s" % (da, a, r), rp)
            ctx.count("dom:%s" % r)
            pure_dom = any(all(ui(b, c) > ui(a, c) + tolv for c in cols) for b in rows)
            if r and not pure_dom:
                ctx.count("dom:mixed-only")
            if rng.random() < 0.5:
                return "dompure:%d:%d:%s" % (i, a, tol_tok(tol)), "b%d" % pure_dom, g, T, is_poly
            return ("domcert:%d:%d:%s:%s:%s:%s" % (i, a, tol_tok(tol), rats(x), rats(y), rat(v)), "b%d" % r, g, T, is_poly)

        cur["call"] = name
        if name == "profarr":
            ppa = g.payoff_profile_array
            return "profarr", "v" + rats(F(x) for x in ppa.ravel().tolist()), g, T, is_poly
        if name == "reprof":
            if N == 2 and T.nums[0] == T.nums[1] and False:
                return None
            ppa = g.payoff_profile_array
            return "reprof", "-", NormalFormGame(ppa), T, is_poly
        if name == "replayers":
            g2 = NormalFormGame([Player(p.payoff_array.copy()) for p in g.players])
            return "replayers", "-", g2, T, is_poly
        if name == "gam":
            if rng.random() < 0.5:
                s = to_gam(g)
                g2 = GAMReader.from_string(s)
            else:
                fn = os.path.join(tmpdir, "rt.gam")
                to_gam(g, fn)
                g2 = from_gam(fn)
                with open(fn) as f:
                    s = f.read()
            toks = s.split()
            try:
                if int(toks[0]) != N or tuple(int(t) for t in toks[1:1 + N]) != T.nums:
                    raise ValueError
                nums_w = [gam_token_value(t) for t in toks[1 + N:]]
                na = int(np.prod(T.nums))
                if len(nums_w) != N * na:
                    raise ValueError
            except ValueError:
                ctx.spec_fail("gam-format", "written GAM text is not N, nums, N*prod(nums) numbers", dict(replay, text=s[:500]))
                return None
            # spec: number k of player i's block is the payoff at the profile whose first player's action varies fastest
            for i in range(N):
                for k, q in enumerate(itertools.product(*[range(n) for n in reversed(T.nums)])):
                    if not same(nums_w[i * na + k], T.u[tuple(reversed(q))][i]):
                        ctx.spec_fail("gam-write", "player %d number %d is %r, payoff at %s is %r" % (
                            i, k, nums_w[i * na + k], tuple(reversed(q)), T.u[tuple(reversed(q))][i]), dict(replay, text=s[:500]))
                        break
            out = "g%s/%s" % (ints(T.nums), ";".join(rats(F(x) for x in nums_w[i * na:(i + 1) * na]) for i in range(N)))
            # spec: the game read back holds exactly the numbers of the game written (integers as integers,
            # doubles bit for bit, same dtype kind), in every player's array
            try:
                bad = None
                for i, pl in enumerate(g2.players):
                    if pl.payoff_array.dtype.kind != T.kind:
                        bad = "player %d dtype %s, payoffs are of kind %r" % (i, pl.payoff_array.dtype, T.kind)
                        break
                    nested = pl.payoff_array.tolist()
                    for q in T.profiles():
                        x = nested
                        for k in q[i:] + q[:i]:
                            x = x[k]
                        if not same(x, T.u[q][i]):
                            bad = "player %d at %s: read back %r, written %r" % (i, q, x, T.u[q][i])
                            break
                    if bad:
                        break
            except Exception as e:
                bad = "reading the result raised %s: %s" % (type(e).__name__, e)
            if bad:
                ctx.spec_fail("gam-roundtrip", "from_gam(to_gam(g)) is not g: %s" % bad, dict(replay, text=s[:800]))
            if T.kind == "i" and any(abs(x) > 2 ** 53 for v in T.u.values() for x in v):
                ctx.count("gam:int>2^53")
            return "gam", out, g2, T, is_poly
        if name == "logit":
            which = rng.randrange(3)
            if cls in EXT:
                # only the constructor that the anchor names; its arithmetic overflows on these payoffs,
                # which is irrelevant here: the stored arrays must stay what they are
                with np.errstate(all="ignore"), warnings.catch_warnings():
                    warnings.simplefilter("ignore")
                    LogitDynamics(g, beta=1.0)
                ctx.count("dynamics:LogitDynamics")
            elif which == 0 or N != 2:
                LogitDynamics(g, beta=rng.choice([0.5, 1.0, 2.0]))
                ctx.count("dynamics:LogitDynamics")
            elif which == 1:
                gt.FictitiousPlay(g)
                ctx.count("dynamics:FictitiousPlay")
            else:
                gt.StochasticFictitiousPlay(g, distribution=__import__("scipy.stats").stats.norm())
                ctx.count("dynamics:StochasticFictitiousPlay")
            return "logit", "-", g, T, is_poly
        if name == "polyrt":
            if not is_poly or N < 2:
                return None
            pg = PolymatrixGame.from_nf(g)
            g2 = pg.to_nfg()
            ctx.count("polymatrix:roundtrip")
            err = max(abs(F(float(g2[p][i] if N > 1 else g2[p[0]])) - F(T.u[p][i])) for p in T.profiles() for i in range(N))
            if err > Fraction(1e-9) * Fraction(scale):
                ctx.spec_fail("polymatrix-roundtrip", "to_nfg(from_nf(g)) differs from g by %g" % float(err), replay)
            return "polyrt", "-", g, T, is_poly
        raise AssertionError(name)

    # ---- comparison of one history ---------------------------------------------------------------------
    def make_cmp(env_ops, env):
        def cmp(mo, impl):
            if mo == impl:
                return None
            a, b = mo.split("|"), impl.split("|")
            if len(a) != len(b):
                return "different number of calls"
            for k, (x, y) in enumerate(zip(a, b)):
                if x == y:
                    continue
                xo, xs = x.split("#")
                yo, ys = y.split("#")
                if xs != ys:
                    return "stored payoff arrays differ after call %d" % k
                if k in env_ops and xo[:1] == "v" and yo[:1] == "v":
                    p, q = parse_rats(xo[1:]), parse_rats(yo[1:])
                    if len(p) == len(q) and all(abs(s - t) <= env for s, t in zip(p, q)):
                        continue
                return "result of call %d differs" % k
            return None
        return cmp

    # ---- fixed regression inputs (defects found earlier; each once through the model as well) ----------------
    def fixed(line, g, calls):
        """calls: list of (token, function(g) -> (out string, g'))"""
        outs = ["-#" + state_str(g)]
        for tok, fn in calls:
            out, g = fn(g)
            outs.append(out + "#" + state_str(g))
        cases.append(Case(line, "|".join(outs), tag="regression"))
        return g

    def _set(key, vals):
        def fn(g):
            g[key] = vals
            return "-", g
        return fn

    def _get(key):
        return lambda g: ("v" + rats(F(x) for x in np.atleast_1d(g[key]).tolist()), g)
    # symmetric-matrix constructor: both players shared one ndarray (fixed in b12fc74)
    A0 = np.array([[-2, -7], [-8, 4]])
    g = fixed("C14 run ctor=sym n=2 data=-2,-7,-8,4 ops=set:1,0:-5,-3|get:0,1", NormalFormGame(A0),
              [("set", _set((1, 0), (-5, -3))), ("get", _get((0, 1)))])
    if list(g[0, 1]) != [-7, -8] or A0.tolist() != [[-2, -7], [-8, 4]]:
        ctx.spec_fail("sym-shared-array", "NormalFormGame([[-2,-7],[-8,4]]); g[1,0]=(-5,-3) changed g[0,1] to %s / the "
                      "caller's matrix to %s" % (list(g[0, 1]), A0.tolist()), {"matrix": [[-2, -7], [-8, 4]], "set": [1, 0]})
    # LogitDynamics rewrote the payoffs in place (fixed in 170b964)
    g = NormalFormGame(np.array([[4., 0.], [3., 2.]]))

    def _logit(g):
        LogitDynamics(g)
        return "-", g
    g = fixed("C14 run ctor=sym n=2 data=4,0,3,2 ops=logit|get:0,0", g, [("logit", _logit), ("get", _get((0, 0)))])
    if g.players[0].payoff_array.tolist() != [[4., 0.], [3., 2.]]:
        ctx.spec_fail("logit-inplace", "LogitDynamics(g) changed g's payoffs to %s" % g.players[0].payoff_array.tolist(), {})
    # best_response with a perturbation on a 1-player game added it to the stored array (fixed in 1eb1fbb)
    p1 = Player(np.array([1., 2., .5]))
    g = NormalFormGame([p1])

    def _br(g):
        r = g.players[0].best_response(None, payoff_perturbation=np.array([.25, -3., 0.]), tie_breaking=False)
        return "i" + ints(r), g
    g = fixed("C14 run ctor=players shapes=3 datas=1,2,1/2 ops=br:0:-:%s:1/4,-3,0" % rat(F(1e-8)), g, [("br", _br)])
    if g.players[0].payoff_array.tolist() != [1., 2., .5]:
        ctx.spec_fail("br-perturbation-inplace", "best_response(payoff_perturbation=...) changed the stored payoffs", {})
    # GAM text must carry every digit (fixed in 3cca173)
    vals = [0.1, 0.2, 0.1 + 0.2, 1 / 3, 2 / 3, 123456.78901234567, 1e-5, -0.30000000000000004, 1.0000000000000002, 5e-324, 7.0, 0.7]
    D = np.array(vals).reshape(3, 2, 2)
    g0 = NormalFormGame(D)
    g1 = GAMReader.from_string(GAMWriter.to_string(g0))
    if g1.payoff_profile_array.tolist() != D.tolist():
        ctx.spec_fail("gam-digits", "GAM round trip of a 3x2 game with 17-digit payoffs is not exact", {"payoff_profile_array": D.tolist()})

    # integer payoffs beyond 2^53 must come back as the same integers (no detour through float64), int dtype kept:
    # writer -> reader through a string and through a file, and the reader on hand-written text
    big = [2 ** 53 + 1, -(2 ** 53 + 1), 2 ** 62 - 1, -(2 ** 63), 2 ** 63 - 1, 1234567890123456789, 10 ** 17 + 1, 7,
           -999999999999999999, 0, 36028797018963969, -3]
    Db = np.array(big, dtype=np.int64).reshape(3, 2, 2)
    gb = NormalFormGame(Db)
    fnb = os.path.join(tmpdir, "big.gam")
    to_gam(gb, fnb)
    hand = "2\n3 2\n\n" + " ".join(str(Db[a, b, i]) for i in range(2) for b in range(2) for a in range(3)) + "\n"
    for how, rd in (("string", lambda: GAMReader.from_string(to_gam(gb))), ("file", lambda: from_gam(fnb)),
                    ("hand-written text", lambda: GAMReader.from_string(hand))):
        try:
            g1 = rd()
            back = g1.payoff_profile_array
            okb = back.dtype.kind == "i" and back.tolist() == Db.tolist()
            msg = "dtype %s, payoffs %s" % (back.dtype, back.tolist())
        except Exception as e:
            okb, msg = False, "raised %s: %s" % (type(e).__name__, e)
        if not okb:
            ctx.spec_fail("gam-int-exact", "GAM %s round trip of an int64 game with payoffs %s: %s" % (how, big, msg),
                          {"payoff_profile_array": Db.tolist(), "how": how, "text": hand if how != "file" else open(fnb).read()})
    fixed("C14 run ctor=prof shape=3,2,2 data=%s ops=gam|get:0,0" % rats(big), NormalFormGame(Db),
          [("gam", lambda g: ("g3,2/" + ";".join(rats(int(Db[a, b, i]) for b in range(2) for a in range(3)) for i in range(2)),
                              GAMReader.from_string(to_gam(g)))), ("get", _get((0, 0)))])

    alphabet = ["get", "set", "del", "pv", "br", "isbr", "nash", "dom", "profarr", "reprof", "replayers", "gam",
                "logit", "polyrt", "delm"]
    weights = [3, 5, 5, 5, 4, 4, 4, 4, 2, 2, 1, 3, 2, 2, 3]

    ext_ops = ["get", "set", "del", "delm", "profarr", "reprof", "replayers", "gam", "gam", "logit"]

    def history(names=None, game=None):
        if game is None:
            try:
                game = make_game()
            except Exception as e:      # the library refused / crashed on a valid construction
                ctx.spec_fail("exception:constructor", "constructor raised %s: %s" % (type(e).__name__, e), {"call": cur.get("call")})
                return
        ctor, g, T, cls, is_poly, rep = game
        exact = cls in ("int", "dyad")
        env = Fraction(0) if exact else Fraction(1e-12) * Fraction(envelope_scale(T))
        ctx.count("ctor:" + ctor.split()[0][5:])
        ctx.count("class:" + cls)
        ctx.count("N=%d" % T.N)
        replay = {"ctor": rep, "ops": []}

        def views(where):
            try:
                check_views(ctx, g, T, where, replay)
                return True
            except Exception as e:
                ctx.spec_fail("exception:views", "%s: reading the game raised %s: %s" % (where, type(e).__name__, e), replay)
                return False
        if not views("after construction"):
            return
        L = rng.randint(1, 4) if names is None else len(names)
        toks, outs, env_ops = [], ["-#" + state_str(g)], set()
        big = T.N >= 2 and sum(1 for n in T.nums if n >= 2) >= 2
        for k in range(L):
            name = rng.choices(alphabet, weights)[0] if names is None else names[k]
            if cls in EXT and name not in ext_ops:
                name = rng.choice(ext_ops)
            cur["call"] = name
            try:
                res = do_op(g, T, cls, is_poly, name, replay)
            except Exception as e:      # a valid call raised: a failing input, not a tool failure
                ctx.spec_fail("exception:" + name, "%s raised %s: %s" % (cur.get("call"), type(e).__name__, e),
                              dict(replay, call=cur.get("call")))
                break
            if res is None:
                continue
            tok, out, g, T, is_poly = res
            toks.append(tok)
            replay = {"ctor": rep, "ops": list(toks)}
            if name == "pv" and not exact:
                env_ops.add(len(toks))
            outs.append(out + "#" + state_str(g))
            # definition-level check of every view after every call
            if not views("after call %d (%s)" % (len(toks), tok.split(":")[0])):
                break
            ctx.count("call:" + tok.split(":")[0])
            env = max(env, Fraction(0) if exact else Fraction(1e-12) * Fraction(envelope_scale(T)))
        ctx.count("history-length=%d" % len(toks))
        line = "C14 run %s ops=%s" % (ctor, "|".join(toks) if toks else "-")
        cases.append(Case(line, "|".join(outs), nontrivial=big and len(toks) >= 1, cmp=make_cmp(env_ops, env),
                          tag="history", meta=replay))

    for _ in range(ctx.n(2000, 20000)):
        history()

    # ---- explicit tolerances x tiny margins ------------------------------------------------------------------------
    # A game in which player i's action b ("twin") pays exactly a's payoff + m at every opponent profile (all
    # payoffs dyadic, so every comparison the code makes is exact or far from its rounding error), every
    # tol-taking call with every kind of tolerance argument, margins just below / at / just above it.
    TOLS = [None, 0, 0.0, 2.0 ** -40, 1e-12, 1e-8, 1e-6, 0.5]
    AROUND = [2.0 ** -e for e in range(26, 32)]          # 2^-31 .. 2^-26, around the default 1e-8

    def margins_for(t):
        t = float(t)
        ms = list(AROUND) + [0.0]
        if t == 0:
            ms += [2.0 ** -40, 2.0 ** -20]
        elif t == 2.0 ** -40:
            ms += [2.0 ** -41, 2.0 ** -40, 2.0 ** -39, 3 * 2.0 ** -41]
        elif t == 1e-12:
            ms += [2.0 ** -40, 2.0 ** -39]
        elif t == 1e-8:
            ms += [2.0 ** -27, 2.0 ** -26, 2.0 ** -27, 2.0 ** -26]
        elif t == 1e-6:
            ms += [2.0 ** -20, 2.0 ** -19, 2.0 ** -20, 2.0 ** -19]
        elif t == 0.5:
            ms += [0.5 - 2.0 ** -30, 0.5, 0.5 + 2.0 ** -30, 0.5, 0.5 - 2.0 ** -30]
        return ms

    def tol_history():
        N = rng.choice([1, 2, 2, 3, 3, 4])
        while True:
            nums = tuple(rng.randint(1, 3) for _ in range(N))
            i = rng.randrange(N)
            if nums[i] >= 2:
                break
        others = [(i + 1 + k) % N for k in range(N - 1)]
        tol = rng.choice(TOLS)
        t = F(1e-8) if tol is None else F(tol)
        m = rng.choice(margins_for(t))
        a, b = rng.sample(range(nums[i]), 2)
        const_others = rng.random() < 0.6      # the other players are indifferent: is_nash hinges on player i alone
        u = {}
        profs = list(itertools.product(*[range(n) for n in nums]))
        oprofs = list(itertools.product(*[range(nums[j]) for j in others]))
        base = {r: rng.randint(-36, 36) / 4.0 for r in oprofs}
        special = {c: rng.choice(oprofs) for c in range(nums[i])}
        mode = {c: rng.choice(["below", "somewhere"]) if len(oprofs) >= 2 else "below" for c in range(nums[i])}
        for p in profs:
            r = tuple(p[j] for j in others)
            v = []
            for j in range(N):
                if j != i:
                    v.append(0.0 if const_others else rng.randint(-8, 8) / 4.0)
                elif p[i] == a:
                    v.append(base[r])
                elif p[i] == b:
                    v.append(base[r] + m)
                elif mode[p[i]] == "below":
                    v.append(base[r] - 1.0 - 0.25 * p[i])
                else:       # better than a at one opponent profile, clearly worse elsewhere
                    v.append(base[r] + 2.0 if r == special[p[i]] else base[r] - 3.0)
            u[p] = tuple(v)
        T = Truth(nums, u)
        D = np.empty(nums + (N,))
        for p, v in u.items():
            D[p] = v
        cur["call"] = {"ctor": "prof", "payoff_profile_array": D.tolist()}
        rep_ = {"ctor": "prof", "payoff_profile_array": D.tolist(), "twin": {"player": i, "a": a, "b": b, "margin": m}, "tol": repr(tol)}
        try:
            g = NormalFormGame(D)
        except Exception as e:
            ctx.spec_fail("exception:constructor", "constructor raised %s: %s" % (type(e).__name__, e), rep_)
            return
        ctor = "ctor=prof shape=%s data=%s" % (ints(D.shape), rats(F(x) for x in D.ravel().tolist()))
        st = state_str(g)
        toks, outs = [], ["-#" + st]
        kw = {} if tol is None else {"tol": tol}
        player = g.players[i]
        ctx.count("tol:arg=%r" % (tol,))
        rel = "tie" if F(m) == t else ("below" if F(m) < t else "above")
        ctx.count("tol:margin-%s" % rel)
        ctx.count("tol:N=%d" % N)

        def ui(c, r):
            full = [0] * N
            full[i] = c
            for j, x in zip(others, r):
                full[j] = x
            return F(u[tuple(full)][i])

        def emit(tok, out):
            toks.append(tok)
            outs.append(out + "#" + state_str(g))

        def guarded(what, fn):
            try:
                return True, fn()
            except Exception as e:
                ctx.spec_fail("exception:" + what, "%s raised %s: %s" % (what, type(e).__name__, e), dict(rep_, call=what))
                return False, None

        # -- is_dominated / dominated_actions (N = 1 branch, LP branch, method option) ---------------------------
        def exact_dom(c):
            """(dominated?, certificate or None, decidable in floating point?)"""
            rows = [x for x in range(nums[i]) if x != c]
            if N == 1:
                return max(ui(x, ()) for x in rows + [c]) > ui(c, ()) + t, None, True
            Dm = [[ui(x, r) - ui(c, r) for r in oprofs] for x in rows]
            sol = game_value(Dm)
            if sol is None:
                return None, None, False
            v, x, y = sol
            return v > t, (x, y, v), abs(v - t) > Fraction(1, 10 ** 11) * 16
        want, cert, ok_fp = exact_dom(a)
        if want is not None and ok_fp:
            okc, r = guarded("is_dominated", lambda: bool(player.is_dominated(a, **kw)))
            if okc:
                if r != want:
                    ctx.spec_fail("is_dominated-tol", "is_dominated(%d, tol=%r)=%s on a game where action %d beats it by exactly %r at "
                                  "every profile; definition (value > tol): %s" % (a, tol, r, b, m, want), dict(rep_, action=a))
                ctx.count("tol:dom:%s" % r)
                if N == 1:
                    emit("dom0:%d:%d:%s" % (i, a, tol_tok(tol)), "b%d" % r)
                else:
                    x, y, v = cert
                    emit("domcert:%d:%d:%s:%s:%s:%s" % (i, a, tol_tok(tol), rats(x), rats(y), rat(v)), "b%d" % r)
                    pure_dom = any(all(ui(c, q) > ui(a, q) + t for q in oprofs) for c in range(nums[i]) if c != a)
                    emit("dompure:%d:%d:%s" % (i, a, tol_tok(tol)), "b%d" % pure_dom)
            # dominated_actions forwards tol: compare the whole list where every action is decidable
            full = [exact_dom(c) for c in range(nums[i])]
            if all(w is not None and o for w, _, o in full):
                okc, da = guarded("dominated_actions", lambda: [int(x) for x in player.dominated_actions(**kw)])
                wl = [c for c in range(nums[i]) if full[c][0]]
                if okc and da != wl:
                    ctx.spec_fail("dominated_actions-tol", "dominated_actions(tol=%r)=%s, definition %s" % (tol, da, wl), rep_)
            # linprog path: the solver's own tolerances are ~1e-9, so only margins it can resolve
            if N >= 2 and abs((cert[2] if cert else 0) - t) >= Fraction(1, 2 ** 21):
                okc, r2 = guarded("is_dominated(method)", lambda: bool(player.is_dominated(a, method="highs", **kw)))
                if okc and r2 != want:
                    ctx.spec_fail("is_dominated-linprog-tol", "is_dominated(%d, tol=%r, method='highs')=%s, definition %s" % (a, tol, r2, want), rep_)
                ctx.count("tol:dom:linprog")

        # -- best_response / is_best_response against a pure opponent profile --------------------------------------
        r0 = rng.choice(oprofs)
        opps = list(r0)
        arg = as_arg(N, opps)
        ev = [ui(c, r0) for c in range(nums[i])]
        okc, brs = guarded("best_response", lambda: [int(x) for x in player.best_response(arg, tie_breaking=False, **kw)])
        if okc:
            wl = [c for c, vc in enumerate(ev) if vc >= max(ev) - t]
            if brs != wl:
                ctx.spec_fail("best_response-tol", "best_response(tol=%r, tie_breaking=False)=%s, definition %s (payoffs %s)" % (
                    tol, brs, wl, [float(x) for x in ev]), dict(rep_, opponents=opps))
            emit("br:%d:%s:%s:none" % (i, acts_str(opps), tol_tok(tol)), "i" + ints(brs))
        for own in (a, b):
            okc, r = guarded("is_best_response", lambda: bool(player.is_best_response(own, arg, **kw)))
            if okc:
                w = ev[own] >= max(ev) - t
                if r != w:
                    ctx.spec_fail("is_best_response-tol", "is_best_response(%d, tol=%r)=%s, definition %s" % (own, tol, r, w),
                                  dict(rep_, opponents=opps))
                emit("isbr:%d:p%d:%s:%s" % (i, own, acts_str(opps), tol_tok(tol)), "b%d" % r)
        # a mixed own action between a and b (dyadic weights): its payoff lies m/2 below b's
        if True:
            xmix = [0.0] * nums[i]
            xmix[a], xmix[b] = 0.5, 0.5
            okc, r = guarded("is_best_response", lambda: bool(player.is_best_response(np.array(xmix), arg, **kw)))
            if okc:
                w = (ev[a] + ev[b]) / 2 >= max(ev) - t
                if r != w:
                    ctx.spec_fail("is_best_response-tol", "is_best_response(mixed a/b, tol=%r)=%s, definition %s" % (tol, r, w),
                                  dict(rep_, opponents=opps))
                emit("isbr:%d:m%s:%s:%s" % (i, rats(F(x) for x in xmix), acts_str(opps), tol_tok(tol)), "b%d" % r)

        # -- is_nash on the profile where player i plays a ------------------------------------------------------------
        prof = [0] * N
        prof[i] = a
        for j, x in zip(others, r0):
            prof[j] = x
        okn = True
        for j in range(N):
            evj = T.expect_vector(j, [prof[(j + 1 + k) % N] for k in range(N - 1)])
            okn = okn and evj[prof[j]] >= max(evj) - t
        okc, r = guarded("is_nash", lambda: bool(g.is_nash(tuple(prof), **kw)))
        if okc:
            if r != okn:
                ctx.spec_fail("is_nash-tol", "is_nash(%s, tol=%r)=%s, definition %s" % (prof, tol, r, okn), dict(rep_, profile=prof))
            ctx.count("tol:nash:%s" % r)
            emit("nash:%s:%s" % (acts_str(prof), tol_tok(tol)), "b%d" % r)
        check_views(ctx, g, T, "after the tolerance calls", rep_)
        cases.append(Case("C14 run %s ops=%s" % (ctor, "|".join(toks) if toks else "-"), "|".join(outs),
                          nontrivial=True, tag="tolerance", meta=rep_))

    for _ in range(ctx.n(700, 6000)):
        tol_history()

    # ---- every pair / triple of state-changing and observing calls on small games -------------------------
    seqs = list(itertools.product(["set", "del", "gam", "reprof", "logit", "pv", "nash"], repeat=2))
    if ctx.thorough:
        seqs += list(itertools.product(["set", "del", "gam", "reprof", "logit", "get", "br"], repeat=3))
    for s in seqs:
        history(names=list(s))
    ctx.extra["op_sequences_enumerated"] = len(seqs)

    # ---- a GAM round trip with more than 1000 entries, 17-digit payoffs ------------------------------------
    for nums in ([(7, 7, 7)] if not ctx.thorough else [(7, 7, 7), (4, 5, 4, 4), (36, 15)]):
        N = len(nums)
        u = {p: tuple(value("f17") for _ in range(N)) for p in itertools.product(*[range(n) for n in nums])}
        D = np.empty(nums + (N,))
        for p, v in u.items():
            D[p] = v
        g = NormalFormGame(D)
        ctx.count("gam:>1000-entries")
        history(names=["gam", "get"], game=("ctor=prof shape=%s data=%s" % (ints(D.shape), rats(F(x) for x in D.ravel().tolist())),
                                            g, Truth(nums, u), "f17", False, {"ctor": "prof", "nums": list(nums), "seeded": True}))

    ctx.run_cases(cases)
    try:
        for f in os.listdir(tmpdir):
            os.remove(os.path.join(tmpdir, f))
        os.rmdir(tmpdir)
    except OSError:
        pass
