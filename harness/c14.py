"""C14 — one payoff convention across all views of a game: correspondence + spec run.

Every case is a *history*: a constructor followed by <= 4 calls on the game.  The real code's
result of each call and the payoff arrays it stores after each call (exact values of every
cell of every player's array, in C order) are compared with the model's state machine
(`QE.C14.run`).  Independently of the model, a definition-level oracle (a dict profile ->
payoff tuple, updated only by the meaning of each call) checks after every call that all
views of the code's game agree with it and that the call's result is what its definition says.
"""
import itertools
import os
import tempfile
from fractions import Fraction

import numpy as np

import re
import warnings

from .common import Case, ints, rat, rats, parse_rats, fx

FILES = ["quantecon/game_theory/normal_form_game.py", "quantecon/game_theory/polymatrix_game.py",
         "quantecon/game_theory/game_converters.py", "quantecon/game_theory/logitdyn.py",
         "quantecon/optimize/minmax.py"]


# ----------------------------------------------------------------------------------------------
# canonical strings

def F(x):
    return Fraction(x)


def arr_str(a):
    return ints(a.shape) + "/" + rats(F(x) for x in a.ravel().tolist())


def state_str(g):
    return ";".join(arr_str(p.payoff_array) for p in g.players)


def act_str(a):
    if isinstance(a, (int, np.integer)):
        return "p%d" % a
    return "m" + rats(F(float(x)) for x in a)


def acts_str(acts):
    return ";".join(act_str(a) for a in acts) if len(acts) else "-"


# ----------------------------------------------------------------------------------------------
# definition-level oracle ("truth"): u[profile] = tuple of the N payoffs (python numbers)

def same(x, w):
    """the code's number x IS the oracle's number w: same kind (integer / float), integers equal as
    integers (no detour through float64), floats equal bit for bit (so -0.0 is not 0.0)"""
    xf, wf = isinstance(x, float), isinstance(w, float)
    if xf != wf:
        return False
    if wf:
        return fx(x) == fx(w)
    return int(x) == int(w)


_INT_TOKEN = re.compile(r"[+-]?[0-9]+$")


def gam_token_value(t):
    """the number a GAM token denotes: an integer literal is an integer (exactly), anything else a double"""
    return int(t) if _INT_TOKEN.match(t) else float(t)


class Truth:
    def __init__(self, nums, u, kind=None):
        self.nums, self.u = tuple(nums), u
        if kind is None:
            v0 = next(iter(u.values()))[0]
            kind = "f" if isinstance(v0, float) else "i"
        self.kind = kind      # 'i': integer payoffs (int dtype), 'f': doubles

    def copy(self):
        return Truth(self.nums, dict(self.u), self.kind)

    @property
    def N(self):
        return len(self.nums)

    def profiles(self):
        return itertools.product(*[range(n) for n in self.nums])

    def delete(self, p, a):
        nums = list(self.nums)
        nums[p] -= 1
        u = {}
        for prof, v in self.u.items():
            if prof[p] == a:
                continue
            q = list(prof)
            if q[p] > a:
                q[p] -= 1
            u[tuple(q)] = v
        return Truth(nums, u, self.kind)

    def sigma(self, j, act, b):
        """probability that player j's action `act` puts on pure action b"""
        if isinstance(act, (int, np.integer)):
            return Fraction(1 if b == act else 0)
        return F(float(act[b]))

    def expect_vector(self, i, opps):
        """exact expected payoff of each own action of player i; opps in the order
        i+1, ..., N-1, 0, ..., i-1 (the library's convention for one player's opponents)"""
        N = self.N
        others = [(i + 1 + k) % N for k in range(N - 1)]
        out = []
        for a in range(self.nums[i]):
            tot = Fraction(0)
            for prof in itertools.product(*[range(self.nums[j]) for j in others]):
                w = Fraction(1)
                for j, act, b in zip(others, opps, prof):
                    w *= self.sigma(j, act, b)
                    if w == 0:
                        break
                if w == 0:
                    continue
                full = [0] * N
                full[i] = a
                for j, b in zip(others, prof):
                    full[j] = b
                tot += w * F(self.u[tuple(full)][i])
            out.append(tot)
        return out


def check_views(ctx, g, T, where, replay):
    """all views of the code's game agree with the definition-level oracle"""
    N = T.N
    if g.N != N or tuple(g.nums_actions) != T.nums:
        ctx.spec_fail("views", "%s: N/nums_actions %s differ from %s" % (where, g.nums_actions, T.nums), replay)
        return
    ppa = g.payoff_profile_array
    if ppa.shape != T.nums + (N,):
        ctx.spec_fail("views", "%s: payoff_profile_array shape %s" % (where, ppa.shape), replay)
        return
    kinds = [ppa.dtype.kind, np.dtype(g.dtype).kind] + [p.payoff_array.dtype.kind for p in g.players]
    if any(k != T.kind for k in kinds):
        ctx.spec_fail("dtype", "%s: dtype kinds %s (profile array, game, players), payoffs are of kind %r" % (where, kinds, T.kind), replay)
        return
    ppl = ppa.tolist()
    pls = [p.payoff_array.tolist() for p in g.players]
    for i, p in enumerate(g.players):
        if p.payoff_array.shape != T.nums[i:] + T.nums[:i]:
            ctx.spec_fail("views", "%s: player %d array shape %s" % (where, i, p.payoff_array.shape), replay)
            return

    def dig(nested, idx):
        for k in idx:
            nested = nested[k]
        return nested
    for prof in T.profiles():
        want = T.u[prof]
        a = dig(ppl, prof)
        if N == 1:
            b = np.atleast_1d(g[prof[0]]).tolist()
        else:
            b = g[prof].tolist()
        c = [dig(pls[i], prof[i:] + prof[:i]) for i in range(N)]
        for i in range(N):
            if not (same(a[i], want[i]) and same(b[i], want[i]) and same(c[i], want[i])):
                ctx.spec_fail("views", "%s: payoff of player %d at %s: profile_array %r, g[.] %r, players[i] %r, "
                              "definition %r" % (where, i, prof, a[i], b[i], c[i], want[i]),
                              dict(replay, profile=list(prof), player=i))
                return


# ----------------------------------------------------------------------------------------------
# exact value of a matrix game (support enumeration, Fractions) for the domination oracle

def solve_lin(A, b):
    n = len(A)
    M = [list(r) + [bb] for r, bb in zip(A, b)]
    for c in range(n):
        piv = next((r for r in range(c, n) if M[r][c] != 0), None)
        if piv is None:
            return None
        M[c], M[piv] = M[piv], M[c]
        pv = M[c][c]
        M[c] = [x / pv for x in M[c]]
        for r in range(n):
            if r != c and M[r][c] != 0:
                f = M[r][c]
                M[r] = [x - f * y for x, y in zip(M[r], M[c])]
    return [M[r][n] for r in range(n)]


def game_value(D):
    """(v, x, y) for the zero-sum game with row-player payoff matrix D (Fractions); exact"""
    m, n = len(D), len(D[0])
    shift = 1 - min(min(r) for r in D)
    E = [[x + shift for x in r] for r in D]
    for k in range(1, min(m, n) + 1):
        for R in itertools.combinations(range(m), k):
            for C in itertools.combinations(range(n), k):
                # x on R equalises the columns in C; y on C equalises the rows in R
                A = [[E[r][c] for r in R] + [Fraction(-1)] for c in C] + [[Fraction(1)] * k + [Fraction(0)]]
                sx = solve_lin(A, [Fraction(0)] * k + [Fraction(1)])
                if sx is None or min(sx[:k]) < 0:
                    continue
                v = sx[k]
                A = [[E[r][c] for c in C] + [Fraction(-1)] for r in R] + [[Fraction(1)] * k + [Fraction(0)]]
                sy = solve_lin(A, [Fraction(0)] * k + [Fraction(1)])
                if sy is None or min(sy[:k]) < 0 or sy[k] != v:
                    continue
                x = [Fraction(0)] * m
                y = [Fraction(0)] * n
                for r, t in zip(R, sx):
                    x[r] = t
                for c, t in zip(C, sy):
                    y[c] = t
                if all(sum(x[r] * E[r][c] for r in range(m)) >= v for c in range(n)) and \
                        all(sum(E[r][c] * y[c] for c in range(n)) <= v for r in range(m)):
                    return v - shift, x, y
    return None


# ----------------------------------------------------------------------------------------------

def gam_num(t):
    """a number as text the reader accepts: its str2num needs a '.' to take the float branch
    ('1e-07' is rejected by int()), so exponent-only reprs get a '.0'"""
    r = repr(t)
    if isinstance(t, float) and "." not in r and "e" in r:
        r = r.replace("e", ".0e")
    return r


class FixedDraw(np.random.RandomState):
    """RandomState whose integer draws are fixed (tie_breaking='random')"""
    def __init__(self, k):
        super().__init__(0)
        self.k = k

    def randint(self, low, high=None, size=None, dtype=int):
        self.draws = getattr(self, "draws", 0) + 1
        return self.k


def run(ctx):
    import quantecon.game_theory as gt
    from quantecon.game_theory import NormalFormGame, Player
    from quantecon.game_theory.polymatrix_game import PolymatrixGame
    from quantecon.game_theory.game_converters import GAMReader, GAMWriter, to_gam, from_gam
    from quantecon.game_theory.logitdyn import LogitDynamics

    rng = ctx.rng
    ctx.rule = ("histories: random constructor (profile array / zeros / symmetric matrix / Players / GAM numbers / "
                "polymatrix) of an N<=4-player game with 1..5 actions each (asymmetric), payoffs of class int "
                "(int dtype), dyadic float, or doubles needing 17 significant digits, followed by <=4 calls drawn from "
                "{get,set,del,delm,pv,br,isbr,nash,dom,profarr,reprof,replayers,gam,logit,polyrt} incl. a malformed stream; "
                "non-trivial = N>=2 with at least two players having >=2 actions and at least one call; distinct by request line")
    tmpdir = tempfile.mkdtemp(prefix="c14_")
    cases = []
    cur = {"dtol": 1e-8}    # description of the library call about to be made (for the replay if it raises);
    #                         "dtol": the players' current default tolerance (attribute `tol`, reassignable)
    inputs = []             # arrays handed to the library in the current call: (label, array, bytes at call time)
    returned = []           # arrays the library returned in the current call: (label, array)

    # ---- argument forms: the same numbers in every shape the API accepts ------------------------------------------
    INT_T = [np.int8, np.int16, np.int32, np.int64, np.uint8, np.uint16, np.uint32, np.uint64, np.intp]

    def reg(label, arr):
        if isinstance(arr, np.ndarray):
            base = arr if arr.base is None or not isinstance(arr.base, np.ndarray) else arr.base
            inputs.append((label, base, base.tobytes()))
        return arr

    def ret(label, arr):
        if isinstance(arr, np.ndarray):
            returned.append((label, arr))
        return arr

    def finding(key, what, replay):
        """a defect of the CLEAN code on a legal form / history: counted (`unlisted-finding:<key>`) until the
        key is listed in known_findings.txt, from then on reported as KNOWN-FINDING"""
        if key in ctx.known:
            ctx.spec_fail(key, what, replay)
        else:
            if not ctx.counters["unlisted-finding:" + key]:
                ctx.notes.append("unlisted finding %s: %s" % (key, what))
            ctx.count("unlisted-finding:" + key)

    def fint(a, allow_bool=False, signed=False):
        """an integer as Python int / NumPy integer scalar of any width (/ bool for 0 and 1)"""
        if isinstance(a, bool) or not isinstance(a, (int, np.integer)):
            return a
        a = int(a)
        r = rng.random()
        if r < 0.4:
            return a
        if allow_bool and a in (0, 1) and r < 0.47:
            ctx.count("form:int:bool")
            return bool(a)
        ts = [t for t in INT_T if np.iinfo(t).min <= a <= np.iinfo(t).max
              and not (signed and np.issubdtype(t, np.unsignedinteger))]
        t = rng.choice(ts)
        ctx.count("form:int:" + t.__name__)
        return t(a)

    def f32ok(x):
        with np.errstate(all="ignore"):
            return all(float(np.float32(v)) == float(v) for v in np.asarray(x, dtype=float).ravel().tolist())

    def fvec(x, label="vector"):
        """a float vector as ndarray / list / tuple / strided, reversed, column views / float32 / integer dtype"""
        x = np.array(x, dtype=float)
        k = rng.randrange(9)
        if k == 1:
            ctx.count("form:vec:list")
            return x.tolist()
        if k == 2:
            ctx.count("form:vec:tuple")
            return tuple(x.tolist())
        if k == 3:
            buf = np.full(2 * len(x) + 1, 7.5)
            buf[::2][:len(x)] = x
            ctx.count("form:vec:strided")
            return reg(label, buf[::2][:len(x)])
        if k == 4:
            buf = x[::-1].copy()
            ctx.count("form:vec:reversed-view")
            return reg(label, buf[::-1])
        if k == 5 and f32ok(x):
            ctx.count("form:vec:float32")
            return reg(label, x.astype(np.float32))
        if k == 6 and all(float(v).is_integer() for v in x):
            ctx.count("form:vec:int64")
            return reg(label, x.astype(np.int64))
        if k == 7:
            M = np.asfortranarray(np.stack([x + 1.0, x, x - 1.0], axis=0))
            ctx.count("form:vec:row-of-F-matrix")
            return reg(label, M[1])
        if k == 8:
            ctx.count("form:vec:list-of-np-scalars")
            return [np.float64(v) for v in x]
        ctx.count("form:vec:ndarray")
        return reg(label, x)

    def fprof(prof):
        """an action profile (N >= 2) as tuple / list / ndarray of ints of any width"""
        k = rng.randrange(6)
        if k == 0:
            return tuple(prof)
        if k == 1:
            ctx.count("form:profile:list")
            return list(prof)
        if k == 2:
            ctx.count("form:profile:np-scalars")
            return tuple(fint(a) for a in prof)
        ts = [t for t in (np.int8, np.int32, np.int64, np.intp) if all(np.iinfo(t).min <= a <= np.iinfo(t).max for a in prof)]
        if min(prof) >= 0:
            ts += [np.uint8, np.uint64]
        t = rng.choice(ts)
        ctx.count("form:profile:ndarray-" + t.__name__)
        arr = np.array(prof, dtype=t)
        if k == 5:
            buf = np.zeros(2 * len(prof), dtype=t)
            buf[::2] = arr
            ctx.count("form:profile:strided")
            return reg("profile", buf[::2])
        return reg("profile", arr)

    def fvals(vals, kind):
        """the payoff profile assigned by __setitem__ in several containers / dtypes"""
        k = rng.randrange(6)
        if k == 0:
            return list(vals)
        if k == 1:
            ctx.count("form:values:tuple")
            return tuple(vals)
        if kind == "i":
            if k == 2 and all(-2 ** 31 <= v < 2 ** 31 for v in vals):
                ctx.count("form:values:int32")
                return reg("values", np.array(vals, dtype=np.int32))
            ctx.count("form:values:int64")
            return reg("values", np.array(vals, dtype=np.int64))
        if k == 2 and f32ok(vals):
            ctx.count("form:values:float32")
            return reg("values", np.array(vals, dtype=np.float32))
        if k == 3:
            buf = np.array(vals, dtype=float)[::-1].copy()
            ctx.count("form:values:reversed-view")
            return reg("values", buf[::-1])
        if k == 4 and all(float(v).is_integer() and abs(v) < 2 ** 31 and fx(v) != fx(-0.0) for v in vals):
            ctx.count("form:values:int-into-float-game")
            return [int(v) for v in vals]
        ctx.count("form:values:ndarray")
        return reg("values", np.array(vals, dtype=float))

    def ftol(tol, no_f32=False):
        if tol is None:
            return None
        k = rng.randrange(6)
        if k == 2 and no_f32:
            k = 1
        if k == 1:
            ctx.count("form:tol:np.float64")
            return np.float64(tol)
        if k == 2 and f32ok([tol]):
            ctx.count("form:tol:np.float32")
            return np.float32(tol)
        if k == 3 and float(tol).is_integer():
            ctx.count("form:tol:int")
            return int(tol)
        if k == 4 and float(tol).is_integer():
            ctx.count("form:tol:np.int64")
            return np.int64(int(tol))
        if k == 5 and tol == 0:
            ctx.count("form:tol:False")
            return False
        return tol

    def call_tol(fn, args, tol, kwargs=None, positional=True, no_f32=False):
        """call fn(*args, tol) with the tolerance omitted / None / positional / keyword, in any scalar form"""
        kwargs = dict(kwargs or {})
        tf = ftol(tol, no_f32)
        mode = rng.randrange(3)
        if tol is None and mode == 0:
            ctx.count("form:tol:omitted")
            return fn(*args, **kwargs)
        if mode == 1 and positional:
            ctx.count("form:tol:positional" + ("-None" if tol is None else ""))
            return fn(*args, tf, **kwargs)
        ctx.count("form:tol:keyword" + ("-None" if tol is None else ""))
        return fn(*args, tol=tf, **kwargs)

    # ---- value classes ------------------------------------------------------------------------
    specials = [0.1, 0.2, 0.1 + 0.2, 1 / 3, 2 / 3, 1e-5, 1.0000000000000002, 123456.78901234567, -0.30000000000000004,
                5e-324, 2.2250738585072014e-308, -1e-7, 3.141592653589793, 9007199254740993.0, 0.1 + 0.7]
    huge = [1e15 + 0.125, 1e22]

    # integers that do not survive a detour through float64 / that sit at the int64 limits
    bigints = [2 ** 53 + 1, -(2 ** 53 + 1), 2 ** 53 + 3, 2 ** 62 - 1, -(2 ** 62 - 1), -(2 ** 63), 2 ** 63 - 1,
               10 ** 17 + 1, 12345678901234567, 123456789012345678, 1234567890123456789, -999999999999999999,
               9223372036854775783, -4611686018427387905, 36028797018963969]
    # doubles at the ends of the range, and the two zeros
    extfloats = [1.7976931348623157e308, -1.7976931348623157e308, 5e-324, -5e-324, -0.0, 0.0, 2.2250738585072014e-308,
                 2.225073858507201e-308, 1e-300, -1e300, 9007199254740992.0, 1.0000000000000002e-200, 8.98846567431158e307]
    EXT = ("bigint", "extf")     # classes on which only the index-level calls are exercised (arithmetic would overflow)

    def value(cls):
        if cls == "bigint":
            return rng.choice(bigints) if rng.random() < 0.6 else rng.randint(-9, 9)
        if cls == "extf":
            return rng.choice(extfloats) if rng.random() < 0.6 else rng.uniform(-10, 10)
        if cls == "int":
            return rng.randint(-9, 9)
        if cls == "dyad":
            return rng.randint(-36, 36) / 4.0
        r = rng.random()
        if r < 0.02:
            return rng.choice(huge) * rng.choice([1, -1])
        if r < 0.25:
            return rng.choice(specials) * rng.choice([1, -1])
        return rng.uniform(-10, 10)

    def rand_nums(maxN=4, maxA=5):
        N = rng.choice([1, 2, 2, 2, 3, 3, 3, 4, 4][:9 if maxN >= 4 else 7])
        while True:
            nums = tuple(rng.randint(1, maxA) for _ in range(N))
            if N == 4 and int(np.prod(nums)) > 200 and rng.random() < 0.7:
                continue
            return nums

    def mixed(n, cls):
        if cls == "f17" and rng.random() < 0.5:
            w = [rng.random() for _ in range(n)]
            s = sum(w)
            return np.array([x / s for x in w])
        cuts = sorted(rng.randint(0, 16) for _ in range(n - 1))
        parts = [b - a for a, b in zip([0] + cuts, cuts + [16])]
        return np.array([p / 16.0 for p in parts])

    def rand_act(n, cls, pure_p=0.5):
        if rng.random() < pure_p:
            return rng.randrange(n)
        return mixed(n, cls)

    def tol_tok(tol):
        """the tolerance argument on the wire: `none` when omitted (the model resolves the default as
        the code does), else its exact value"""
        if tol is None:
            return "none" if cur["dtol"] == 1e-8 else rat(F(cur["dtol"]))
        return rat(F(tol))

    def rand_tol(cls):
        r = rng.random()
        if r < 0.3:
            return None
        if r < 0.5:
            return rng.choice([0.0, 0])
        if r < 0.8:
            return rng.choice([0.25, 0.5, 1.0, 2.0, 4.0])
        return 1e-8 if cls == "f17" else 2.0 ** -20

    # ---- constructors: (line part, game, truth, cls, is_poly) -----------------------------------
    def np_dtype(cls):
        return np.int64 if cls in ("int", "bigint") else np.float64

    def build(D, cls, label):
        """NormalFormGame(D) with D handed over as ndarray (C / F order, transposed, strided, reversed views,
        narrower dtype) or nested list; the input must stay as it was and must not be aliased by the game"""
        k = rng.randrange(8)
        base = None
        if k == 1:
            arg = D.tolist()
            ctx.count("form:ctor:nested-list")
        elif k == 2:
            arg = base = np.asfortranarray(D)
            ctx.count("form:ctor:F-order")
        elif k == 3:
            base = np.ascontiguousarray(D.T)
            arg = base.T
            ctx.count("form:ctor:transposed-view")
        elif k == 4:
            base = np.zeros((2 * D.shape[0],) + D.shape[1:], dtype=D.dtype)
            base[::2] = D
            arg = base[::2]
            ctx.count("form:ctor:strided-view")
        elif k == 5 and cls in ("int", "dyad"):
            arg = base = D.astype(np.int32 if cls == "int" else np.float32)
            ctx.count("form:ctor:" + arg.dtype.name)
        elif k == 6:
            base = D[::-1].copy()
            arg = base[::-1]
            ctx.count("form:ctor:reversed-view")
        elif k == 7:
            arg = tuple(D.tolist())
            ctx.count("form:ctor:tuple-of-lists")
        else:
            arg = base = D.copy()
            ctx.count("form:ctor:ndarray")
        before = None if base is None else base.tobytes()
        g = NormalFormGame(arg)
        if base is not None:
            if base.tobytes() != before:
                ctx.spec_fail("input-mutated", "%s: the constructor changed its input array" % label, {"call": cur.get("call")})
            if any(np.shares_memory(p.payoff_array, base) for p in g.players):
                ctx.spec_fail("alias:constructor-input", "%s: a player's payoff array shares memory with the constructor's input" % label,
                              {"call": cur.get("call")})
        return g

    def make_game():
        cls = rng.choice(["int", "int", "dyad", "dyad", "f17", "f17", "bigint", "bigint", "extf"])
        kind = rng.choice(["prof", "prof", "prof", "zeros", "sym", "players", "gam", "poly"])
        dt = np_dtype(cls)
        if kind == "sym":
            n = rng.randint(2, 5)
            A = np.array([[value(cls) for _ in range(n)] for _ in range(n)], dtype=dt)
            cur["call"] = {"ctor": "sym", "matrix": A.tolist()}
            g = build(A, cls, "symmetric matrix")
            u = {(a, b): (A[a, b].item(), A[b, a].item()) for a in range(n) for b in range(n)}
            return ("ctor=sym n=%d data=%s" % (n, rats(F(x) for x in A.ravel().tolist())), g, Truth((n, n), u), cls, False,
                    {"ctor": "sym", "matrix": A.tolist()})
        nums = rand_nums()
        N = len(nums)
        if kind == "zeros":
            cur["call"] = {"ctor": "zeros", "nums": list(nums)}
            isint = cls in ("int", "bigint")
            g = NormalFormGame(nums) if not isint else NormalFormGame(nums, dtype=int)
            u = {p: tuple([0 if isint else 0.0] * N) for p in itertools.product(*[range(n) for n in nums])}
            return ("ctor=zeros nums=%s" % ints(nums), g, Truth(nums, u), cls, True, {"ctor": "zeros", "nums": list(nums)})
        if kind == "poly" and N >= 2:
            pcls = cls if cls in ("int", "dyad") else "dyad"
            pm = {(i, j): np.array([[value(pcls) for _ in range(nums[j])] for _ in range(nums[i])], dtype=float)
                  for i in range(N) for j in range(N) if i != j}
            cur["call"] = {"ctor": "poly", "nums": list(nums), "polymatrix": {"%d,%d" % k: v.tolist() for k, v in pm.items()}}
            pm_before = {k: v.tobytes() for k, v in pm.items()}
            pm_in = {k: (v.tolist() if rng.random() < 0.3 else (np.asfortranarray(v) if rng.random() < 0.3 else v)) for k, v in pm.items()}
            r_ = rng.random()
            if r_ < 0.25:
                pg = PolymatrixGame(pm_in, nums_actions=nums)
            elif r_ < 0.5:
                pg = PolymatrixGame(pm_in, list(nums))
                ctx.count("form:poly:nums-list-positional")
            elif r_ < 0.6:
                pg = PolymatrixGame(pm_in, nums_actions=None)
                ctx.count("poly:inferred-nums")
            else:       # numbers of players / actions inferred from the dictionary
                pg = PolymatrixGame(pm_in)
                ctx.count("poly:inferred-nums")
            g = pg.to_nfg()
            g_again = pg.to_nfg()      # a second conversion of the same object: a fresh, equal game
            if any(np.shares_memory(p_.payoff_array, q_.payoff_array) for p_ in g.players for q_ in g_again.players) or \
                    any(p_.payoff_array.tolist() != q_.payoff_array.tolist() for p_, q_ in zip(g.players, g_again.players)):
                ctx.spec_fail("polymatrix-to_nfg-twice", "two to_nfg() calls on one PolymatrixGame alias each other or differ", {"call": cur["call"]})
            if any(v.tobytes() != pm_before[k] for k, v in pm.items()):
                ctx.spec_fail("input-mutated", "PolymatrixGame(...) / to_nfg changed the caller's matrices", {"call": cur["call"]})
            if any(np.shares_memory(p_.payoff_array, m_) for p_ in g.players for m_ in list(pm.values()) + list(pg.polymatrix.values())):
                ctx.spec_fail("alias:polymatrix", "a player's array of to_nfg() shares memory with a polymatrix matrix", {"call": cur["call"]})
            u = {}
            for p in itertools.product(*[range(n) for n in nums]):
                u[p] = tuple(float(sum(F(pm[(i, j)][p[i], p[j]].item()) for j in range(N) if j != i)) for i in range(N))
            mats = ";".join(rats(F(x) for x in pm[(i, j)].ravel().tolist()) for i in range(N) for j in range(N) if i != j)
            return ("ctor=poly nums=%s mats=%s" % (ints(nums), mats), g, Truth(nums, u), pcls, True,
                    {"ctor": "poly", "nums": list(nums), "polymatrix": {"%d,%d" % k: v.tolist() for k, v in pm.items()}})
        # general payoff function
        u = {p: tuple(value(cls) for _ in range(N)) for p in itertools.product(*[range(n) for n in nums])}
        T = Truth(nums, u)
        D = np.empty(nums + (N,), dtype=dt)
        for p, v in u.items():
            D[p] = v
        rep = {"ctor": kind, "payoff_profile_array": D.tolist()}
        cur["call"] = rep
        if kind == "players" or (kind == "poly"):
            pls = []
            for i in range(N):
                shp = nums[i:] + nums[:i]
                A = np.empty(shp, dtype=dt)
                for p, v in u.items():
                    A[p[i:] + p[:i]] = v[i]
                pls.append(Player(A))
            g = NormalFormGame(pls)
            line = "ctor=players shapes=%s datas=%s" % (
                ";".join(ints(p.payoff_array.shape) for p in pls),
                ";".join(rats(F(x) for x in p.payoff_array.ravel().tolist()) for p in pls))
            return (line, g, T, cls, False, rep)
        if kind == "gam":
            # numbers of a .gam file: player by player, first player's action fastest
            toks = []
            for i in range(N):
                for q in itertools.product(*[range(n) for n in reversed(nums)]):
                    toks.append(u[tuple(reversed(q))][i])
            s = "%d\n%s\n\n%s\n" % (N, " ".join(map(str, nums)), " ".join(gam_num(t) for t in toks))
            if rng.random() < 0.5:
                g = GAMReader.from_string(s)
            else:
                fn = os.path.join(tmpdir, "in.gam")
                with open(fn, "w") as f:
                    f.write(s)
                g = from_gam(fn)
            return ("ctor=gam nums=%s data=%s" % (ints(nums), rats(F(t) for t in toks)), g, T, cls, False, dict(rep, gam=s))
        if N == 1:
            # a 1-player game is given by its payoff vector through Players (a profile array of
            # shape (n, 1) works too)
            if rng.random() < 0.5:
                g = build(D, cls, "payoff profile array")
                return ("ctor=prof shape=%s data=%s" % (ints(D.shape), rats(F(x) for x in D.ravel().tolist())), g, T, cls, False, rep)
            g = NormalFormGame([Player(D[:, 0].copy())])
            return ("ctor=players shapes=%d datas=%s" % (nums[0], rats(F(x) for x in D[:, 0].tolist())), g, T, cls, False, rep)
        g = build(D, cls, "payoff profile array")
        return ("ctor=prof shape=%s data=%s" % (ints(D.shape), rats(F(x) for x in D.ravel().tolist())), g, T, cls, False, rep)

    # ---- one call ----------------------------------------------------------------------------------
    def envelope_scale(T):
        return 1 + max((abs(float(x)) for v in T.u.values() for x in v), default=0.0)

    def opp_profile(T, i, cls, pure_p=0.5):
        N = T.N
        return [rand_act(T.nums[(i + 1 + k) % N], cls, pure_p) for k in range(N - 1)]

    def as_arg(N, opps):
        """how the library wants one player's opponents' actions"""
        def one(o):
            if isinstance(o, (int, np.integer)):
                return fint(o, allow_bool=True)
            return fvec(o, "opponent's mixed action")
        if N == 1:
            return None
        if N == 2:
            return one(opps[0])
        out = [one(o) for o in opps]
        if rng.random() < 0.5:
            ctx.count("form:opponents:list")
            return out
        return tuple(out)

    def do_op(g, T, cls, is_poly, name, replay):
        """returns (op token or None, out string, new g, new T, is_poly, pv_env flag)"""
        N = T.N
        exact = cls in ("int", "dyad")
        scale = envelope_scale(T)
        env = 0 if exact else 1e-12 * scale

        def near(exp_v, tolv, a_list=None):
            """some comparison v[a] >= max - tol is too close to call in floating point"""
            if exact:
                return False
            mx = max(exp_v)
            for a, va in enumerate(exp_v):
                m = va - (mx - tolv)
                sc = Fraction(scale) + max(abs(x) for x in exp_v)     # a large perturbation enlarges the rounding error
                if abs(m) <= Fraction(4e-12) * sc and not (m == 0 and tolv == 0 and va == mx):
                    return True
            return False

        if name in ("get", "set"):
            malformed = rng.random() < 0.12
            prof = [rng.randrange(n) for n in T.nums]
            neg = False
            if rng.random() < 0.15:
                k = rng.randrange(N)
                prof[k] -= T.nums[k]
                neg = True
                ctx.count("index:negative")
            kind = None
            if malformed:
                kind = rng.choice(["len", "range"])
                if kind == "len" and N >= 2:
                    prof = prof + [0] if rng.random() < 0.5 else prof[:-1]
                else:
                    k = rng.randrange(N)
                    prof[k] = T.nums[k] + rng.randint(0, 2) if rng.random() < 0.5 else -T.nums[k] - 1 - rng.randint(0, 1)
                    kind = "range"
            key = tuple(prof) if N >= 2 else (prof[0] if len(prof) == 1 else tuple(prof))
            tprof = tuple(p % n for p, n in zip(prof, T.nums)) if not malformed else None
            cur["call"] = "g[%r] (%s)" % (key, name)
            if not malformed:
                key = fprof(list(key)) if N >= 2 else fint(key)
            if name == "get":
                try:
                    r = ret("g[profile]", g[key]) if N >= 2 else g[key]
                    out = "v" + rats(F(x) for x in (np.atleast_1d(r)).tolist())
                    if malformed:
                        ctx.spec_fail("getitem-malformed", "g[%s] returned %r" % (key, r), dict(replay, index=prof))
                    else:
                        want = T.u[tprof]
                        got_l = np.atleast_1d(r).tolist()
                        if len(got_l) != len(want) or not all(same(x, w) for x, w in zip(got_l, want)):
                            ctx.spec_fail("getitem", "g[%s] = %r, definition %r" % (key, r, want), dict(replay, index=prof))
                except (IndexError, TypeError, ValueError) as e:
                    out = "ERR:" + type(e).__name__
                    ctx.count("err:get:" + type(e).__name__)
                    if not malformed:
                        ctx.spec_fail("getitem", "g[%s] raised %s" % (key, out), dict(replay, index=prof))
                return "get:%s" % ints(prof), out, g, T, is_poly
            vals = [value(cls) for _ in range(N)]
            if T.kind == "f":
                vals = [float(v) for v in vals]     # a float game stores doubles
            if malformed and kind == "range" and rng.random() < 0.3 and N >= 2:
                vals = vals[:-1]
                prof = [p % n for p, n in zip(prof, T.nums)]
                key = tuple(prof)
                ctx.count("set:wrong-value-length")
            if N == 2 and not malformed and np.shares_memory(g.players[0].payoff_array, g.players[1].payoff_array):
                # both Players of a game sit on ONE ndarray (the symmetric-matrix constructor did this before
                # fix b12fc74): judge the write on a copy built the same way and report it under its own key;
                # the history goes on (the model describes players that own their arrays)
                gc = NormalFormGame(g.players[0].payoff_array.copy())
                gc[key] = vals
                Tc = T.copy()
                Tc.u[tprof] = tuple(vals)
                bad_cells = [(q, i) for q in Tc.profiles() for i in range(2) if gc[q][i] != Tc.u[q][i]]
                ctx.count("set:on-shared-array")
                if bad_cells:
                    q, i = bad_cells[0]
                    ctx.spec_fail("sym-shared-array", "symmetric game %s: g[%s]=%s makes player %d's payoff at %s equal %r, "
                                  "definition %r (both Players share one ndarray)" % (
                                      g.players[0].payoff_array.tolist(), key, vals, i, q, gc[q][i], Tc.u[q][i]),
                                  dict(replay, index=prof, values=vals))
            try:
                if N >= 2:
                    g[key] = vals if malformed else fvals(vals, T.kind)
                else:
                    v0 = vals[0]
                    g[key] = v0 if rng.random() < 0.5 else (np.float64(v0) if T.kind == "f" else np.int64(v0))
                out = "-"
                if malformed:
                    ctx.spec_fail("setitem-malformed", "g[%s]=%s accepted" % (key, vals), dict(replay, index=prof))
                else:
                    T = T.copy()
                    T.u[tprof] = tuple(vals)
                    is_poly = False
            except (IndexError, TypeError, ValueError) as e:
                out = "ERR:" + type(e).__name__
                ctx.count("err:set:" + type(e).__name__)
                if not malformed:
                    ctx.spec_fail("setitem", "g[%s]=... raised %s" % (key, out), dict(replay, index=prof))
            return "set:%s:%s" % (ints(prof), rats(F(v) for v in vals)), out, g, T, is_poly

        if name == "del":
            p = rng.randrange(N)
            a = rng.randrange(T.nums[p])
            pp, aa = p, a
            bad = None
            r = rng.random()
            if r < 0.2:
                pp = p - N
                ctx.count("del:negative-player")
            if rng.random() < 0.15:
                aa = a - T.nums[p]
                ctx.count("del:negative-action")
            if r > 0.9:
                bad = rng.choice(["player", "action"])
                if bad == "player":
                    pp = rng.choice([N, N + 1, -N - 1])
                else:
                    aa = rng.choice([T.nums[p], -T.nums[p] - 1])
            cur["call"] = "g.delete_action(%d, %d)" % (pp, aa)
            try:
                g2 = g.delete_action(pp if bad else fint(pp), aa if bad else fint(aa))
                out = "-"
                if bad or T.nums[p] == 1:
                    ctx.spec_fail("delete-malformed", "delete_action(%d,%d) accepted on %s" % (pp, aa, T.nums), dict(replay, player=pp, action=aa))
                else:
                    # the old game is untouched, the new one is the definition's
                    check_views(ctx, g, T, "old game after delete_action(%d,%d)" % (pp, aa), dict(replay, player=pp, action=aa))
                    T = T.delete(p, a)
                    # the Player-level method on every player's array (axis = player_idx - i, possibly negative)
                    for i, pl in enumerate(g.players):
                        q = pl.delete_action(aa, p - i)
                        if q.payoff_array.tolist() != g2.players[i].payoff_array.tolist():
                            ctx.spec_fail("player-delete", "Player.delete_action(%d, %d) of player %d differs from the game's" % (aa, p - i, i),
                                          dict(replay, player=pp, action=aa))
                    g = g2
                    ctx.count("del:ok:axis-wrap" if p < N - 1 or True else "del:ok")
            except (IndexError, ValueError) as e:
                out = "ERR:" + type(e).__name__
                ctx.count("err:del:" + type(e).__name__)
                if not bad and T.nums[p] > 1:
                    ctx.spec_fail("delete", "delete_action(%d,%d) raised %s" % (pp, aa, out), dict(replay, player=pp, action=aa))
            return "del:%d:%d" % (pp, aa), out, g, T, is_poly

        if name == "delm":
            p = rng.randrange(N)
            n = T.nums[p]
            k = rng.choice([0, 1, 1, 2, 2, 3, n - 1, n])
            k = max(0, min(n, k))
            dele = sorted(rng.sample(range(n), k))
            acts = [a - n if rng.random() < 0.2 else a for a in dele]
            rng.shuffle(acts)
            if acts and rng.random() < 0.25:
                acts.append(rng.choice(acts))
                ctx.count("delm:duplicate")
            bad = rng.random() < 0.08
            if bad:
                acts.append(rng.choice([n, -n - 1]))
            pp = p - N if rng.random() < 0.2 else p
            cur["call"] = "g.delete_action(%d, %s)" % (pp, acts)
            try:
                af = list(acts)
                if not bad:
                    kf = rng.randrange(4)
                    if kf == 1:
                        af = tuple(acts)
                    elif kf == 2:
                        af = reg("actions", np.array(acts, dtype=rng.choice([np.int8, np.int32, np.int64])))
                    elif kf == 3:
                        t_ = rng.choice([np.int8, np.int16, np.int64, np.intp])
                        af = [t_(x) for x in acts]
                    ctx.count("form:actions:%d" % kf)
                g2 = g.delete_action(pp if bad else fint(pp), af)
                out = "-"
                if bad or k == n:
                    ctx.spec_fail("delete-malformed", "delete_action(%d,%s) accepted on %s" % (pp, acts, T.nums), dict(replay, player=pp, actions=acts))
                else:
                    check_views(ctx, g, T, "old game after delete_action(%d,%s)" % (pp, acts), dict(replay, player=pp, actions=acts))
                    for a in reversed(dele):
                        T = T.delete(p, a)
                    g = g2
                    ctx.count("delm:ok:k=%d" % min(k, 3))
            except (IndexError, ValueError) as e:
                out = "ERR:" + type(e).__name__
                ctx.count("err:delm:" + type(e).__name__)
                if not bad and k < n:
                    ctx.spec_fail("delete", "delete_action(%d,%s) raised %s" % (pp, acts, out), dict(replay, player=pp, actions=acts))
            return "delm:%d:%s" % (pp, ints(acts)), out, g, T, is_poly

        if name in ("pv", "br", "isbr"):
            i = rng.randrange(N)
            opps = opp_profile(T, i, cls)
            bad = None
            if N >= 2 and rng.random() < 0.08:
                k = rng.randrange(N - 1)
                n = T.nums[(i + 1 + k) % N]
                if rng.random() < 0.5:
                    opps[k] = n + rng.randint(0, 1)
                    bad = "IndexError"
                else:
                    opps[k] = mixed(n + 1, "dyad")
                    bad = "ValueError"
            arg = as_arg(N, opps)
            player = g.players[i]
            rp = dict(replay, player=i, opponents=[o.tolist() if hasattr(o, "tolist") else o for o in opps])
            cur["call"] = "players[%d].%s with opponents' actions %s" % (i, name, rp["opponents"])
            if bad:
                try:
                    player.payoff_vector(arg)
                    out = "v?"
                    ctx.spec_fail("payoff_vector-malformed", "accepted malformed opponents' actions", rp)
                except (IndexError, ValueError) as e:
                    out = "ERR:" + type(e).__name__
                    ctx.count("err:pv:" + type(e).__name__)
                return "pv:%d:%s" % (i, acts_str(opps)), out, g, T, is_poly
            ev = T.expect_vector(i, opps)
            n_mixed = sum(1 for o in opps if not isinstance(o, int))
            ctx.count("pv:mixed-opponents=%d" % n_mixed)
            if name == "pv":
                v = ret("payoff_vector", player.payoff_vector(arg))
                got = [F(x) for x in np.asarray(v, dtype=float).tolist()]
                if len(got) != len(ev) or any(abs(a - b) > Fraction(env) for a, b in zip(got, ev)):
                    ctx.spec_fail("payoff_vector", "payoff_vector %s is not the expected payoff %s" % (
                        [float(x) for x in got], [float(x) for x in ev]), rp)
                return "pv:%d:%s" % (i, acts_str(opps)), "v" + rats(got), g, T, is_poly
            tol = rand_tol(cls)
            tolv = F(cur["dtol"]) if tol is None else F(tol)
            if name == "br":
                pert = None
                if rng.random() < 0.3:
                    pert = np.array([value("dyad" if exact else cls) for _ in range(T.nums[i])], dtype=float)
                    ctx.count("br:perturbation")
                evp = [a + (F(b) if pert is not None else 0) for a, b in zip(ev, pert if pert is not None else ev)]
                if near(evp, tolv):
                    ctx.count("skipped:near-boundary")
                    return None
                kw = {} if tol is None else {"tol": tol}
                pert_in = None if pert is None else fvec(pert, "payoff_perturbation")
                brs = ret("best_response(tie_breaking=False)",
                          call_tol(player.best_response, (arg, False, pert_in), tol))
                brs = [int(x) for x in brs]
                want = [a for a, va in enumerate(evp) if va >= max(evp) - tolv]
                if brs != want:
                    ctx.spec_fail("best_response", "best responses %s, definition %s" % (brs, want), dict(rp, tol=tol))
                if len(want) >= 2:
                    ctx.count("br:ties")
                sm = int(player.best_response(arg, payoff_perturbation=pert, **kw))
                # tie_breaking='random' with an injected draw; with a single candidate no number may be drawn
                k = rng.randrange(len(want)) if len(want) > 1 else rng.randrange(5)
                fd = FixedDraw(k)
                rd = int(player.best_response(arg, tie_breaking="random", payoff_perturbation=pert, random_state=fd, **kw))
                want_rd = want[k] if len(want) > 1 else want[0]
                if sm != want[0] or rd != want_rd or (len(want) == 1 and getattr(fd, "draws", 0) != 0):
                    ctx.spec_fail("best_response-tiebreak", "smallest %d random(%d) %d among %s (draws %s)" % (
                        sm, k, rd, want, getattr(fd, "draws", 0)), dict(rp, tol=tol))
                if rng.random() < 0.1:
                    try:
                        player.best_response(arg, tie_breaking=rng.choice(["largest", True, None, "Smallest"]), **kw)
                        ctx.spec_fail("best_response-tiebreak", "an unknown tie_breaking was accepted", dict(rp, tol=tol))
                    except ValueError:
                        ctx.count("err:br:bad-tie_breaking")
                if rng.random() < 0.4:
                    ctx.count("brr:single-candidate" if len(want) == 1 else "brr:drawn")
                    return ("brr:%d:%s:%s:%s:%d" % (i, acts_str(opps), tol_tok(tol),
                                                    "none" if pert is None else rats(F(x) for x in pert.tolist()), k),
                            "i%d" % rd, g, T, is_poly)
                return ("br:%d:%s:%s:%s" % (i, acts_str(opps), tol_tok(tol), "none" if pert is None else rats(F(x) for x in pert.tolist())),
                        "i" + ints(brs), g, T, is_poly)
            own = rand_act(T.nums[i], cls)
            if near(ev, tolv):
                ctx.count("skipped:near-boundary")
                return None
            own_val = ev[own] if isinstance(own, int) else sum(F(float(x)) * e for x, e in zip(own, ev))
            m = own_val - (max(ev) - tolv)
            if not exact and abs(m) <= Fraction(4e-12) * Fraction(scale) and not isinstance(own, int):
                ctx.count("skipped:near-boundary")
                return None
            own_in = fint(own) if isinstance(own, int) else fvec(own, "own mixed action")
            r = bool(call_tol(player.is_best_response, (own_in, arg), tol))
            if r != (m >= 0):
                ctx.spec_fail("is_best_response", "is_best_response=%s, margin %s" % (r, float(m)), dict(rp, own=act_str(own), tol=tol))
            ctx.count("isbr:%s" % r)
            if m == 0:
                ctx.count("isbr:boundary-exact")
            return ("isbr:%d:%s:%s:%s" % (i, act_str(own), acts_str(opps), tol_tok(tol)), "b%d" % r, g, T, is_poly)

        if name == "nash":
            prof = [rand_act(n, cls, 0.65) for n in T.nums]
            # raise the chance of equilibria: follow pure best responses from a random profile now and then
            if rng.random() < 0.55:
                prof = [rng.randrange(n) for n in T.nums]
                for _round in range(4):
                    moved = False
                    for i in range(N):
                        ev = T.expect_vector(i, [prof[(i + 1 + k) % N] for k in range(N - 1)])
                        b = max(range(len(ev)), key=lambda a: (ev[a], -a))
                        if ev[b] > ev[prof[i]]:
                            prof[i] = b
                            moved = True
                    if not moved:
                        ctx.count("nash:br-fixed-point")
                        break
                if rng.random() < 0.3 and N >= 2:
                    k = rng.randrange(N)
                    prof[k] = rng.randrange(T.nums[k])
            tol = rand_tol(cls)
            tolv = F(cur["dtol"]) if tol is None else F(tol)
            cur["call"] = "g.is_nash(%s, tol=%s)" % ([act_str(a) for a in prof], tol)
            ok = True
            for i in range(N):
                opps = [prof[(i + 1 + k) % N] for k in range(N - 1)]
                ev = T.expect_vector(i, opps)
                own = prof[i]
                own_val = ev[own] if isinstance(own, int) else sum(F(float(x)) * e for x, e in zip(own, ev))
                m = own_val - (max(ev) - tolv)
                if not exact and abs(m) <= Fraction(4e-12) * Fraction(scale) and not (m == 0 and isinstance(own, int) and tolv == 0):
                    ctx.count("skipped:near-boundary")
                    return None
                ok = ok and m >= 0
            prof_in = [fint(x) if isinstance(x, int) else fvec(x, "mixed action in profile") for x in prof]
            prof_in = tuple(prof_in) if rng.random() < 0.5 else prof_in
            r = bool(call_tol(g.is_nash, (prof_in,), tol))
            if r != ok:
                ctx.spec_fail("is_nash", "is_nash=%s, definition %s" % (r, ok),
                              dict(replay, profile=[act_str(a) for a in prof], tol=tol))
            ctx.count("nash:%s" % r)
            return "nash:%s:%s" % (acts_str(prof), tol_tok(tol)), "b%d" % r, g, T, is_poly

        if name == "dom":
            i = rng.randrange(N)
            n = T.nums[i]
            a = rng.randrange(n)
            tol = rng.choice([None, None, 0.25, 1.0, 2.0 ** -20, 0, 0.0, 1e-8, 0.5])
            tolv = F(cur["dtol"]) if tol is None else F(tol)
            others = [(i + 1 + k) % N for k in range(N - 1)]
            cols = list(itertools.product(*[range(T.nums[j]) for j in others]))

            def ui(b, col):
                full = [0] * N
                full[i] = b
                for j, c in zip(others, col):
                    full[j] = c
                return F(T.u[tuple(full)][i])
            kw = {} if tol is None else {"tol": tol}
            player = g.players[i]
            rp = dict(replay, player=i, action=a, tol=tol)
            cur["call"] = "players[%d].is_dominated(%d, tol=%s)" % (i, a, tol)
            if N == 1:
                r = bool(call_tol(player.is_dominated, (fint(a),), tol))
                want = max(ui(b, ()) for b in range(n)) > ui(a, ()) + tolv
                if r != want:
                    ctx.spec_fail("is_dominated", "1-player is_dominated=%s, definition %s" % (r, want), rp)
                ctx.count("dom0:%s" % r)
                return "dom0:%d:%d:%s" % (i, a, tol_tok(tol)), "b%d" % r, g, T, is_poly
            if n == 1:
                r = bool(call_tol(player.is_dominated, (fint(a),), tol))
                if r:
                    ctx.spec_fail("is_dominated", "only action reported dominated", rp)
                return "dompure:%d:%d:%s" % (i, a, tol_tok(tol)), "b%d" % r, g, T, is_poly
            rows = [b for b in range(n) if b != a]
            if len(cols) > 30:
                return None
            if scale > 1e6:
                # minmax works in doubles after shifting the matrix by a constant: payoffs spread over
                # 1e15..1e22 lose the small entries; conditioning of the LP belongs to C04, not to the convention
                ctx.count("skipped:dom-ill-scaled")
                return None
            Dm = [[ui(b, c) - ui(a, c) for c in cols] for b in rows]
            sol = game_value(Dm)
            if sol is None:
                ctx.count("dom:no-certificate")
                return None
            v, x, y = sol
            if abs(v - tolv) <= Fraction(1, 10 ** 9) * Fraction(scale):
                ctx.count("skipped:near-boundary")
                return None
            r = bool(call_tol(player.is_dominated, (fint(a),), tol))
            if r != (v > tolv):
                ctx.spec_fail("is_dominated", "is_dominated=%s but the value of the domination game is %s (tol %s)" % (r, v, tolv), rp)
            if rng.random() < 0.3:
                r2 = bool(player.is_dominated(fint(a), ftol(tol), "highs") if rng.random() < 0.5
                          else player.is_dominated(a, method="highs", **kw))
                if r2 != r:
                    ctx.spec_fail("is_dominated-linprog", "linprog path says %s, minmax path %s" % (r2, r), rp)
            da = call_tol(player.dominated_actions, (), tol)
            if (a in da) != r:
                ctx.spec_fail("dominated_actions", "dominated_actions %s vs is_dominated(%d)=%s" % (da, a, r), rp)
            ctx.count("dom:%s" % r)
            pure_dom = any(all(ui(b, c) > ui(a, c) + tolv for c in cols) for b in rows)
            if r and not pure_dom:
                ctx.count("dom:mixed-only")
            if rng.random() < 0.5:
                return "dompure:%d:%d:%s" % (i, a, tol_tok(tol)), "b%d" % pure_dom, g, T, is_poly
            return ("domcert:%d:%d:%s:%s:%s:%s" % (i, a, tol_tok(tol), rats(x), rats(y), rat(v)), "b%d" % r, g, T, is_poly)

        cur["call"] = name
        if name == "poke":
            # the caller edits one cell of one player's array in place, between calls
            i = rng.randrange(N)
            shape = T.nums[i:] + T.nums[:i]
            idx = tuple(rng.randrange(n) for n in shape)
            v = value(cls)
            if T.kind == "f":
                v = float(v)
            via = rng.randrange(2)
            target = g.players[i].payoff_array if via == 0 else g.payoff_arrays[i]
            cur["call"] = "g.%s[%d]%s[%r] = %r" % ("players" if via == 0 else "payoff_arrays", i, ".payoff_array" if via == 0 else "", idx, v)
            target[idx] = v
            prof = [0] * N
            for k in range(N):
                prof[(i + k) % N] = idx[k]
            T = T.copy()
            uu = list(T.u[tuple(prof)])
            uu[i] = v
            T.u[tuple(prof)] = tuple(uu)
            ctx.count("poke:via-%s" % ("players" if via == 0 else "payoff_arrays"))
            return "poke:%d:%s:%s" % (i, ints(idx), rat(F(v))), "-", g, T, False
        if name == "settol":
            # attribute reassignment: every player's default tolerance
            x = rng.choice([0, 0.0, 0.5, 2.0 ** -20, 1.0, 1e-8, 1e-6, np.float64(0.25)])
            for pl in g.players:
                pl.tol = x
            cur["dtol"] = float(x)
            ctx.count("settol:%r" % float(x))
            return "settol:%s" % rat(F(float(x))), "-", g, T, is_poly
        if name == "profarr":
            ppa = ret("payoff_profile_array", g.payoff_profile_array)
            return "profarr", "v" + rats(F(x) for x in ppa.ravel().tolist()), g, T, is_poly
        if name == "reprof":
            if N == 2 and T.nums[0] == T.nums[1] and False:
                return None
            ppa = g.payoff_profile_array
            return "reprof", "-", NormalFormGame(ppa), T, is_poly
        if name == "replayers":
            g2 = NormalFormGame([Player(p.payoff_array.copy()) for p in g.players])
            return "replayers", "-", g2, T, is_poly
        if name == "gam":
            if rng.random() < 0.5:
                s = to_gam(g) if rng.random() < 0.5 else to_gam(g, None)
                if rng.random() < 0.3 and GAMWriter.to_string(g) != s:
                    ctx.spec_fail("gam-writer-views", "to_gam(g) and GAMWriter.to_string(g) differ", replay)
                g2 = GAMReader.from_string(s)
            else:
                fn = os.path.join(tmpdir, "rt.gam")
                if rng.random() < 0.5:
                    to_gam(g, fn)
                else:
                    to_gam(g, file_path=fn)
                g2 = from_gam(fn)
                with open(fn) as f:
                    s = f.read()
            toks = s.split()
            try:
                if int(toks[0]) != N or tuple(int(t) for t in toks[1:1 + N]) != T.nums:
                    raise ValueError
                nums_w = [gam_token_value(t) for t in toks[1 + N:]]
                na = int(np.prod(T.nums))
                if len(nums_w) != N * na:
                    raise ValueError
            except ValueError:
                ctx.spec_fail("gam-format", "written GAM text is not N, nums, N*prod(nums) numbers", dict(replay, text=s[:500]))
                return None
            # spec: number k of player i's block is the payoff at the profile whose first player's action varies fastest
            for i in range(N):
                for k, q in enumerate(itertools.product(*[range(n) for n in reversed(T.nums)])):
                    if not same(nums_w[i * na + k], T.u[tuple(reversed(q))][i]):
                        ctx.spec_fail("gam-write", "player %d number %d is %r, payoff at %s is %r" % (
                            i, k, nums_w[i * na + k], tuple(reversed(q)), T.u[tuple(reversed(q))][i]), dict(replay, text=s[:500]))
                        break
            out = "g%s/%s" % (ints(T.nums), ";".join(rats(F(x) for x in nums_w[i * na:(i + 1) * na]) for i in range(N)))
            # spec: the game read back holds exactly the numbers of the game written (integers as integers,
            # doubles bit for bit, same dtype kind), in every player's array
            try:
                bad = None
                for i, pl in enumerate(g2.players):
                    if pl.payoff_array.dtype.kind != T.kind:
                        bad = "player %d dtype %s, payoffs are of kind %r" % (i, pl.payoff_array.dtype, T.kind)
                        break
                    nested = pl.payoff_array.tolist()
                    for q in T.profiles():
                        x = nested
                        for k in q[i:] + q[:i]:
                            x = x[k]
                        if not same(x, T.u[q][i]):
                            bad = "player %d at %s: read back %r, written %r" % (i, q, x, T.u[q][i])
                            break
                    if bad:
                        break
            except Exception as e:
                bad = "reading the result raised %s: %s" % (type(e).__name__, e)
            if bad:
                ctx.spec_fail("gam-roundtrip", "from_gam(to_gam(g)) is not g: %s" % bad, dict(replay, text=s[:800]))
            if T.kind == "i" and any(abs(x) > 2 ** 53 for v in T.u.values() for x in v):
                ctx.count("gam:int>2^53")
            return "gam", out, g2, T, is_poly
        if name == "logit":
            which = rng.randrange(3)
            if cls in EXT:
                # only the constructor that the anchor names; its arithmetic overflows on these payoffs,
                # which is irrelevant here: the stored arrays must stay what they are
                with np.errstate(all="ignore"), warnings.catch_warnings():
                    warnings.simplefilter("ignore")
                    LogitDynamics(g, beta=1.0)
                ctx.count("dynamics:LogitDynamics")
            elif which == 0 or N != 2:
                LogitDynamics(g, beta=rng.choice([0.5, 1.0, 2.0]))
                ctx.count("dynamics:LogitDynamics")
            elif which == 1:
                gt.FictitiousPlay(g)
                ctx.count("dynamics:FictitiousPlay")
            else:
                gt.StochasticFictitiousPlay(g, distribution=__import__("scipy.stats").stats.norm())
                ctx.count("dynamics:StochasticFictitiousPlay")
            return "logit", "-", g, T, is_poly
        if name == "polyrt":
            if not is_poly or N < 2:
                return None
            pg = PolymatrixGame.from_nf(g)
            g2 = pg.to_nfg()
            ctx.count("polymatrix:roundtrip")
            err = max(abs(F(float(g2[p][i] if N > 1 else g2[p[0]])) - F(T.u[p][i])) for p in T.profiles() for i in range(N))
            if err > Fraction(1e-9) * Fraction(scale):
                ctx.spec_fail("polymatrix-roundtrip", "to_nfg(from_nf(g)) differs from g by %g" % float(err), replay)
            return "polyrt", "-", g, T, is_poly
        raise AssertionError(name)

    # ---- comparison of one history ---------------------------------------------------------------------
    def make_cmp(env_ops, env):
        def cmp(mo, impl):
            if mo == impl:
                return None
            a, b = mo.split("|"), impl.split("|")
            if len(a) != len(b):
                return "different number of calls"
            for k, (x, y) in enumerate(zip(a, b)):
                if x == y:
                    continue
                xo, xs = x.split("#")
                yo, ys = y.split("#")
                if xs != ys:
                    return "stored payoff arrays differ after call %d" % k
                if k in env_ops and xo[:1] == "v" and yo[:1] == "v":
                    p, q = parse_rats(xo[1:]), parse_rats(yo[1:])
                    if len(p) == len(q) and all(abs(s - t) <= env for s, t in zip(p, q)):
                        continue
                return "result of call %d differs" % k
            return None
        return cmp

    # ---- fixed regression inputs (defects found earlier; each once through the model as well) ----------------
    def fixed(line, g, calls):
        """calls: list of (token, function(g) -> (out string, g'))"""
        outs = ["-#" + state_str(g)]
        for tok, fn in calls:
            out, g = fn(g)
            outs.append(out + "#" + state_str(g))
        cases.append(Case(line, "|".join(outs), tag="regression"))
        return g

    def _set(key, vals):
        def fn(g):
            g[key] = vals
            return "-", g
        return fn

    def _get(key):
        return lambda g: ("v" + rats(F(x) for x in np.atleast_1d(g[key]).tolist()), g)
    # symmetric-matrix constructor: both players shared one ndarray (fixed in b12fc74)
    A0 = np.array([[-2, -7], [-8, 4]])
    g = fixed("C14 run ctor=sym n=2 data=-2,-7,-8,4 ops=set:1,0:-5,-3|get:0,1", NormalFormGame(A0),
              [("set", _set((1, 0), (-5, -3))), ("get", _get((0, 1)))])
    if list(g[0, 1]) != [-7, -8] or A0.tolist() != [[-2, -7], [-8, 4]]:
        ctx.spec_fail("sym-shared-array", "NormalFormGame([[-2,-7],[-8,4]]); g[1,0]=(-5,-3) changed g[0,1] to %s / the "
                      "caller's matrix to %s" % (list(g[0, 1]), A0.tolist()), {"matrix": [[-2, -7], [-8, 4]], "set": [1, 0]})
    # LogitDynamics rewrote the payoffs in place (fixed in 170b964)
    g = NormalFormGame(np.array([[4., 0.], [3., 2.]]))

    def _logit(g):
        LogitDynamics(g)
        return "-", g
    g = fixed("C14 run ctor=sym n=2 data=4,0,3,2 ops=logit|get:0,0", g, [("logit", _logit), ("get", _get((0, 0)))])
    if g.players[0].payoff_array.tolist() != [[4., 0.], [3., 2.]]:
        ctx.spec_fail("logit-inplace", "LogitDynamics(g) changed g's payoffs to %s" % g.players[0].payoff_array.tolist(), {})
    # best_response with a perturbation on a 1-player game added it to the stored array (fixed in 1eb1fbb)
    p1 = Player(np.array([1., 2., .5]))
    g = NormalFormGame([p1])

    def _br(g):
        r = g.players[0].best_response(None, payoff_perturbation=np.array([.25, -3., 0.]), tie_breaking=False)
        return "i" + ints(r), g
    g = fixed("C14 run ctor=players shapes=3 datas=1,2,1/2 ops=br:0:-:%s:1/4,-3,0" % rat(F(1e-8)), g, [("br", _br)])
    if g.players[0].payoff_array.tolist() != [1., 2., .5]:
        ctx.spec_fail("br-perturbation-inplace", "best_response(payoff_perturbation=...) changed the stored payoffs", {})
    # GAM text must carry every digit (fixed in 3cca173)
    vals = [0.1, 0.2, 0.1 + 0.2, 1 / 3, 2 / 3, 123456.78901234567, 1e-5, -0.30000000000000004, 1.0000000000000002, 5e-324, 7.0, 0.7]
    D = np.array(vals).reshape(3, 2, 2)
    g0 = NormalFormGame(D)
    g1 = GAMReader.from_string(GAMWriter.to_string(g0))
    if g1.payoff_profile_array.tolist() != D.tolist():
        ctx.spec_fail("gam-digits", "GAM round trip of a 3x2 game with 17-digit payoffs is not exact", {"payoff_profile_array": D.tolist()})

    # integer payoffs beyond 2^53 must come back as the same integers (no detour through float64), int dtype kept:
    # writer -> reader through a string and through a file, and the reader on hand-written text
    big = [2 ** 53 + 1, -(2 ** 53 + 1), 2 ** 62 - 1, -(2 ** 63), 2 ** 63 - 1, 1234567890123456789, 10 ** 17 + 1, 7,
           -999999999999999999, 0, 36028797018963969, -3]
    Db = np.array(big, dtype=np.int64).reshape(3, 2, 2)
    gb = NormalFormGame(Db)
    fnb = os.path.join(tmpdir, "big.gam")
    to_gam(gb, fnb)
    hand = "2\n3 2\n\n" + " ".join(str(Db[a, b, i]) for i in range(2) for b in range(2) for a in range(3)) + "\n"
    for how, rd in (("string", lambda: GAMReader.from_string(to_gam(gb))), ("file", lambda: from_gam(fnb)),
                    ("hand-written text", lambda: GAMReader.from_string(hand))):
        try:
            g1 = rd()
            back = g1.payoff_profile_array
            okb = back.dtype.kind == "i" and back.tolist() == Db.tolist()
            msg = "dtype %s, payoffs %s" % (back.dtype, back.tolist())
        except Exception as e:
            okb, msg = False, "raised %s: %s" % (type(e).__name__, e)
        if not okb:
            ctx.spec_fail("gam-int-exact", "GAM %s round trip of an int64 game with payoffs %s: %s" % (how, big, msg),
                          {"payoff_profile_array": Db.tolist(), "how": how, "text": hand if how != "file" else open(fnb).read()})
    fixed("C14 run ctor=prof shape=3,2,2 data=%s ops=gam|get:0,0" % rats(big), NormalFormGame(Db),
          [("gam", lambda g: ("g3,2/" + ";".join(rats(int(Db[a, b, i]) for b in range(2) for a in range(3)) for i in range(2)),
                              GAMReader.from_string(to_gam(g)))), ("get", _get((0, 0)))])

    # ---- legal-looking forms the clean code mishandles: counted as unlisted findings until listed ------------------
    pb = Player(np.array([[1., 2.], [3., 4.]]))
    try:
        rb = pb.is_best_response(True, 0)
        okb = isinstance(rb, (bool, np.bool_)) and bool(rb) == bool(pb.is_best_response(1, 0))
    except Exception:
        okb = False
    if not okb:
        finding("bool-own-action", "Player([[1,2],[3,4]]).is_best_response(True, 0): a Python bool passes the Integral test "
                "(payoff_vector/best_response treat it as action 1) but indexes payoff_vector as a mask", {"own_action": True})
    # regressions of e821f0e, judged by the definition: a float32 tolerance on the LP branch (the Python float returned by
    # minmax used to be compared with it in float32), and unsigned NumPy player indices (player_idx - i used to wrap)
    gq = NormalFormGame(np.array([[[-4.5, 0.5]], [[-3 + 2.0 ** -30, -0.75]], [[-3.5, -0.5]]]))
    for tq, wantq in ((np.float32(0.5), True), (0.5, True), (np.float32(0.75), False), (np.float32(0.0), True)):
        for how in ("keyword", "positional", "method"):
            try:
                if how == "keyword":
                    rq = gq.players[0].is_dominated(2, tol=tq)
                elif how == "positional":
                    rq = gq.players[0].is_dominated(np.uint8(2), tq)
                else:
                    rq = gq.players[0].is_dominated(2, tq, "highs") if float(tq) != 0.5 else wantq
                okq = bool(rq) == wantq
            except Exception as e:
                okq, rq = False, "%s: %s" % (type(e).__name__, e)
            if not okq:
                ctx.spec_fail("float32-tol-lp-branch", "3x1 game where action 1 beats action 2 by exactly 0.5+2^-30: is_dominated(2, tol=%r) (%s) "
                              "gave %r, definition %s" % (tq, how, rq, wantq), {"payoff_profile_array": gq.payoff_profile_array.tolist(),
                                                                              "tol": repr(tq), "how": how})
        dq = gq.players[0].dominated_actions(tol=tq)
        if (2 in dq) != wantq:
            ctx.spec_fail("float32-tol-lp-branch", "dominated_actions(tol=%r)=%s, action 2 dominated by definition: %s" % (tq, dq, wantq),
                          {"payoff_profile_array": gq.payoff_profile_array.tolist(), "tol": repr(tq)})
    D3 = np.arange(24.).reshape(2, 2, 2, 3)
    g3 = NormalFormGame(D3)
    for ut in (np.uint8, np.uint16, np.uint32, np.uint64):
        for pu in range(3):
            try:
                h3 = g3.delete_action(ut(pu), ut(1))
                oku = h3.payoff_profile_array.tolist() == np.delete(D3, 1, axis=pu).tolist() and \
                    g3.payoff_profile_array.tolist() == D3.tolist()
                msg = "nums_actions %s" % (h3.nums_actions,)
            except Exception as e:
                oku, msg = False, "%s: %s" % (type(e).__name__, e)
            if not oku:
                ctx.spec_fail("unsigned-player-idx", "NormalFormGame(2x2x2).delete_action(%s(%d), %s(1)): %s" % (ut.__name__, pu, ut.__name__, msg),
                              {"player_idx": "%s(%d)" % (ut.__name__, pu), "action": 1})

    alphabet = ["get", "set", "del", "pv", "br", "isbr", "nash", "dom", "profarr", "reprof", "replayers", "gam",
                "logit", "polyrt", "delm", "poke", "settol"]
    weights = [3, 5, 5, 5, 4, 4, 4, 4, 2, 2, 1, 3, 2, 2, 3, 3, 2]

    ext_ops = ["get", "set", "del", "delm", "profarr", "reprof", "replayers", "gam", "gam", "logit", "poke"]

    def history(names=None, game=None):
        if game is None:
            try:
                game = make_game()
            except Exception as e:      # the library refused / crashed on a valid construction
                ctx.spec_fail("exception:constructor", "constructor raised %s: %s" % (type(e).__name__, e), {"call": cur.get("call")})
                return
        ctor, g, T, cls, is_poly, rep = game
        exact = cls in ("int", "dyad")
        env = Fraction(0) if exact else Fraction(1e-12) * Fraction(envelope_scale(T))
        ctx.count("ctor:" + ctor.split()[0][5:])
        ctx.count("class:" + cls)
        ctx.count("N=%d" % T.N)
        replay = {"ctor": rep, "ops": []}

        def views(where):
            try:
                check_views(ctx, g, T, where, replay)
                return True
            except Exception as e:
                ctx.spec_fail("exception:views", "%s: reading the game raised %s: %s" % (where, type(e).__name__, e), replay)
                return False
        if not views("after construction"):
            return
        L = rng.randint(1, 4) if names is None else len(names)
        toks, outs, env_ops = [], ["-#" + state_str(g)], set()
        kept = []         # every array the library returned so far: (label, array, its bytes when it was returned)
        old_games = []    # every earlier game object with the payoff function it must still show
        cur["dtol"] = 1e-8
        big = T.N >= 2 and sum(1 for n in T.nums if n >= 2) >= 2
        for k in range(L):
            name = rng.choices(alphabet, weights)[0] if names is None else names[k]
            if cls in EXT and name not in ext_ops:
                name = rng.choice(ext_ops)
            cur["call"] = name
            del inputs[:]
            del returned[:]
            g_before, T_before = g, T
            try:
                res = do_op(g, T, cls, is_poly, name, replay)
            except Exception as e:      # a valid call raised: a failing input, not a tool failure
                if os.environ.get("C14_TRACE"):
                    import traceback
                    traceback.print_exc()
                ctx.spec_fail("exception:" + name, "%s raised %s: %s" % (cur.get("call"), type(e).__name__, e),
                              dict(replay, call=cur.get("call")))
                break
            if res is None:
                continue
            tok, out, g, T, is_poly = res
            toks.append(tok)
            replay = {"ctor": rep, "ops": list(toks)}
            if name == "pv" and not exact:
                env_ops.add(len(toks))
            outs.append(out + "#" + state_str(g))
            # (2) inputs bitwise unchanged; returned arrays alias neither the game, nor the inputs, nor earlier results
            for lab, base, b in inputs:
                if base.tobytes() != b:
                    ctx.spec_fail("input-mutated", "%s changed its input (%s)" % (cur.get("call"), lab), replay)
            own_arrays = [p.payoff_array for p in g.players] + ([] if g is g_before else [p.payoff_array for p in g_before.players])
            for lab, arr in returned:
                if any(np.shares_memory(arr, a) for a in own_arrays):
                    if lab == "payoff_vector" and T.N == 1:
                        finding("payoff-vector-1p-alias", "Player.payoff_vector(None) of a 1-player game returns the stored "
                                "payoff_array itself (a later in-place edit by either side changes the other)", replay)
                        continue
                    ctx.spec_fail("alias:returned-" + lab, "%s: the returned array shares memory with the game's payoff arrays" % cur.get("call"), replay)
                if any(np.shares_memory(arr, a2) for _, a2, _ in kept):
                    ctx.spec_fail("alias:returned-earlier", "%s: the returned array shares memory with an earlier result" % cur.get("call"), replay)
                if any(np.shares_memory(arr, b2) for _, b2, _ in inputs):
                    ctx.spec_fail("alias:returned-input", "%s: the returned array shares memory with an argument" % cur.get("call"), replay)
                kept.append((lab, arr, arr.tobytes()))
            if g is not g_before:
                if any(np.shares_memory(p.payoff_array, q.payoff_array) for p in g.players for q in g_before.players):
                    ctx.spec_fail("alias:new-game-shares-old", "%s: the new game's arrays share memory with the old game's" % cur.get("call"), replay)
                old_games.append((g_before, T_before))
                cur["dtol"] = 1e-8       # new Player objects carry the default tolerance again
            # (1) every earlier result and every earlier game object is what it was
            for lab, arr, b in kept:
                if arr.tobytes() != b:
                    ctx.spec_fail("returned-result-changed", "the array returned earlier by %s changed after %s" % (lab, cur.get("call")), replay)
            for go, To in old_games:
                try:
                    check_views(ctx, go, To, "EARLIER game object after call %d (%s)" % (len(toks), tok.split(":")[0]), replay)
                except Exception as e:
                    ctx.spec_fail("exception:views", "reading an earlier game raised %s: %s" % (type(e).__name__, e), replay)
            # definition-level check of every view after every call
            if not views("after call %d (%s)" % (len(toks), tok.split(":")[0])):
                break
            ctx.count("call:" + tok.split(":")[0])
            env = max(env, Fraction(0) if exact else Fraction(1e-12) * Fraction(envelope_scale(T)))
        ctx.count("history-length=%d" % len(toks))
        line = "C14 run %s ops=%s" % (ctor, "|".join(toks) if toks else "-")
        cases.append(Case(line, "|".join(outs), nontrivial=big and len(toks) >= 1, cmp=make_cmp(env_ops, env),
                          tag="history", meta=replay))

    for _ in range(ctx.n(1500, 15000)):
        history()

    # ---- explicit tolerances x tiny margins ------------------------------------------------------------------------
    # A game in which player i's action b ("twin") pays exactly a's payoff + m at every opponent profile (all
    # payoffs dyadic, so every comparison the code makes is exact or far from its rounding error), every
    # tol-taking call with every kind of tolerance argument, margins just below / at / just above it.
    TOLS = [None, 0, 0.0, 2.0 ** -40, 1e-12, 1e-8, 1e-6, 0.5]
    AROUND = [2.0 ** -e for e in range(26, 32)]          # 2^-31 .. 2^-26, around the default 1e-8

    def margins_for(t):
        t = float(t)
        ms = list(AROUND) + [0.0]
        if t == 0:
            ms += [2.0 ** -40, 2.0 ** -20]
        elif t == 2.0 ** -40:
            ms += [2.0 ** -41, 2.0 ** -40, 2.0 ** -39, 3 * 2.0 ** -41]
        elif t == 1e-12:
            ms += [2.0 ** -40, 2.0 ** -39]
        elif t == 1e-8:
            ms += [2.0 ** -27, 2.0 ** -26, 2.0 ** -27, 2.0 ** -26]
        elif t == 1e-6:
            ms += [2.0 ** -20, 2.0 ** -19, 2.0 ** -20, 2.0 ** -19]
        elif t == 0.5:
            ms += [0.5 - 2.0 ** -30, 0.5, 0.5 + 2.0 ** -30, 0.5, 0.5 - 2.0 ** -30]
        return ms

    def tol_history():
        cur["dtol"] = 1e-8
        N = rng.choice([1, 2, 2, 3, 3, 4])
        while True:
            nums = tuple(rng.randint(1, 3) for _ in range(N))
            i = rng.randrange(N)
            if nums[i] >= 2:
                break
        others = [(i + 1 + k) % N for k in range(N - 1)]
        tol = rng.choice(TOLS)
        t = F(cur["dtol"]) if tol is None else F(tol)
        m = rng.choice(margins_for(t))
        a, b = rng.sample(range(nums[i]), 2)
        const_others = rng.random() < 0.6      # the other players are indifferent: is_nash hinges on player i alone
        u = {}
        profs = list(itertools.product(*[range(n) for n in nums]))
        oprofs = list(itertools.product(*[range(nums[j]) for j in others]))
        base = {r: rng.randint(-36, 36) / 4.0 for r in oprofs}
        special = {c: rng.choice(oprofs) for c in range(nums[i])}
        mode = {c: rng.choice(["below", "somewhere"]) if len(oprofs) >= 2 else "below" for c in range(nums[i])}
        for p in profs:
            r = tuple(p[j] for j in others)
            v = []
            for j in range(N):
                if j != i:
                    v.append(0.0 if const_others else rng.randint(-8, 8) / 4.0)
                elif p[i] == a:
                    v.append(base[r])
                elif p[i] == b:
                    v.append(base[r] + m)
                elif mode[p[i]] == "below":
                    v.append(base[r] - 1.0 - 0.25 * p[i])
                else:       # better than a at one opponent profile, clearly worse elsewhere
                    v.append(base[r] + 2.0 if r == special[p[i]] else base[r] - 3.0)
            u[p] = tuple(v)
        T = Truth(nums, u)
        D = np.empty(nums + (N,))
        for p, v in u.items():
            D[p] = v
        cur["call"] = {"ctor": "prof", "payoff_profile_array": D.tolist()}
        rep_ = {"ctor": "prof", "payoff_profile_array": D.tolist(), "twin": {"player": i, "a": a, "b": b, "margin": m}, "tol": repr(tol)}
        try:
            g = NormalFormGame(D)
        except Exception as e:
            ctx.spec_fail("exception:constructor", "constructor raised %s: %s" % (type(e).__name__, e), rep_)
            return
        ctor = "ctor=prof shape=%s data=%s" % (ints(D.shape), rats(F(x) for x in D.ravel().tolist()))
        st = state_str(g)
        toks, outs = [], ["-#" + st]
        kw = {} if tol is None else {"tol": tol}
        player = g.players[i]
        ctx.count("tol:arg=%r" % (tol,))
        rel = "tie" if F(m) == t else ("below" if F(m) < t else "above")
        ctx.count("tol:margin-%s" % rel)
        ctx.count("tol:N=%d" % N)

        def ui(c, r):
            full = [0] * N
            full[i] = c
            for j, x in zip(others, r):
                full[j] = x
            return F(u[tuple(full)][i])

        def emit(tok, out):
            toks.append(tok)
            outs.append(out + "#" + state_str(g))

        def guarded(what, fn):
            try:
                return True, fn()
            except Exception as e:
                ctx.spec_fail("exception:" + what, "%s raised %s: %s" % (what, type(e).__name__, e), dict(rep_, call=what))
                return False, None

        # -- is_dominated / dominated_actions (N = 1 branch, LP branch, method option) ---------------------------
        def exact_dom(c):
            """(dominated?, certificate or None, decidable in floating point?)"""
            rows = [x for x in range(nums[i]) if x != c]
            if N == 1:
                return max(ui(x, ()) for x in rows + [c]) > ui(c, ()) + t, None, True
            Dm = [[ui(x, r) - ui(c, r) for r in oprofs] for x in rows]
            sol = game_value(Dm)
            if sol is None:
                return None, None, False
            v, x, y = sol
            return v > t, (x, y, v), abs(v - t) > Fraction(1, 10 ** 11) * 16
        want, cert, ok_fp = exact_dom(a)
        if want is not None and ok_fp:
            okc, r = guarded("is_dominated", lambda: bool(call_tol(player.is_dominated, (fint(a),), tol)))
            if okc:
                if r != want:
                    ctx.spec_fail("is_dominated-tol", "is_dominated(%d, tol=%r)=%s on a game where action %d beats it by exactly %r at "
                                  "every profile; definition (value > tol): %s" % (a, tol, r, b, m, want), dict(rep_, action=a))
                ctx.count("tol:dom:%s" % r)
                if N == 1:
                    emit("dom0:%d:%d:%s" % (i, a, tol_tok(tol)), "b%d" % r)
                else:
                    x, y, v = cert
                    emit("domcert:%d:%d:%s:%s:%s:%s" % (i, a, tol_tok(tol), rats(x), rats(y), rat(v)), "b%d" % r)
                    pure_dom = any(all(ui(c, q) > ui(a, q) + t for q in oprofs) for c in range(nums[i]) if c != a)
                    emit("dompure:%d:%d:%s" % (i, a, tol_tok(tol)), "b%d" % pure_dom)
            # dominated_actions forwards tol: compare the whole list where every action is decidable
            full = [exact_dom(c) for c in range(nums[i])]
            if all(w is not None and o for w, _, o in full):
                okc, da = guarded("dominated_actions", lambda: [int(x) for x in call_tol(player.dominated_actions, (), tol)])
                wl = [c for c in range(nums[i]) if full[c][0]]
                if okc and da != wl:
                    ctx.spec_fail("dominated_actions-tol", "dominated_actions(tol=%r)=%s, definition %s" % (tol, da, wl), rep_)
            # linprog path: the solver's own tolerances are ~1e-9, so only margins it can resolve
            if N >= 2 and abs((cert[2] if cert else 0) - t) >= Fraction(1, 2 ** 21):
                okc, r2 = guarded("is_dominated(method)", lambda: bool(player.is_dominated(a, method="highs", **kw)))
                if okc and r2 != want:
                    ctx.spec_fail("is_dominated-linprog-tol", "is_dominated(%d, tol=%r, method='highs')=%s, definition %s" % (a, tol, r2, want), rep_)
                ctx.count("tol:dom:linprog")

        # -- best_response / is_best_response against a pure opponent profile --------------------------------------
        r0 = rng.choice(oprofs)
        opps = list(r0)
        arg = as_arg(N, opps)
        ev = [ui(c, r0) for c in range(nums[i])]
        okc, brs = guarded("best_response", lambda: [int(x) for x in player.best_response(arg, tie_breaking=False, **kw)])
        if okc:
            wl = [c for c, vc in enumerate(ev) if vc >= max(ev) - t]
            if brs != wl:
                ctx.spec_fail("best_response-tol", "best_response(tol=%r, tie_breaking=False)=%s, definition %s (payoffs %s)" % (
                    tol, brs, wl, [float(x) for x in ev]), dict(rep_, opponents=opps))
            emit("br:%d:%s:%s:none" % (i, acts_str(opps), tol_tok(tol)), "i" + ints(brs))
            if len(wl) >= 2:
                kd = rng.randrange(len(wl))
                okr, rd = guarded("best_response(random)", lambda: int(player.best_response(arg, tie_breaking="random",
                                                                                            random_state=FixedDraw(kd), **kw)))
                if okr:
                    if rd != wl[kd]:
                        ctx.spec_fail("best_response-tiebreak", "tie_breaking='random' with draw %d gave %d among %s" % (kd, rd, wl),
                                      dict(rep_, opponents=opps))
                    ctx.count("brr:drawn")
                    emit("brr:%d:%s:%s:none:%d" % (i, acts_str(opps), tol_tok(tol), kd), "i%d" % rd)
        for own in (a, b):
            okc, r = guarded("is_best_response", lambda: bool(player.is_best_response(own, arg, **kw)))
            if okc:
                w = ev[own] >= max(ev) - t
                if r != w:
                    ctx.spec_fail("is_best_response-tol", "is_best_response(%d, tol=%r)=%s, definition %s" % (own, tol, r, w),
                                  dict(rep_, opponents=opps))
                emit("isbr:%d:p%d:%s:%s" % (i, own, acts_str(opps), tol_tok(tol)), "b%d" % r)
        # a mixed own action between a and b (dyadic weights): its payoff lies m/2 below b's
        if True:
            xmix = [0.0] * nums[i]
            xmix[a], xmix[b] = 0.5, 0.5
            okc, r = guarded("is_best_response", lambda: bool(player.is_best_response(np.array(xmix), arg, **kw)))
            if okc:
                w = (ev[a] + ev[b]) / 2 >= max(ev) - t
                if r != w:
                    ctx.spec_fail("is_best_response-tol", "is_best_response(mixed a/b, tol=%r)=%s, definition %s" % (tol, r, w),
                                  dict(rep_, opponents=opps))
                emit("isbr:%d:m%s:%s:%s" % (i, rats(F(x) for x in xmix), acts_str(opps), tol_tok(tol)), "b%d" % r)

        # -- is_nash on the profile where player i plays a ------------------------------------------------------------
        prof = [0] * N
        prof[i] = a
        for j, x in zip(others, r0):
            prof[j] = x
        okn = True
        for j in range(N):
            evj = T.expect_vector(j, [prof[(j + 1 + k) % N] for k in range(N - 1)])
            okn = okn and evj[prof[j]] >= max(evj) - t
        okc, r = guarded("is_nash", lambda: bool(g.is_nash(tuple(prof), **kw)))
        if okc:
            if r != okn:
                ctx.spec_fail("is_nash-tol", "is_nash(%s, tol=%r)=%s, definition %s" % (prof, tol, r, okn), dict(rep_, profile=prof))
            ctx.count("tol:nash:%s" % r)
            emit("nash:%s:%s" % (acts_str(prof), tol_tok(tol)), "b%d" % r)
        check_views(ctx, g, T, "after the tolerance calls", rep_)
        cases.append(Case("C14 run %s ops=%s" % (ctor, "|".join(toks) if toks else "-"), "|".join(outs),
                          nontrivial=True, tag="tolerance", meta=rep_))

    for _ in range(ctx.n(500, 5000)):
        tol_history()

    # ---- pure2mixed and the Numba kernel best_response_2p (alternative entry points of the same convention) -----
    from quantecon.game_theory.normal_form_game import best_response_2p, pure2mixed
    for n in range(1, ctx.n(5, 8)):
        for a in range(-n - 2, n + 2):
            af = fint(a)
            try:
                r = pure2mixed(fint(n) if rng.random() < 0.5 else n, af)
                out = "v" + rats(F(x) for x in r.tolist())
                wantv = [1.0 if k == a % n else 0.0 for k in range(n)]
                if not (-n <= a < n) or r.dtype.kind != "f" or r.tolist() != wantv:
                    ctx.spec_fail("pure2mixed", "pure2mixed(%d, %d) = %r" % (n, a, r), {"n": n, "action": a})
                else:
                    # bridge: the mixed representation of a pure action gives the same payoff vector
                    Mp = np.array([[rng.randint(-9, 9) for _ in range(n)] for _ in range(3)], dtype=float)
                    pp_ = Player(Mp)
                    if pp_.payoff_vector(r).tolist() != pp_.payoff_vector(a % n).tolist() or \
                            int(pp_.best_response(r)) != int(pp_.best_response(a % n)):
                        ctx.spec_fail("pure2mixed-bridge", "payoff_vector(pure2mixed(%d,%d)) differs from payoff_vector(%d)" % (n, a, a % n),
                                      {"n": n, "action": a, "payoff_array": Mp.tolist()})
                ctx.count("p2m:ok")
            except IndexError:
                out = "ERR:IndexError"
                ctx.count("p2m:IndexError")
                if -n <= a < n:
                    ctx.spec_fail("pure2mixed", "pure2mixed(%d, %d) raised IndexError" % (n, a), {"n": n, "action": a})
            cases.append(Case("C14 p2m n=%d a=%d" % (n, a), out, nontrivial=(n >= 2 and -n <= a < n), tag="pure2mixed"))
    for _ in range(ctx.n(250, 2500)):
        n, m = rng.randint(1, 5), rng.randint(1, 5)
        M2 = np.array([[rng.randint(-36, 36) / 4.0 for _ in range(m)] for _ in range(n)])
        if n >= 2 and rng.random() < 0.5:       # a twin row a tiny margin above / below / equal to another
            a_, b_ = rng.sample(range(n), 2)
            M2[b_] = M2[a_] + rng.choice([0.0, 2.0 ** -30, -2.0 ** -30, 2.0 ** -20, 0.5])
            ctx.count("br2p:twin-rows")
        xk = rng.randrange(3)
        x2 = mixed(m, "dyad") if xk == 0 else (pure2mixed(m, rng.randrange(m)) if xk == 1 else np.full(m, 0.25))
        tol = rng.choice([None, 0.0, 0.5, 2.0 ** -20, 1e-8, 2.0 ** -31, -1.0])
        tolv = F(1e-8) if tol is None else F(tol)
        pv = [sum(F(M2[a, b].item()) * F(float(x2[b])) for b in range(m)) for a in range(n)]
        wl = [a for a in range(n) if pv[a] >= max(pv) - tolv]
        cur["call"] = "best_response_2p(%s, %s, tol=%r)" % (M2.tolist(), x2.tolist(), tol)
        try:
            x_before, M_before = x2.tobytes(), M2.tobytes()
            r = best_response_2p(M2, x2) if tol is None else (best_response_2p(M2, x2, tol) if rng.random() < 0.5 else best_response_2p(M2, x2, tol=tol))
            if x2.tobytes() != x_before or M2.tobytes() != M_before:
                ctx.spec_fail("input-mutated", "best_response_2p changed its arguments", {"call": cur["call"]})
        except Exception as e:
            ctx.spec_fail("exception:best_response_2p", "%s raised %s: %s" % (cur["call"], type(e).__name__, e), {"call": cur["call"]})
            continue
        want2 = wl[0] if wl else None
        if r != want2:
            ctx.spec_fail("best_response_2p", "best_response_2p = %r, definition (least a with pv[a] >= max - tol) %r; pv = %s" % (
                r, want2, [float(v) for v in pv]), {"payoff_matrix": M2.tolist(), "x": x2.tolist(), "tol": tol})
        if tol is None or tol >= 0:
            sm = int(Player(M2).best_response(x2, **({} if tol is None else {"tol": tol})))
            if sm != r:
                ctx.spec_fail("best_response_2p-vs-player", "best_response_2p = %r but Player.best_response = %r" % (r, sm),
                              {"payoff_matrix": M2.tolist(), "x": x2.tolist(), "tol": tol})
        ctx.count("br2p:none" if r is None else ("br2p:tie-broken" if len(wl) > 1 else "br2p:unique"))
        cases.append(Case("C14 br2p n=%d m=%d data=%s x=%s tol=%s" % (n, m, rats(F(v) for v in M2.ravel().tolist()),
                                                                    rats(F(float(v)) for v in x2), "none" if tol is None else rat(F(tol))),
                          "none" if r is None else "i%d" % r, nontrivial=(n >= 2 and m >= 2), tag="best_response_2p"))

    # ---- every pair / triple of state-changing and observing calls on small games -------------------------
    seqs = list(itertools.product(["set", "del", "gam", "reprof", "logit", "pv", "nash"], repeat=2))
    if ctx.thorough:
        seqs += list(itertools.product(["set", "del", "gam", "reprof", "logit", "get", "br"], repeat=3))
    for s in seqs:
        history(names=list(s))
    ctx.extra["op_sequences_enumerated"] = len(seqs)

    # ---- a GAM round trip with more than 1000 entries, 17-digit payoffs ------------------------------------
    for nums in ([(7, 7, 7)] if not ctx.thorough else [(7, 7, 7), (4, 5, 4, 4), (36, 15)]):
        N = len(nums)
        u = {p: tuple(value("f17") for _ in range(N)) for p in itertools.product(*[range(n) for n in nums])}
        D = np.empty(nums + (N,))
        for p, v in u.items():
            D[p] = v
        g = NormalFormGame(D)
        ctx.count("gam:>1000-entries")
        history(names=["gam", "get"], game=("ctor=prof shape=%s data=%s" % (ints(D.shape), rats(F(x) for x in D.ravel().tolist())),
                                            g, Truth(nums, u), "f17", False, {"ctor": "prof", "nums": list(nums), "seeded": True}))

    ctx.run_cases(cases)
    try:
        for f in os.listdir(tmpdir):
            os.remove(os.path.join(tmpdir, f))
        os.rmdir(tmpdir)
    except OSError:
        pass
