"""C16 — grid and combinatorial enumerations: correspondence + spec run."""
import itertools
import math
from fractions import Fraction

import numpy as np

from .common import Case, ints, intm, rats, ratm, fx, fxs, fxm

FILES = ["quantecon/_gridtools.py", "quantecon/util/combinatorics.py", "quantecon/util/numba.py"]

INTP_MAX = 2 ** 63 - 1


def compositions(m, n):
    """all m-part compositions of n in lexicographic order (independent oracle)"""
    if m == 1:
        return [(n,)]
    return [(i,) + r for i in range(n + 1) for r in compositions(m - 1, n - i)]


def comb_spec(N, k):
    """what the property allows comb_jit to return: (exact value, zero_allowed)"""
    if N < 0 or k < 0 or k > N:
        return 0, True
    nterms = min(k, N - k)
    # (math.comb on astronomically large arguments never returns; such values cannot fit anyway)
    exact = math.comb(N, nterms) if nterms <= 70 else None
    # 0 is allowed only when an intermediate product would overflow
    val, over = 1, False
    for j in range(1, nterms + 1):
        if val * (N + 1 - j) > INTP_MAX:
            over = True
            break
        val = val * (N + 1 - j) // j
    return exact, over


# ---------------------------------------------------------------------------------------------
# round 2: purity (arguments bitwise unchanged, outputs not aliased to inputs), call HISTORIES
# (same container objects reused, grids replaced / edited in place between calls, results kept
# and re-checked) and ARGUMENT FORMS (lists, tuples, small / unsigned / float32 dtypes, strided
# views, F-order, mixed dtypes, NumPy-scalar parameters)


def _snap(obj):
    """bitwise snapshot of an argument: ndarray with the whole buffer it is a view of; list/tuple recursively"""
    if isinstance(obj, np.ndarray):
        base = obj
        while isinstance(base.base, np.ndarray):
            base = base.base
        return ("nd", obj.dtype.str, obj.shape, obj.strides, obj.tobytes(), base.tobytes())
    if isinstance(obj, (list, tuple)):
        return (type(obj).__name__, tuple(_snap(e) for e in obj))
    return ("v", type(obj).__name__, repr(obj))


def _arrays_in(obj):
    if isinstance(obj, np.ndarray):
        yield obj
    elif isinstance(obj, (list, tuple)):
        for e in obj:
            yield from _arrays_in(e)


def _plain(obj):
    """JSON-able rendering of an argument for replays"""
    if isinstance(obj, np.ndarray):
        return {"dtype": obj.dtype.str, "strides": list(obj.strides), "values": obj.tolist()}
    if isinstance(obj, (list, tuple)):
        return {"type": type(obj).__name__, "items": [_plain(e) for e in obj]}
    if isinstance(obj, Fraction):
        return str(obj)
    if isinstance(obj, np.generic):
        return {"scalar": type(obj).__name__, "value": obj.item()}
    return obj


def _pure(ctx, site, args, thunk, inplace_ok=()):
    """run thunk(); every argument must be bitwise unchanged afterwards (except those listed in inplace_ok, for
    routines documented to work in place) and an ndarray result must not share memory with an argument"""
    before = [_snap(a) for a in args]
    out = thunk()
    for j, a in enumerate(args):
        if j in inplace_ok:
            continue
        if _snap(a) != before[j]:
            ctx.spec_fail(site + ":mutates-argument", "%s changed its argument #%d in place" % (site, j),
                          {"site": site, "arg": j, "before": repr(before[j][:4]) if before[j][0] == "nd" else repr(before[j]),
                           "after": _plain(a), "args": [_plain(t) for t in args]})
    if isinstance(out, np.ndarray):
        for j, a in enumerate(args):
            if j in inplace_ok:
                continue
            for arr in _arrays_in(a):
                if np.shares_memory(out, arr):
                    ctx.spec_fail(site + ":aliases-argument", "%s returned an array sharing memory with argument #%d" % (site, j),
                                  {"site": site, "arg": j, "args": [_plain(t) for t in args]})
    ctx.count("pure-call:" + site)
    return out


def _colex_succ(a):
    """the k-subset following `a` in combinatorial-number-system order (independent of the code's loop)"""
    a = list(a)
    k = len(a)
    j = 0
    while j < k - 1 and a[j] + 1 == a[j + 1]:
        j += 1
    return list(range(j)) + [a[j] + 1] + a[j + 1:]


def _nearest_ok(grids, x, order, got):
    """grids: lists of Fractions; is `got` the row number (in the enumeration of `cartesian`, same order) of a point at
    minimum Euclidean distance from x?"""
    if order == "C":
        pts = list(itertools.product(*grids))
    else:
        pts = [tuple(reversed(t)) for t in itertools.product(*reversed(grids))]
    d2 = [sum((p - xi) ** 2 for p, xi in zip(row, x)) for row in pts]
    return 0 <= got < len(d2) and d2[got] == min(d2)


_INT_FORMS = ["list", "tuple", "i1", "i2", "i4", "i8", "u1", "u2", "u4", "u8", "strided", "revstrided"]


def _int_form(vals, form):
    """the integer vector `vals` (small non-negative entries) in the given argument form"""
    vals = [int(v) for v in vals]
    if form == "list":
        return list(vals)
    if form == "tuple":
        return tuple(vals)
    if form == "strided":
        big = np.full(2 * len(vals) + 1, 77, dtype=np.int64)
        big[1::2] = vals
        return big[1::2]
    if form == "revstrided":
        big = np.array(vals[::-1], dtype=np.int64)
        return big[::-1]
    return np.array(vals, dtype=np.dtype(form[0] + form[1]))


def run_forms_histories(ctx, cases, gt, comb_jit, next_k_array, k_array_rank, k_array_rank_jit, Mm, Nn):
    rng = ctx.rng

    # ---- simplex_index on the rows of the grid itself: two passes, the grid must stay the grid -------------------
    for m in range(1, Mm + 1):
        for n in range(0, Nn + 1):
            ref = compositions(m, n)
            G = gt.simplex_grid(m, n)
            G0 = G.tobytes()
            bad = None
            for pas in (1, 2):
                for i in range(len(ref)):
                    idx = int(gt.simplex_index(G[i], m, n))
                    if idx != i and bad is None:
                        bad = (pas, i, idx)
            ctx.count("history:simplex-two-passes")
            if bad is not None:
                ctx.spec_fail("simplex_index_history", "simplex_index(G[%d],%d,%d)=%d on pass %d over the rows of G=simplex_grid(%d,%d)"
                              % (bad[1], m, n, bad[2], bad[0], m, n), {"op": "sindex-history", "m": m, "n": n, "row": bad[1], "pass": bad[0], "got": bad[2]})
            if G.tobytes() != G0 or [tuple(r) for r in G.tolist()] != ref:
                ctx.spec_fail("simplex_index:mutates-argument", "after passing its rows to simplex_index, simplex_grid(%d,%d) no longer "
                              "lists the compositions (first changed row: %s)" % (m, n, next((r for r, q in zip(G.tolist(), ref) if tuple(r) != q), None)),
                              {"op": "sindex-history", "m": m, "n": n, "grid_after": G.tolist()})
    # ---- simplex_index / num_compositions / simplex_grid: argument forms, each call twice on the same object -------
    scal = [int, np.int64, np.int32, np.int16, np.uint8, np.intp]
    for _ in range(ctx.n(250, 1500)):
        m = rng.randint(1, Mm)
        n = rng.randint(0, Nn)
        ref = compositions(m, n)
        i = rng.randrange(len(ref))
        form = rng.choice(_INT_FORMS + ["gridrow-F"])
        if form == "gridrow-F":
            xarg = np.asfortranarray(gt.simplex_grid(m, n))[i]
        else:
            xarg = _int_form(ref[i], form)
        st = rng.choice(scal)
        mm, nn = st(m), st(n)
        r1 = _pure(ctx, "simplex_index", [xarg], lambda: gt.simplex_index(xarg, mm, nn))
        r2 = _pure(ctx, "simplex_index", [xarg], lambda: gt.simplex_index(xarg, mm, nn))
        ctx.count("form:simplex_index:x=%s" % form)
        ctx.count("form:scalar=%s" % st.__name__)
        if int(r1) != i or int(r2) != i:
            ctx.spec_fail("simplex_index_forms", "simplex_index(%s as %s, %s(%d), %s(%d)) = %s then %s, position %d"
                          % (ref[i], form, st.__name__, m, st.__name__, n, r1, r2, i),
                          {"op": "sindex", "x": list(ref[i]), "form": form, "scalar": st.__name__, "m": m, "n": n, "got": [int(r1), int(r2)]})
        cases.append(Case("C16 sindex x=%s m=%d n=%d" % (ints(ref[i]), m, n), str(int(r1)), nontrivial=(m >= 2 and n >= 1), tag="sindex"))
        L = int(gt.num_compositions(mm, nn))
        Lj = int(gt.num_compositions_jit(mm, nn))
        if L != len(ref) or Lj != len(ref):
            ctx.spec_fail("num_compositions_forms", "num_compositions(%s(%d),%s(%d)) = %d / jit %d, true %d" % (st.__name__, m, st.__name__, n, L, Lj, len(ref)),
                          {"op": "numcomp", "m": m, "n": n, "scalar": st.__name__})
    for st in (np.int64, np.int32, np.uint8):
        for (m, n) in [(1, 0), (3, 0), (2, 5), (4, 3), (5, 2)]:
            G = gt.simplex_grid(st(m), st(n))
            if [tuple(r) for r in G.tolist()] != compositions(m, n):
                ctx.spec_fail("simplex_grid_forms", "simplex_grid(%s(%d),%s(%d)) is not the lexicographic list" % (st.__name__, m, st.__name__, n),
                              {"op": "simplex", "m": m, "n": n, "scalar": st.__name__, "got": G.tolist()})
            ctx.count("form:simplex_grid:scalar=%s" % st.__name__)
    # ---- comb_jit with NumPy-scalar arguments --------------------------------------------------------------------
    for _ in range(ctx.n(100, 500)):
        N = rng.randint(0, 70)
        k = rng.randint(0, N)
        st = rng.choice([np.int64, np.int32, np.int16, np.int8, np.uint8, np.intp])
        got = int(comb_jit(st(N), st(k)))
        exact, zero_ok = comb_spec(N, k)
        if not (got == exact or (got == 0 and zero_ok)) or got != int(comb_jit(N, k)):
            ctx.spec_fail("comb_jit_forms", "comb_jit(%s(%d),%s(%d))=%d, exact %s" % (st.__name__, N, st.__name__, k, got, exact),
                          {"op": "comb", "N": N, "k": k, "scalar": st.__name__, "got": got})
        ctx.count("form:comb_jit:scalar=%s" % st.__name__)
    # ---- k_array_rank[_jit]: forms, purity, twice on the same object ----------------------------------------------
    for _ in range(ctx.n(200, 1200)):
        k = rng.randint(1, 6)
        a = sorted(rng.sample(range(0, 40), k))
        ref = sum(math.comb(ai, i + 1) for i, ai in enumerate(a))
        form = rng.choice(_INT_FORMS)
        aarg = _int_form(a, form)
        r1 = _pure(ctx, "k_array_rank", [aarg], lambda: k_array_rank(aarg))
        r2 = _pure(ctx, "k_array_rank", [aarg], lambda: k_array_rank(aarg))
        ctx.count("form:k_array_rank:a=%s" % form)
        if int(r1) != ref or int(r2) != ref:
            ctx.spec_fail("k_array_rank_forms", "k_array_rank(%s as %s) = %s then %s, rank %d" % (a, form, r1, r2, ref),
                          {"op": "krank", "a": a, "form": form, "got": [int(r1), int(r2)]})
        cases.append(Case("C16 krank a=%s" % ints(a), str(int(r1)), nontrivial=(k >= 2), tag="krank"))
        jform = rng.choice(["i8", "i4", "i2", "strided"])
        jarg = _int_form(a, jform)
        j1 = _pure(ctx, "k_array_rank_jit", [jarg], lambda: k_array_rank_jit(jarg))
        j2 = _pure(ctx, "k_array_rank_jit", [jarg], lambda: k_array_rank_jit(jarg))
        ctx.count("form:k_array_rank_jit:a=%s" % jform)
        if int(j1) != ref or int(j2) != ref:
            ctx.spec_fail("k_array_rank_jit_forms", "k_array_rank_jit(%s as %s) = %s then %s, rank %d" % (a, jform, j1, j2, ref),
                          {"op": "krankjit", "a": a, "form": jform, "got": [int(j1), int(j2)]})
    # ---- next_k_array is DOCUMENTED to work in place and to return a view of `a` ------------------------------------
    for _ in range(ctx.n(150, 1000)):
        k = rng.randint(1, 6)
        run_ = rng.randint(0, k)
        start = rng.randint(0, 3)
        a = list(range(start, start + run_)) + sorted(rng.sample(range(start + run_ + rng.randint(0, 1), start + run_ + 20), k - run_))
        form = rng.choice(["i8", "i4", "i2", "strided"])
        aarg = _int_form(a, form)
        base = aarg
        while isinstance(base.base, np.ndarray):
            base = base.base
        out = next_k_array(aarg)
        want = _colex_succ(a)
        ctx.count("form:next_k_array:a=%s" % form)
        if not (isinstance(out, np.ndarray) and np.shares_memory(out, aarg)) or out.tolist() != want or aarg.tolist() != want:
            ctx.spec_fail("next_k_array_inplace", "next_k_array(%s as %s): returned %s, `a` is now %s, successor is %s (must be updated in place "
                          "and returned as a view)" % (a, form, np.asarray(out).tolist(), aarg.tolist(), want),
                          {"op": "nextk", "a": a, "form": form, "got": np.asarray(out).tolist(), "a_after": aarg.tolist()})
        if form == "strided" and (base[0::2] != 77).any():
            ctx.spec_fail("next_k_array_inplace", "next_k_array wrote outside the strided view it was given", {"op": "nextk", "a": a, "base_after": base.tolist()})
        cases.append(Case("C16 nextk a=%s" % ints(a), ints(aarg.tolist()), nontrivial=(k >= 2), tag="nextk"))
    # a whole walk on ONE array object, states kept (copies) and re-checked at the end
    for (n, k) in [(5, 2), (6, 3), (7, 4), (6, 6), (5, 1)]:
        a = np.arange(k)
        kept = []
        while a[-1] < n:
            kept.append(a.copy())
            r = next_k_array(a)
            if r is not a and not np.shares_memory(r, a):
                ctx.spec_fail("next_k_array_inplace", "next_k_array did not return a view of its argument", {"op": "nextk", "n": n, "k": k})
        ref = sorted(itertools.combinations(range(n), k), key=lambda c: tuple(reversed(c)))
        if [tuple(int(t) for t in s_) for s_ in kept] != ref:
            ctx.spec_fail("next_k_array_history", "in-place walk over %d-subsets of %d on one array object is not the colex enumeration" % (k, n),
                          {"op": "nextk", "n": n, "k": k})
        ctx.count("history:next_k_array-walk-one-object")

    # ---- cartesian / mlinspace: forms, purity, same container re-used with edits in between ------------------------
    def grid_form(vals, form):
        if form == "lf":
            return [float(v) for v in vals]
        if form == "li":
            return [int(v) for v in vals]
        if form == "tf":
            return tuple(float(v) for v in vals)
        if form == "sv":                       # strided float64 view
            big = np.full(2 * len(vals) + 1, 1e6)
            big[1::2] = [float(v) for v in vals]
            return big[1::2]
        if form == "rv":                       # negative-stride int64 view
            return np.array([int(v) for v in vals][::-1], dtype=np.int64)[::-1]
        return np.array(vals, dtype={"f64": np.float64, "f32": np.float32, "i64": np.int64, "i32": np.int32, "i8": np.int8,
                                     "u8": np.uint8}[form])

    def exact(g):
        return [Fraction(float(v)) for v in (g.tolist() if isinstance(g, np.ndarray) else g)]

    cart_templates = [("f64", "f64"), ("i64", "i64", "i64"), ("li", "lf"), ("tf", "i64"), ("f32", "f32"), ("i32", "f64"),
                      ("sv", "f64"), ("rv", "i64"), ("u8", "i8", "i64"), ("li",), ("f64", "i64", "f32", "li")]
    for tpl in cart_templates:
        for rep in range(ctx.n(2, 8)):
            cont = rng.choice([list, tuple])
            integral = all(f in ("i64", "i32", "i8", "u8", "li", "rv") for f in tpl)
            def fresh(f):
                ln = rng.randint(1, 4)
                if f in ("i64", "i32", "i8", "u8", "li", "rv"):
                    return grid_form(sorted(rng.sample(range(0, 40), ln)), f)
                return grid_form([v / 4 for v in sorted(rng.sample(range(-16, 17), ln))], f)
            nodes = cont(fresh(f) for f in tpl)
            kept = []
            for step in range(3):
                order = rng.choice("CF")
                got = _pure(ctx, "cartesian", [nodes], lambda: gt.cartesian(nodes, order=order))
                ex = [exact(g) for g in nodes]
                if order == "C":
                    ref = [list(t) for t in itertools.product(*ex)]
                else:
                    ref = [list(reversed(t)) for t in itertools.product(*reversed(ex))]
                gl = [[Fraction(float(v)) for v in row] for row in got.tolist()]
                if gl != ref or got.shape != (len(ref), len(tpl)):
                    ctx.spec_fail("cartesian_forms", "cartesian(%s as %s of %s, order=%s), call %d on the same container, is not the product grid"
                                  % ([[str(v) for v in g] for g in ex], cont.__name__, list(tpl), order, step + 1),
                                  {"op": "cartesian", "nodes": [[str(v) for v in g] for g in ex], "forms": list(tpl), "container": cont.__name__,
                                   "order": order, "call": step + 1, "got": got.tolist()})
                if integral and step == 0:
                    cases.append(Case("C16 cartesian nodes=%s order=%s" % (intm([[int(v) for v in g] for g in ex]), order),
                                      intm([[int(v) for v in row] for row in got.tolist()]), nontrivial=(len(tpl) >= 2), tag="cartesian"))
                kept.append((got, got.tobytes()))
                ctx.count("history:cartesian-call-%d" % (step + 1))
                # between calls: replace a grid (list container) or edit one in place
                j = rng.randrange(len(tpl))
                if cont is list and rng.random() < 0.5:
                    nodes[j] = fresh(tpl[j]); ctx.count("history:cartesian-replace-grid")
                elif isinstance(nodes[j], np.ndarray):
                    nodes[j][...] = nodes[j] + (3 if nodes[j].dtype.kind in "iu" else 2.5); ctx.count("history:cartesian-edit-array-in-place")
                elif isinstance(nodes[j], list):
                    for t in range(len(nodes[j])):
                        nodes[j][t] = nodes[j][t] + 3
                    ctx.count("history:cartesian-edit-list-in-place")
            for (arr, bts) in kept:
                if arr.tobytes() != bts:
                    ctx.spec_fail("cartesian:result-overwritten", "an array returned by cartesian changed during later calls",
                                  {"op": "cartesian", "forms": list(tpl)})
    for _ in range(ctx.n(20, 100)):
        d = rng.randint(1, 3)
        lo = [rng.randint(-4, 4) for _ in range(d)]
        hi = [l_ + rng.randint(0, 6) for l_ in lo]
        nums = [rng.randint(1, 4) for _ in range(d)]
        kind = rng.choice(["list", "tuple", "array", "mixed"])
        A = {"list": lo, "tuple": tuple(lo), "array": np.array(lo, dtype=np.int32), "mixed": np.array(lo, dtype=np.float32)}[kind]
        B = {"list": hi, "tuple": tuple(hi), "array": np.array(hi, dtype=np.int64), "mixed": hi}[kind]
        Nu = {"list": nums, "tuple": tuple(nums), "array": np.array(nums, dtype=np.int16), "mixed": np.array(nums, dtype=np.uint8)}[kind]
        order = rng.choice("CF")
        got = _pure(ctx, "mlinspace", [A, B, Nu], lambda: gt.mlinspace(A, B, Nu, order=order))
        lin = [np.linspace(float(lo[i]), float(hi[i]), nums[i]).tolist() for i in range(d)]
        ref = [list(t) for t in itertools.product(*lin)] if order == "C" else [list(reversed(t)) for t in itertools.product(*reversed(lin))]
        if got.shape != (len(ref), d) or got.tolist() != ref:
            ctx.spec_fail("mlinspace_forms", "mlinspace(%s,%s,%s as %s,%s) is not the product of the linspaces" % (lo, hi, nums, kind, order),
                          {"op": "mlinspace", "a": lo, "b": hi, "nums": nums, "order": order, "form": kind})
        ctx.count("form:mlinspace:%s" % kind)

    # ---- cartesian_nearest_index: HISTORIES on one `nodes` container + argument forms ------------------------------
    # (template = grid forms per dimension, container, form of x; a fixed menu keeps the number of jitted signatures small)
    near_templates = [
        (("f64", "f64"), list, "f64"), (("lf", "f64"), list, "list"), (("i64", "f64"), tuple, "f64"), (("li", "i64"), list, "ilist"),
        (("f32", "f32", "f32"), tuple, "f32"), (("sv", "f64"), list, "tuple"), (("u8", "f64"), list, "2dF"), (("f64",), list, "f64"),
        (("lf", "lf"), list, "2dlist"), (("i32", "lf"), list, "f64"), (("rv", "i64"), tuple, "iarr"),
    ]
    INTF = ("i64", "i32", "i8", "u8", "li", "rv")
    for (tpl, cont, xform) in near_templates:
        for rep in range(ctx.n(4, 20)):
            allint = all(f in INTF for f in tpl)
            def fresh(f):
                ln = rng.randint(1, 5)
                if f in INTF:
                    return grid_form(sorted(rng.sample(range(0, 40), ln)), f)
                return grid_form([v / 4 for v in sorted(rng.sample(range(-16, 17), ln))], f)
            nodes = cont(fresh(f) for f in tpl)
            keptb = []
            for step in range(4):
                ex = [exact(g) for g in nodes]
                intx = xform in ("ilist", "iarr")
                def query(g):
                    kind = rng.randrange(5)
                    if kind == 0:
                        return rng.choice(g)
                    if kind == 1 and len(g) >= 2 and not intx:
                        t = rng.randrange(len(g) - 1)
                        return (g[t] + g[t + 1]) / 2
                    if kind == 2:
                        return g[0] - (rng.randint(0, 3) if intx else Fraction(rng.randint(0, 8), 8))
                    if kind == 3:
                        return g[-1] + (rng.randint(0, 3) if intx else Fraction(rng.randint(0, 8), 8))
                    lo_, hi_ = g[0], g[-1]
                    if intx:
                        return Fraction(rng.randint(int(lo_) - 2, int(hi_) + 2))
                    return lo_ + Fraction(rng.randint(-8, int((hi_ - lo_) * 8) + 8), 8)
                npts = 2 if xform in ("2dF", "2dlist") else 1
                xs = [[query(g) for g in ex] for _p in range(npts)]
                if xform == "f64":
                    xarg = np.array([float(v) for v in xs[0]])
                elif xform == "f32":
                    xarg = np.array([float(v) for v in xs[0]], dtype=np.float32)
                elif xform == "list":
                    xarg = [float(v) for v in xs[0]]
                elif xform == "tuple":
                    xarg = tuple(float(v) for v in xs[0])
                elif xform == "ilist":
                    xarg = [int(v) for v in xs[0]]
                elif xform == "iarr":
                    xarg = np.array([int(v) for v in xs[0]], dtype=np.int32)
                elif xform == "2dF":
                    xarg = np.asfortranarray(np.array([[float(v) for v in row] for row in xs]))
                else:
                    xarg = [[float(v) for v in row] for row in xs]
                order = rng.choice("CF")
                got = _pure(ctx, "cartesian_nearest_index", [xarg, nodes], lambda: gt.cartesian_nearest_index(xarg, nodes, order=order))
                gots = [int(t) for t in np.atleast_1d(got)]
                ctx.count("history:nearest-call-%d" % (step + 1))
                ctx.count("form:nearest:x=%s" % xform)
                for row, gi in zip(xs, gots):
                    if not _nearest_ok(ex, row, order, gi):
                        ctx.spec_fail("cartesian_nearest_index_history",
                                      "call %d with the same `nodes` %s (grid forms %s, x as %s): index %d is not a nearest point of the CURRENT grids %s for x=%s, order=%s"
                                      % (step + 1, cont.__name__, list(tpl), xform, gi, [[str(v) for v in g] for g in ex], [str(v) for v in row], order),
                                      {"op": "nearest-history", "call": step + 1, "container": cont.__name__, "forms": list(tpl), "xform": xform,
                                       "nodes": [[str(v) for v in g] for g in ex], "x": [str(v) for v in row], "order": order, "got": gi})
                    cases.append(Case("C16 nearest nodes=%s x=%s order=%s" % (ratm(ex), rats(row), order), str(gi),
                                      nontrivial=(max(len(g) for g in ex) >= 2), tag="nearest"))
                if isinstance(got, np.ndarray):
                    keptb.append((got, got.tobytes()))
                # between calls: nothing / replace a grid (list container) / edit a grid in place
                act = rng.randrange(4)
                j = rng.randrange(len(tpl))
                if act == 0:
                    ctx.count("history:nearest-same-grids")
                elif act == 1 and cont is list:
                    nodes[j] = fresh(tpl[j]); ctx.count("history:nearest-replace-grid")
                elif isinstance(nodes[j], np.ndarray):
                    sh = rng.choice([3, 5, 7])
                    if nodes[j].dtype == np.uint8 or nodes[j].dtype == np.int8:
                        sh = 3
                    nodes[j][...] = nodes[j] + sh
                    ctx.count("history:nearest-edit-array-in-place:" + tpl[j])
                elif isinstance(nodes[j], list):
                    sh = rng.choice([3, 5, 7])
                    for t in range(len(nodes[j])):
                        nodes[j][t] = nodes[j][t] + sh
                    ctx.count("history:nearest-edit-list-in-place")
                else:
                    ctx.count("history:nearest-same-grids")
            for (arr, bts) in keptb:
                if arr.tobytes() != bts:
                    ctx.spec_fail("cartesian_nearest_index:result-overwritten", "an index array returned earlier changed during later calls",
                                  {"op": "nearest-history", "forms": list(tpl)})


def run_api(ctx, cases, gt):
    """round 4: cartesian / mlinspace AS CALLED — argument handling and error branches (cartesianApi, linspace,
    mlGrids, mlinspaceApi of the model); mlinspace outputs are compared bit for bit with the model run at Float"""
    rng = ctx.rng

    def call(f):
        try:
            return f()
        except (ValueError, ZeroDivisionError, IndexError) as e:
            return "ERR:" + type(e).__name__

    # ---- cartesian: valid + malformed (no grids, empty grids, other order strings) ---------------------------------
    streams = []
    for _ in range(ctx.n(60, 300)):
        d = rng.randint(1, 4)
        streams.append(([[rng.randint(-9, 9) for _ in range(rng.randint(1, 4))] for _ in range(d)], rng.choice(["C", "F", "F", "C", "X", "c", "f", ""])))
    for _ in range(ctx.n(40, 200)):           # malformed: some grid empty / no grid at all
        d = rng.randint(0, 4)
        nodes = [[rng.randint(-9, 9) for _ in range(rng.randint(0, 3))] for _ in range(d)]
        if d and all(nodes) and rng.random() < 0.8:
            nodes[rng.randrange(d)] = []
        streams.append((nodes, rng.choice(["C", "F", "X"])))
    for nodes, order in streams:
        out = call(lambda: gt.cartesian([np.array(g, dtype=np.int64) for g in nodes], order=order))
        if isinstance(out, str):
            impl = out
            ctx.count("cartapi:" + out)
            # the product of the grids is well defined (empty) when a grid is empty: only these two exits are modelled
            if not ((out == "ERR:ValueError" and not nodes) or (out == "ERR:ZeroDivisionError" and nodes and not all(nodes))):
                ctx.spec_fail("cartesian_error_branch", "cartesian(%s, order=%r) raised %s" % (nodes, order, out),
                              {"op": "cartapi", "nodes": nodes, "order": order, "got": out})
        else:
            impl = intm(out.tolist())
            ctx.count("cartapi:ok-order-" + ("C" if order == "C" else "F" if order == "F" else "other"))
            if order == "C":
                ref = [list(t) for t in itertools.product(*nodes)]
            else:                               # anything but 'C' takes the F branch
                ref = [list(reversed(t)) for t in itertools.product(*reversed(nodes))]
            if out.tolist() != ref:
                ctx.spec_fail("cartesian_api", "cartesian(%s, order=%r) is not the product grid" % (nodes, order),
                              {"op": "cartapi", "nodes": nodes, "order": order, "got": out.tolist()})
        enc = "none" if not nodes else ";".join(ints(g) for g in nodes)
        cases.append(Case("C16 cartapi nodes=%s order=%s" % (enc, order if order else "_"), impl, nontrivial=(len(nodes) >= 2), tag="cartapi"))

    # ---- mlinspace: valid stream (bit-exact) + malformed stream ------------------------------------------------------
    pool = [0.0, 1.0, -1.0, 0.5, 0.25, 3.0, 10.0, 0.1, 0.3, 0.7, 1.0 / 3.0, 2.0 / 3.0, 1e-3, 1e10, -2.5, 7.0, 100.0, 0.1 + 0.2]
    def val():
        k = rng.randrange(3)
        if k == 0:
            return float(rng.randint(-6, 6))
        if k == 1:
            return rng.randint(-64, 64) / 16.0
        return rng.choice(pool)
    for it in range(ctx.n(250, 1500)):
        d = rng.randint(1, 3)
        malformed = rng.random() < 0.25
        nums = [rng.randint(1, 6) for _ in range(d)]
        la, lb = d + rng.choice([0, 0, 1]), d + rng.choice([0, 0, 2])
        if malformed:
            kind = rng.randrange(5)
            if kind == 0:
                nums[rng.randrange(d)] = -rng.randint(1, 3)
            elif kind == 1:
                la = rng.randint(0, d - 1)
            elif kind == 2:
                lb = rng.randint(0, d - 1)
            elif kind == 3:
                nums[rng.randrange(d)] = 0
            else:                                # several defects at once: the first failing index decides
                nums = [rng.choice([-1, 0, 2, 3]) for _ in range(d)]
                la, lb = rng.randint(0, d), rng.randint(0, d)
            if rng.random() < 0.1:
                nums, la, lb = [], 0, 0
        a = [val() for _ in range(la)]
        b = [(a[i] if i < la and rng.random() < 0.15 else val()) for i in range(lb)]
        order = rng.choice(["C", "F", "C", "F", "X"])
        out = call(lambda: gt.mlinspace(a, b, nums, order=order))
        if isinstance(out, str):
            impl = out
            ctx.count("mlinspace:" + out)
        else:
            impl = fxm(out.tolist())
            ctx.count("mlinspace:ok")
            # spec (exact, independent of the model): every grid starts at a[i] and, with >= 2 nodes, ends exactly at b[i];
            # the rows are the product of the per-dimension node lists in the requested order
            cols = []
            for i in range(len(nums)):
                col = sorted(set(out[:, i].tolist()), reverse=(b[i] < a[i]))
                cols.append(col)
                if col[0] != a[i] or (nums[i] >= 2 and col[-1] != b[i]) or len(col) > nums[i]:
                    ctx.spec_fail("mlinspace_endpoints", "mlinspace(%s,%s,%s): dimension %d has nodes %s" % (a, b, nums, i, col),
                                  {"op": "mlinspace", "a": a, "b": b, "nums": nums, "order": order})
            if out.shape != (int(np.prod(nums)), len(nums)):
                ctx.spec_fail("mlinspace_shape", "mlinspace(%s,%s,%s) has shape %s" % (a, b, nums, out.shape),
                              {"op": "mlinspace", "a": a, "b": b, "nums": nums, "order": order})
            for i in range(len(nums)):
                if a[i] == b[i]:
                    ctx.count("mlinspace:degenerate-interval")
                elif b[i] < a[i]:
                    ctx.count("mlinspace:descending")
        cases.append(Case("C16 mlinspace a=%s b=%s nums=%s order=%s" % (fxs(a), fxs(b), ints(nums), order), impl,
                          nontrivial=(not isinstance(out, str) and max(nums) >= 3), tag="mlinspace"))
    # ---- cartesian_nearest_index as called: 1-d / batch x, length test, empty grids, no grids, odd order strings -------
    def ratrows(rows):
        return "none" if not rows else ";".join(rats(r) for r in rows)
    for it in range(ctx.n(200, 1000)):
        d = rng.randint(1, 3)
        nodes = [[Fraction(v, 4) for v in sorted(rng.sample(range(-16, 17), rng.randint(1, 4)))] for _ in range(d)]
        n = d
        mal = rng.random() < 0.3
        if mal:
            kind = rng.randrange(4)
            if kind == 0:
                n = d + rng.choice([-1, 1, 2])            # wrong point length
            elif kind == 1:
                nodes[rng.randrange(d)] = []               # empty grid
            elif kind == 2:
                nodes = []                                 # no grids
                n = rng.choice([0, 1])
            else:
                nodes[rng.randrange(d)] = []
                n = d + 1                                  # two defects: the empty grid is met first
        m = rng.choice([1, 1, 2, 3, 0])
        one_d = (m == 1 and rng.random() < 0.6)
        X = [[Fraction(rng.randint(-80, 80), 16) for _ in range(n)] for _ in range(m)]
        order = rng.choice(["C", "F", "C", "F", "X", "f"])
        tn = tuple(np.array([float(v) for v in g]) for g in nodes)
        if one_d:
            xarg = np.array([float(v) for v in X[0]])
        else:
            xarg = np.array([[float(v) for v in r] for r in X], dtype=float).reshape(m, n)
        out = call(lambda: gt.cartesian_nearest_index(xarg, tn, order=order))
        if isinstance(out, str):
            impl = out
            ctx.count("nearestapi:" + out)
        else:
            got = [int(t) for t in np.atleast_1d(out)]
            impl = ints(got)
            ctx.count("nearestapi:ok-%s-order-%s" % ("1d" if one_d else "batch%d" % m, order if order in "CF" else "other"))
            if np.ndim(out) != (0 if one_d else 1) or len(got) != m:
                ctx.spec_fail("cartesian_nearest_index_shape", "result %r for %d point(s), 1-d=%s" % (out, m, one_d),
                              {"op": "nearestapi", "X": [[str(v) for v in r] for r in X], "nodes": [[str(v) for v in g] for g in nodes], "order": order})
            if order in ("C", "F"):          # the documented orders: nearest point in the enumeration of cartesian(nodes, order)
                for row, gi in zip(X, got):
                    if not _nearest_ok(nodes, row, order, gi):
                        ctx.spec_fail("cartesian_nearest_index_api", "index %d is not a nearest grid point" % gi,
                                      {"op": "nearestapi", "x": [str(v) for v in row], "nodes": [[str(v) for v in g] for g in nodes], "order": order, "got": gi})
        cases.append(Case("C16 nearestapi X=%s n=%d nodes=%s order=%s" % (ratrows(X), n, ratrows(nodes), order), impl,
                          nontrivial=(not isinstance(out, str) and m >= 1), tag="nearestapi"))
    # np.linspace itself (the only NumPy routine the model re-implements), bit for bit
    for _ in range(ctx.n(100, 600)):
        a_, b_, n_ = val(), val(), rng.randint(0, 9)
        cases.append(Case("C16 linspace a=%s b=%s num=%d" % (fx(a_), fx(b_), n_), fxs(np.linspace(a_, b_, n_).tolist()),
                          nontrivial=(n_ >= 3), tag="linspace"))
        ctx.count("linspace:num=%s" % (n_ if n_ < 3 else "3+"))


def run(ctx):
    from quantecon.util.numba import comb_jit
    from quantecon.util.combinatorics import next_k_array, k_array_rank, k_array_rank_jit
    from quantecon import _gridtools as gt

    cases = []
    ctx.rule = ("exhaustive small scopes (comb_jit N<=Nmax all k; simplex m<=M,n<=Nn; subsets n<=10; products of <=4 "
                "grids) + selected huge N; a case is non-trivial when the answer is not forced by an early-exit guard "
                "(k in {0,1,N-1,N}, m=1, k=1, single-point grids); distinct by request line. Round 2: every call is also checked "
                "for purity (arguments bitwise unchanged, results not aliased), in histories on re-used containers (grids "
                "replaced / edited in place between calls, two passes over the rows of simplex_grid) and over argument forms "
                "(lists, tuples, int8..uint64, float32, strided views, F-order, NumPy-scalar parameters)")

    # ---- comb_jit ------------------------------------------------------------
    Nmax = ctx.n(70, 70)      # the property's whole stated scope, in both tiers
    huge = [INTP_MAX, INTP_MAX - 1, 2 ** 62, 2 ** 32, 2 ** 32 + 1, 3037000500, 3037000499, 10 ** 6, 66, 67, 68, 1000]
    pairs = [(N, k) for N in range(-1, Nmax + 1) for k in range(-1, N + 2)]
    for N in huge:
        for k in [0, 1, 2, 3, 4, 5, 7, 10, 20, 31, 32, 33, N // 2, N - 3, N - 2, N - 1, N, N + 1 if N < INTP_MAX else N]:
            if 0 <= k <= INTP_MAX:
                pairs.append((N, k))
    for N, k in pairs:
        got = int(comb_jit(N, k))
        exact, zero_ok = comb_spec(N, k)
        if not (got == exact or (got == 0 and zero_ok)):
            ctx.spec_fail("comb_jit", "comb_jit(%d,%d)=%d, exact=%s, overflow=%s" % (N, k, got, exact, zero_ok),
                          {"op": "comb", "N": N, "k": k, "got": got, "exact": exact})
        if got == 0 and exact != 0 and 0 <= k <= N:
            ctx.count("comb:overflow-zero")
        nt = 0 <= k <= N and min(k, N - k) >= 2
        cases.append(Case("C16 comb N=%d k=%d" % (N, k), str(got), nontrivial=nt, tag="comb"))

    # ---- simplex_grid / simplex_index / num_compositions ---------------------------
    Mm, Nn = ctx.n(6, 6), ctx.n(8, 8)
    for m in range(1, Mm + 1):
        for n in range(0, Nn + 1):
            grid = gt.simplex_grid(m, n)
            ref = compositions(m, n)
            L = gt.num_compositions(m, n)
            Lj = int(gt.num_compositions_jit(m, n))
            if [tuple(r) for r in grid.tolist()] != ref:
                ctx.spec_fail("simplex_grid", "simplex_grid(%d,%d) is not the lexicographic list of compositions" % (m, n),
                              {"op": "simplex", "m": m, "n": n, "got": grid.tolist()})
            if L != len(ref) or Lj != len(ref):
                ctx.spec_fail("num_compositions", "num_compositions(%d,%d)=%s/%s, true %d" % (m, n, L, Lj, len(ref)),
                              {"op": "numcomp", "m": m, "n": n})
            for row in ref[:-1]:
                # branch of the successor loop taken from this row: val = last non-zero entry
                val = [v for v in row if v != 0][-1] if any(row) else 0
                ctx.count("simplex:step-val==1(h moves left)" if val == 1 else "simplex:step-val>1(h reset to m)")
            cases.append(Case("C16 simplex m=%d n=%d" % (m, n), intm(grid.tolist()), nontrivial=(m >= 2 and n >= 1), tag="simplex"))
            cases.append(Case("C16 numcomp m=%d n=%d" % (m, n), str(int(L)), nontrivial=(m >= 2 and n >= 1), tag="numcomp"))
            cases.append(Case("C16 numcompjit m=%d n=%d" % (m, n), str(Lj), nontrivial=(m >= 2 and n >= 1), tag="numcomp"))
            for i, x in enumerate(ref):
                idx = int(gt.simplex_index(np.array(x), m, n))
                if idx != i:
                    ctx.spec_fail("simplex_index", "simplex_index(%s,%d,%d)=%d, position is %d" % (x, m, n, idx, i),
                                  {"op": "sindex", "x": list(x), "m": m, "n": n, "got": idx})
                cases.append(Case("C16 sindex x=%s m=%d n=%d" % (ints(x), m, n), str(idx),
                                  nontrivial=(m >= 2 and n >= 1), tag="sindex"))
    # overflow branch of simplex_grid: ValueError exactly when num_compositions_jit == 0
    for (m, n) in [(40, 60), (35, 70), (34, 66)]:
        Lj = int(gt.num_compositions_jit(m, n))
        if Lj == 0:
            try:
                gt.simplex_grid(m, n)
                out = "no-error"
            except ValueError:
                out = "ERR:ValueError"
            if out != "ERR:ValueError":
                ctx.spec_fail("simplex_grid_overflow", "simplex_grid(%d,%d) did not raise" % (m, n), {"m": m, "n": n})
            ctx.count("simplex:overflow-valueerror")
            cases.append(Case("C16 simplex m=%d n=%d" % (m, n), out, tag="simplex"))
            cases.append(Case("C16 numcompjit m=%d n=%d" % (m, n), str(Lj), tag="numcomp"))

    # ---- next_k_array / k_array_rank ----------------------------------------------------
    nmax = ctx.n(10, 10)
    for n in range(1, nmax + 1):
        for k in range(1, n + 1):
            # walk as documented
            a = np.arange(k)
            walk = []
            while a[-1] < n:
                walk.append(tuple(int(t) for t in a))
                nxt = next_k_array(a.copy())
                cases.append(Case("C16 nextk a=%s" % ints(a), ints(nxt), nontrivial=(k >= 2), tag="nextk"))
                a = nxt
            # spec: every k-subset exactly once, in colex (combinatorial number system) order
            ref = sorted(itertools.combinations(range(n), k), key=lambda c: tuple(reversed(c)))
            if walk != ref:
                ctx.spec_fail("next_k_array", "walk over %d-subsets of %d is not the colex enumeration" % (k, n),
                              {"op": "nextk", "n": n, "k": k})
            for pos, c in enumerate(walk):
                r1 = int(k_array_rank(np.array(c)))
                r2 = int(k_array_rank_jit(np.array(c)))
                if r1 != pos or r2 != pos:
                    ctx.spec_fail("k_array_rank", "rank%s = %d / %d, position %d" % (c, r1, r2, pos),
                                  {"op": "krank", "a": list(c)})
                cases.append(Case("C16 krank a=%s" % ints(c), str(r1), nontrivial=(k >= 2), tag="krank"))
                cases.append(Case("C16 krankjit a=%s" % ints(c), str(r2), nontrivial=(k >= 2), tag="krank"))
    # arbitrary strictly increasing arrays (not only those of a walk from arange(k)): successor step
    def nk_branch(a):
        k = len(a)
        if k == 1:
            return "nextk:k=1"
        if a[0] + 1 < a[1]:
            return "nextk:first-branch"
        i = 1
        while i < k - 1 and a[i] + 1 == a[i + 1]:
            i += 1
        return "nextk:carry-%d%s" % (min(i, 4), "+" if i > 4 else "")
    for _ in range(ctx.n(300, 3000)):
        k = ctx.rng.randint(1, 8)
        run = ctx.rng.randint(0, k)            # a leading run of consecutive values forces carries
        start = ctx.rng.randint(0, 6)
        head = list(range(start, start + run))
        pool = range(start + run + ctx.rng.randint(0, 2), start + run + 30)
        a = head + sorted(ctx.rng.sample(pool, k - run))
        ctx.count(nk_branch(a))
        nxt = [int(t) for t in next_k_array(np.array(a))]
        rk = sum(math.comb(ai, i + 1) for i, ai in enumerate(a))
        rk2 = sum(math.comb(ai, i + 1) for i, ai in enumerate(nxt))
        if not (len(nxt) == k and all(nxt[i] < nxt[i + 1] for i in range(k - 1)) and rk2 == rk + 1):
            ctx.spec_fail("next_k_array", "next_k_array(%s)=%s is not the colex successor (ranks %d -> %d)" % (a, nxt, rk, rk2),
                          {"op": "nextk", "a": a, "got": nxt})
        r1 = int(k_array_rank(np.array(a)))
        if r1 != rk:
            ctx.spec_fail("k_array_rank", "rank%s=%d, sum of binomials %d" % (a, r1, rk), {"op": "krank", "a": a})
        cases.append(Case("C16 nextk a=%s" % ints(a), ints(nxt), nontrivial=(k >= 2), tag="nextk"))
        cases.append(Case("C16 krank a=%s" % ints(a), str(r1), nontrivial=(k >= 2), tag="krank"))
    # the jitted twin under its documented guard  comb(a[-1]+1, k) <= INTP_MAX  with huge entries.
    # ONE fixed probe input for the known finding (comb_jit gives up on the intermediate product N(N-1) although
    # C(N,2) fits); the other huge inputs are ones on which every comb_jit call is exact.
    for a in ([0, 4000000000], [0, 3037000500], [0, 3037000499], [7, 3037000000], [0, 1, 2000000]):
        k = len(a)
        ref = sum(math.comb(ai, i + 1) for i, ai in enumerate(a))
        assert math.comb(a[-1] + 1, k) <= INTP_MAX
        r2 = int(k_array_rank_jit(np.array(a)))
        if r2 != ref:
            key = "k_array_rank_jit_doc_guard" if a == [0, 4000000000] else "k_array_rank_jit"
            ctx.spec_fail(key, "k_array_rank_jit(%s)=%d, true rank %d fits in intp and the documented sufficient condition "
                          "comb(a[-1]+1,k)<=INTP_MAX holds" % (a, r2, ref), {"op": "krankjit", "a": a, "got": r2, "rank": ref})
            ctx.count("krankjit:doc-guard-holds-but-wrong")
        else:
            ctx.count("krankjit:huge-exact")
        cases.append(Case("C16 krankjit a=%s" % ints(a), str(r2), tag="krank"))
    # large entries (no overflow in the jitted rank)
    for _ in range(ctx.n(50, 300)):
        k = ctx.rng.randint(1, 6)
        a = sorted(ctx.rng.sample(range(0, 2000), k))
        r1 = int(k_array_rank(np.array(a)))
        ref = sum(math.comb(ai, i + 1) for i, ai in enumerate(a))
        if r1 != ref:
            ctx.spec_fail("k_array_rank", "rank%s=%d, sum of binomials %d" % (a, r1, ref), {"op": "krank", "a": a})
        cases.append(Case("C16 krank a=%s" % ints(a), str(r1), tag="krank"))
        if ref <= INTP_MAX and math.comb(a[-1] + 1, k) <= INTP_MAX:
            r2 = int(k_array_rank_jit(np.array(a)))
            if r2 != ref:
                ctx.spec_fail("k_array_rank_jit", "rank_jit%s=%d, sum of binomials %d" % (a, r2, ref), {"op": "krankjit", "a": a})
            cases.append(Case("C16 krankjit a=%s" % ints(a), str(r2), tag="krank"))

    # ---- cartesian / nearest index --------------------------------------------------------
    def grids(d, maxlen):
        out = []
        for _ in range(d):
            ln = ctx.rng.randint(1, maxlen)
            vals = sorted(ctx.rng.sample(range(-8, 9), ln))
            out.append(vals)
        return out
    shapes = [s for d in range(1, ctx.n(4, 4) + 1) for s in itertools.product(range(1, ctx.n(5, 5) + 1), repeat=d)]
    if not ctx.thorough:
        shapes = [s for s in shapes]
    for shp in shapes:
        nodes = []
        base = 0
        for ln in shp:
            nodes.append(list(range(base, base + ln)))   # distinct labels per dimension
            base += 10
        for order in ("C", "F"):
            got = gt.cartesian([np.array(v) for v in nodes], order=order)
            # spec: the product enumerated with the last (C) / first (F) index varying fastest
            if order == "C":
                ref = [list(t) for t in itertools.product(*nodes)]
            else:
                ref = [list(reversed(t)) for t in itertools.product(*reversed(nodes))]
            if got.tolist() != ref:
                ctx.spec_fail("cartesian", "cartesian(%s, order=%s) is not the product grid in that order" % (nodes, order),
                              {"op": "cartesian", "nodes": nodes, "order": order})
            cases.append(Case("C16 cartesian nodes=%s order=%s" % (intm(nodes), order), intm(got.tolist()),
                              nontrivial=(len(shp) >= 2 and max(shp) >= 2), tag="cartesian"))
    # _repeat_1d directly (also with K*N not dividing len(out): the tail stays 0)
    for _ in range(ctx.n(150, 1000)):
        N = ctx.rng.randint(1, 5)
        K = ctx.rng.randint(1, 4)
        L = ctx.rng.randint(0, 4)
        extra = ctx.rng.choice([0, 0, 0, 1, 2]) if K * N > 2 else 0
        extra = min(extra, K * N - 1)
        total = K * N * L + extra
        xs = [ctx.rng.randint(-9, 9) for _ in range(N)]
        out = np.zeros(total, dtype=np.int64)
        gt._repeat_1d(np.array(xs, dtype=np.int64), K, out)
        ref = [xs[(i // L) % N] if i < K * N * L else 0 for i in range(total)]
        if out.tolist() != ref:
            ctx.spec_fail("_repeat_1d", "_repeat_1d(%s, %d, zeros(%d)) is not x[(ind//L)%%N]" % (xs, K, total),
                          {"op": "repeat1d", "x": xs, "K": K, "total": total, "got": out.tolist()})
        ctx.count("repeat1d:ragged" if extra else "repeat1d:exact-fit")
        cases.append(Case("C16 repeat1d x=%s K=%d total=%d" % (ints(xs), K, total), ints(out.tolist()),
                          nontrivial=(N >= 2 and K * L >= 2), tag="repeat1d"))
    # _cartesian_index: exhaustive over small shapes; spec: position of the tuple in itertools.product
    for shp in [s_ for d in range(1, 4) for s_ in itertools.product(range(1, 4), repeat=d)] + [(2, 3, 4, 5), (5, 1, 3), (1, 1, 1, 1)]:
        for pos, tup in enumerate(itertools.product(*[range(m_) for m_ in shp])):
            got = int(gt._cartesian_index(np.array(tup, dtype=np.intp), np.array(shp, dtype=np.intp)))
            if got != pos:
                ctx.spec_fail("_cartesian_index", "_cartesian_index(%s,%s)=%d, position %d" % (tup, shp, got, pos),
                              {"op": "cindex", "ind": list(tup), "nums": list(shp), "got": got})
            cases.append(Case("C16 cindex ind=%s nums=%s" % (ints(tup), ints(shp)), str(got),
                              nontrivial=(len(shp) >= 2 and max(shp) >= 2), tag="cindex"))
    # mlinspace = cartesian of np.linspace grids (spec only: bit-equal to the product of the linspaces)
    for _ in range(ctx.n(20, 100)):
        d = ctx.rng.randint(1, 3)
        lo = [ctx.rng.randint(-4, 4) for _ in range(d)]
        hi = [l_ + ctx.rng.randint(0, 6) for l_ in lo]
        nums = [ctx.rng.randint(1, 4) for _ in range(d)]
        order = ctx.rng.choice("CF")
        got = gt.mlinspace(lo, hi, nums, order=order)
        lin = [np.linspace(float(lo[i]), float(hi[i]), nums[i]).tolist() for i in range(d)]
        if order == "C":
            ref = [list(t) for t in itertools.product(*lin)]
        else:
            ref = [list(reversed(t)) for t in itertools.product(*reversed(lin))]
        if got.shape != (len(ref), d) or got.tolist() != ref:
            ctx.spec_fail("mlinspace", "mlinspace(%s,%s,%s,%s) is not the product of the linspaces" % (lo, hi, nums, order),
                          {"op": "mlinspace", "a": lo, "b": hi, "nums": nums, "order": order})
        ctx.count("mlinspace:order-" + order)
    # nearest index: dyadic grids and query points (subtractions are exact in double)
    for _ in range(ctx.n(600, 3000)):
        d = ctx.rng.randint(1, 4)
        nodes = []
        for _i in range(d):
            ln = ctx.rng.randint(1, 5)
            vals = sorted(ctx.rng.sample(range(-16, 17), ln))
            nodes.append([Fraction(v, 4) for v in vals])
        x = []
        for g in nodes:
            kind = ctx.rng.randrange(7)
            if kind >= 5 and len(g) >= 2:       # strictly inside a cell, off the mid-point
                i = ctx.rng.randrange(len(g) - 1)
                x.append(g[i] + (g[i + 1] - g[i]) * Fraction(ctx.rng.choice([1, 2, 3, 5, 6, 7]), 8)); ctx.count("nearest:in-cell")
                continue
            if kind == 0:
                x.append(ctx.rng.choice(g)); ctx.count("nearest:on-grid")
            elif kind == 1 and len(g) >= 2:
                i = ctx.rng.randrange(len(g) - 1)
                x.append((g[i] + g[i + 1]) / 2); ctx.count("nearest:midpoint")
            elif kind == 2:
                x.append(g[0] - Fraction(ctx.rng.randint(0, 8), 8)); ctx.count("nearest:below")
            elif kind == 3:
                x.append(g[-1] + Fraction(ctx.rng.randint(0, 8), 8)); ctx.count("nearest:above")
            else:
                x.append(Fraction(ctx.rng.randint(-160, 160), 32)); ctx.count("nearest:generic")
        order = ctx.rng.choice("CF")
        tnodes = tuple(np.array([float(v) for v in g]) for g in nodes)
        got = int(gt.cartesian_nearest_index(np.array([float(v) for v in x]), tnodes, order=order))
        # spec: the returned index designates a grid point at minimum distance in the same enumeration
        prod = gt.cartesian(list(tnodes), order=order)
        d2 = [sum((Fraction(float(p)) - xi) ** 2 for p, xi in zip(row, x)) for row in prod]
        if not (0 <= got < len(d2)) or d2[got] != min(d2):
            ctx.spec_fail("cartesian_nearest_index", "index %d is not a nearest grid point" % got,
                          {"op": "nearest", "nodes": [[str(v) for v in g] for g in nodes], "x": [str(v) for v in x], "order": order, "got": got})
        for g, xi in zip(nodes, x):
            if xi <= g[0]:
                ctx.count("nearest:branch-le-first")
            elif xi >= g[-1]:
                ctx.count("nearest:branch-ge-last")
            else:
                kk = next(i for i, v in enumerate(g) if xi <= v)
                dl, dr = xi - g[kk - 1], g[kk] - xi
                ctx.count("nearest:branch-interior-" + ("upper" if dr < dl else "tie-lower" if dr == dl else "lower"))
        # the batch (2-D X) entry point must agree with the 1-D one
        gotb = gt.cartesian_nearest_index(np.array([[float(v) for v in x]] * 2), tnodes, order=order)
        if [int(t) for t in gotb] != [got, got]:
            ctx.spec_fail("cartesian_nearest_index_batch", "2-D X gives %s, 1-D x gives %d" % (gotb.tolist(), got),
                          {"op": "nearest", "nodes": [[str(v) for v in g] for g in nodes], "x": [str(v) for v in x], "order": order})
        cases.append(Case("C16 nearest nodes=%s x=%s order=%s" % (ratm(nodes), rats(x), order), str(got),
                          nontrivial=(max(len(g) for g in nodes) >= 2), tag="nearest"))

    run_forms_histories(ctx, cases, gt, comb_jit, next_k_array, k_array_rank, k_array_rank_jit, Mm, Nn)

    run_api(ctx, cases, gt)

    # the int64 machine model of k_array_rank_jit (kArrayRankJitW): every krankjit case again, plus inputs on which the
    # running sum really wraps around in int64 (the code is compared as is; the property says nothing there)
    for c in [c for c in cases if c.line.startswith("C16 krankjit ")]:
        cases.append(Case(c.line.replace("C16 krankjit ", "C16 krankjitw ", 1), c.impl, nontrivial=c.nontrivial, tag="krankw"))
    for a in ([INTP_MAX, 5], [INTP_MAX - 3, 4, 6], [2 ** 62, 2 ** 62 + 1], [INTP_MAX, INTP_MAX], [INTP_MAX - 9, 5, 6, 7], [-5, 3, 4],
              [INTP_MAX - 1, 2, 3037000500]):
        r = int(k_array_rank_jit(np.array(a, dtype=np.int64)))
        ctx.count("krankjitw:wrap-probe")
        cases.append(Case("C16 krankjitw a=%s" % ints(a), str(r), tag="krankw"))

    ctx.exhaustive = True
    ctx.extra["exhaustive_scope"] = ("comb_jit N<=%d all k in [-1,N+1]; simplex m<=%d n<=%d with every point's index; "
                                     "k-subsets n<=%d; cartesian all shapes d<=%d len<=%d both orders; nearest index sampled"
                                     % (Nmax, Mm, Nn, nmax, 4, 5))
    ctx.run_cases(cases)
