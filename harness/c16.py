"""C16 — grid and combinatorial enumerations: correspondence + spec run."""
import itertools
import math
from fractions import Fraction

import numpy as np

from .common import Case, ints, intm, rats, ratm

FILES = ["quantecon/_gridtools.py", "quantecon/util/combinatorics.py", "quantecon/util/numba.py"]

INTP_MAX = 2 ** 63 - 1


def compositions(m, n):
    """all m-part compositions of n in lexicographic order (independent oracle)"""
    if m == 1:
        return [(n,)]
    return [(i,) + r for i in range(n + 1) for r in compositions(m - 1, n - i)]


def comb_spec(N, k):
    """what the property allows comb_jit to return: (exact value, zero_allowed)"""
    if N < 0 or k < 0 or k > N:
        return 0, True
    nterms = min(k, N - k)
    # (math.comb on astronomically large arguments never returns; such values cannot fit anyway)
    exact = math.comb(N, nterms) if nterms <= 70 else None
    # 0 is allowed only when an intermediate product would overflow
    val, over = 1, False
    for j in range(1, nterms + 1):
        if val * (N + 1 - j) > INTP_MAX:
            over = True
            break
        val = val * (N + 1 - j) // j
    return exact, over


def run(ctx):
    from quantecon.util.numba import comb_jit
    from quantecon.util.combinatorics import next_k_array, k_array_rank, k_array_rank_jit
    from quantecon import _gridtools as gt

    cases = []
    ctx.rule = ("exhaustive small scopes (comb_jit N<=Nmax all k; simplex m<=M,n<=Nn; subsets n<=10; products of <=4 "
                "grids) + selected huge N; a case is non-trivial when the answer is not forced by an early-exit guard "
                "(k in {0,1,N-1,N}, m=1, k=1, single-point grids); distinct by request line")

    # ---- comb_jit ------------------------------------------------------------
    Nmax = ctx.n(70, 70)      # the property's whole stated scope, in both tiers
    huge = [INTP_MAX, INTP_MAX - 1, 2 ** 62, 2 ** 32, 2 ** 32 + 1, 3037000500, 3037000499, 10 ** 6, 66, 67, 68, 1000]
    pairs = [(N, k) for N in range(-1, Nmax + 1) for k in range(-1, N + 2)]
    for N in huge:
        for k in [0, 1, 2, 3, 4, 5, 7, 10, 20, 31, 32, 33, N // 2, N - 3, N - 2, N - 1, N, N + 1 if N < INTP_MAX else N]:
            if 0 <= k <= INTP_MAX:
                pairs.append((N, k))
    for N, k in pairs:
        got = int(comb_jit(N, k))
        exact, zero_ok = comb_spec(N, k)
        if not (got == exact or (got == 0 and zero_ok)):
            ctx.spec_fail("comb_jit", "comb_jit(%d,%d)=%d, exact=%s, overflow=%s" % (N, k, got, exact, zero_ok),
                          {"op": "comb", "N": N, "k": k, "got": got, "exact": exact})
        if got == 0 and exact != 0 and 0 <= k <= N:
            ctx.count("comb:overflow-zero")
        nt = 0 <= k <= N and min(k, N - k) >= 2
        cases.append(Case("C16 comb N=%d k=%d" % (N, k), str(got), nontrivial=nt, tag="comb"))

    # ---- simplex_grid / simplex_index / num_compositions ---------------------------
    Mm, Nn = ctx.n(6, 6), ctx.n(8, 8)
    for m in range(1, Mm + 1):
        for n in range(0, Nn + 1):
            grid = gt.simplex_grid(m, n)
            ref = compositions(m, n)
            L = gt.num_compositions(m, n)
            Lj = int(gt.num_compositions_jit(m, n))
            if [tuple(r) for r in grid.tolist()] != ref:
                ctx.spec_fail("simplex_grid", "simplex_grid(%d,%d) is not the lexicographic list of compositions" % (m, n),
                              {"op": "simplex", "m": m, "n": n, "got": grid.tolist()})
            if L != len(ref) or Lj != len(ref):
                ctx.spec_fail("num_compositions", "num_compositions(%d,%d)=%s/%s, true %d" % (m, n, L, Lj, len(ref)),
                              {"op": "numcomp", "m": m, "n": n})
            for row in ref[:-1]:
                # branch of the successor loop taken from this row: val = last non-zero entry
                val = [v for v in row if v != 0][-1] if any(row) else 0
                ctx.count("simplex:step-val==1(h moves left)" if val == 1 else "simplex:step-val>1(h reset to m)")
            cases.append(Case("C16 simplex m=%d n=%d" % (m, n), intm(grid.tolist()), nontrivial=(m >= 2 and n >= 1), tag="simplex"))
            cases.append(Case("C16 numcomp m=%d n=%d" % (m, n), str(int(L)), nontrivial=(m >= 2 and n >= 1), tag="numcomp"))
            cases.append(Case("C16 numcompjit m=%d n=%d" % (m, n), str(Lj), nontrivial=(m >= 2 and n >= 1), tag="numcomp"))
            for i, x in enumerate(ref):
                idx = int(gt.simplex_index(np.array(x), m, n))
                if idx != i:
                    ctx.spec_fail("simplex_index", "simplex_index(%s,%d,%d)=%d, position is %d" % (x, m, n, idx, i),
                                  {"op": "sindex", "x": list(x), "m": m, "n": n, "got": idx})
                cases.append(Case("C16 sindex x=%s m=%d n=%d" % (ints(x), m, n), str(idx),
                                  nontrivial=(m >= 2 and n >= 1), tag="sindex"))
    # overflow branch of simplex_grid: ValueError exactly when num_compositions_jit == 0
    for (m, n) in [(40, 60), (35, 70), (34, 66)]:
        Lj = int(gt.num_compositions_jit(m, n))
        if Lj == 0:
            try:
                gt.simplex_grid(m, n)
                out = "no-error"
            except ValueError:
                out = "ERR:ValueError"
            if out != "ERR:ValueError":
                ctx.spec_fail("simplex_grid_overflow", "simplex_grid(%d,%d) did not raise" % (m, n), {"m": m, "n": n})
            ctx.count("simplex:overflow-valueerror")
            cases.append(Case("C16 simplex m=%d n=%d" % (m, n), out, tag="simplex"))
            cases.append(Case("C16 numcompjit m=%d n=%d" % (m, n), str(Lj), tag="numcomp"))

    # ---- next_k_array / k_array_rank ----------------------------------------------------
    nmax = ctx.n(10, 10)
    for n in range(1, nmax + 1):
        for k in range(1, n + 1):
            # walk as documented
            a = np.arange(k)
            walk = []
            while a[-1] < n:
                walk.append(tuple(int(t) for t in a))
                nxt = next_k_array(a.copy())
                cases.append(Case("C16 nextk a=%s" % ints(a), ints(nxt), nontrivial=(k >= 2), tag="nextk"))
                a = nxt
            # spec: every k-subset exactly once, in colex (combinatorial number system) order
            ref = sorted(itertools.combinations(range(n), k), key=lambda c: tuple(reversed(c)))
            if walk != ref:
                ctx.spec_fail("next_k_array", "walk over %d-subsets of %d is not the colex enumeration" % (k, n),
                              {"op": "nextk", "n": n, "k": k})
            for pos, c in enumerate(walk):
                r1 = int(k_array_rank(np.array(c)))
                r2 = int(k_array_rank_jit(np.array(c)))
                if r1 != pos or r2 != pos:
                    ctx.spec_fail("k_array_rank", "rank%s = %d / %d, position %d" % (c, r1, r2, pos),
                                  {"op": "krank", "a": list(c)})
                cases.append(Case("C16 krank a=%s" % ints(c), str(r1), nontrivial=(k >= 2), tag="krank"))
                cases.append(Case("C16 krankjit a=%s" % ints(c), str(r2), nontrivial=(k >= 2), tag="krank"))
    # arbitrary strictly increasing arrays (not only those of a walk from arange(k)): successor step
    def nk_branch(a):
        k = len(a)
        if k == 1:
            return "nextk:k=1"
        if a[0] + 1 < a[1]:
            return "nextk:first-branch"
        i = 1
        while i < k - 1 and a[i] + 1 == a[i + 1]:
            i += 1
        return "nextk:carry-%d%s" % (min(i, 4), "+" if i > 4 else "")
    for _ in range(ctx.n(300, 3000)):
        k = ctx.rng.randint(1, 8)
        run = ctx.rng.randint(0, k)            # a leading run of consecutive values forces carries
        start = ctx.rng.randint(0, 6)
        head = list(range(start, start + run))
        pool = range(start + run + ctx.rng.randint(0, 2), start + run + 30)
        a = head + sorted(ctx.rng.sample(pool, k - run))
        ctx.count(nk_branch(a))
        nxt = [int(t) for t in next_k_array(np.array(a))]
        rk = sum(math.comb(ai, i + 1) for i, ai in enumerate(a))
        rk2 = sum(math.comb(ai, i + 1) for i, ai in enumerate(nxt))
        if not (len(nxt) == k and all(nxt[i] < nxt[i + 1] for i in range(k - 1)) and rk2 == rk + 1):
            ctx.spec_fail("next_k_array", "next_k_array(%s)=%s is not the colex successor (ranks %d -> %d)" % (a, nxt, rk, rk2),
                          {"op": "nextk", "a": a, "got": nxt})
        r1 = int(k_array_rank(np.array(a)))
        if r1 != rk:
            ctx.spec_fail("k_array_rank", "rank%s=%d, sum of binomials %d" % (a, r1, rk), {"op": "krank", "a": a})
        cases.append(Case("C16 nextk a=%s" % ints(a), ints(nxt), nontrivial=(k >= 2), tag="nextk"))
        cases.append(Case("C16 krank a=%s" % ints(a), str(r1), nontrivial=(k >= 2), tag="krank"))
    # the jitted twin under its documented guard  comb(a[-1]+1, k) <= INTP_MAX  with huge entries.
    # ONE fixed probe input for the known finding (comb_jit gives up on the intermediate product N(N-1) although
    # C(N,2) fits); the other huge inputs are ones on which every comb_jit call is exact.
    for a in ([0, 4000000000], [0, 3037000500], [0, 3037000499], [7, 3037000000], [0, 1, 2000000]):
        k = len(a)
        ref = sum(math.comb(ai, i + 1) for i, ai in enumerate(a))
        assert math.comb(a[-1] + 1, k) <= INTP_MAX
        r2 = int(k_array_rank_jit(np.array(a)))
        if r2 != ref:
            key = "k_array_rank_jit_doc_guard" if a == [0, 4000000000] else "k_array_rank_jit"
            ctx.spec_fail(key, "k_array_rank_jit(%s)=%d, true rank %d fits in intp and the documented sufficient condition "
                          "comb(a[-1]+1,k)<=INTP_MAX holds" % (a, r2, ref), {"op": "krankjit", "a": a, "got": r2, "rank": ref})
            ctx.count("krankjit:doc-guard-holds-but-wrong")
        else:
            ctx.count("krankjit:huge-exact")
        cases.append(Case("C16 krankjit a=%s" % ints(a), str(r2), tag="krank"))
    # large entries (no overflow in the jitted rank)
    for _ in range(ctx.n(50, 300)):
        k = ctx.rng.randint(1, 6)
        a = sorted(ctx.rng.sample(range(0, 2000), k))
        r1 = int(k_array_rank(np.array(a)))
        ref = sum(math.comb(ai, i + 1) for i, ai in enumerate(a))
        if r1 != ref:
            ctx.spec_fail("k_array_rank", "rank%s=%d, sum of binomials %d" % (a, r1, ref), {"op": "krank", "a": a})
        cases.append(Case("C16 krank a=%s" % ints(a), str(r1), tag="krank"))
        if ref <= INTP_MAX and math.comb(a[-1] + 1, k) <= INTP_MAX:
            r2 = int(k_array_rank_jit(np.array(a)))
            if r2 != ref:
                ctx.spec_fail("k_array_rank_jit", "rank_jit%s=%d, sum of binomials %d" % (a, r2, ref), {"op": "krankjit", "a": a})
            cases.append(Case("C16 krankjit a=%s" % ints(a), str(r2), tag="krank"))

    # ---- cartesian / nearest index --------------------------------------------------------
    def grids(d, maxlen):
        out = []
        for _ in range(d):
            ln = ctx.rng.randint(1, maxlen)
            vals = sorted(ctx.rng.sample(range(-8, 9), ln))
            out.append(vals)
        return out
    shapes = [s for d in range(1, ctx.n(4, 4) + 1) for s in itertools.product(range(1, ctx.n(5, 5) + 1), repeat=d)]
    if not ctx.thorough:
        shapes = [s for s in shapes]
    for shp in shapes:
        nodes = []
        base = 0
        for ln in shp:
            nodes.append(list(range(base, base + ln)))   # distinct labels per dimension
            base += 10
        for order in ("C", "F"):
            got = gt.cartesian([np.array(v) for v in nodes], order=order)
            # spec: the product enumerated with the last (C) / first (F) index varying fastest
            if order == "C":
                ref = [list(t) for t in itertools.product(*nodes)]
            else:
                ref = [list(reversed(t)) for t in itertools.product(*reversed(nodes))]
            if got.tolist() != ref:
                ctx.spec_fail("cartesian", "cartesian(%s, order=%s) is not the product grid in that order" % (nodes, order),
                              {"op": "cartesian", "nodes": nodes, "order": order})
            cases.append(Case("C16 cartesian nodes=%s order=%s" % (intm(nodes), order), intm(got.tolist()),
                              nontrivial=(len(shp) >= 2 and max(shp) >= 2), tag="cartesian"))
    # _repeat_1d directly (also with K*N not dividing len(out): the tail stays 0)
    for _ in range(ctx.n(150, 1000)):
        N = ctx.rng.randint(1, 5)
        K = ctx.rng.randint(1, 4)
        L = ctx.rng.randint(0, 4)
        extra = ctx.rng.choice([0, 0, 0, 1, 2]) if K * N > 2 else 0
        extra = min(extra, K * N - 1)
        total = K * N * L + extra
        xs = [ctx.rng.randint(-9, 9) for _ in range(N)]
        out = np.zeros(total, dtype=np.int64)
        gt._repeat_1d(np.array(xs, dtype=np.int64), K, out)
        ref = [xs[(i // L) % N] if i < K * N * L else 0 for i in range(total)]
        if out.tolist() != ref:
            ctx.spec_fail("_repeat_1d", "_repeat_1d(%s, %d, zeros(%d)) is not x[(ind//L)%%N]" % (xs, K, total),
                          {"op": "repeat1d", "x": xs, "K": K, "total": total, "got": out.tolist()})
        ctx.count("repeat1d:ragged" if extra else "repeat1d:exact-fit")
        cases.append(Case("C16 repeat1d x=%s K=%d total=%d" % (ints(xs), K, total), ints(out.tolist()),
                          nontrivial=(N >= 2 and K * L >= 2), tag="repeat1d"))
    # _cartesian_index: exhaustive over small shapes; spec: position of the tuple in itertools.product
    for shp in [s_ for d in range(1, 4) for s_ in itertools.product(range(1, 4), repeat=d)] + [(2, 3, 4, 5), (5, 1, 3), (1, 1, 1, 1)]:
        for pos, tup in enumerate(itertools.product(*[range(m_) for m_ in shp])):
            got = int(gt._cartesian_index(np.array(tup, dtype=np.intp), np.array(shp, dtype=np.intp)))
            if got != pos:
                ctx.spec_fail("_cartesian_index", "_cartesian_index(%s,%s)=%d, position %d" % (tup, shp, got, pos),
                              {"op": "cindex", "ind": list(tup), "nums": list(shp), "got": got})
            cases.append(Case("C16 cindex ind=%s nums=%s" % (ints(tup), ints(shp)), str(got),
                              nontrivial=(len(shp) >= 2 and max(shp) >= 2), tag="cindex"))
    # mlinspace = cartesian of np.linspace grids (spec only: bit-equal to the product of the linspaces)
    for _ in range(ctx.n(20, 100)):
        d = ctx.rng.randint(1, 3)
        lo = [ctx.rng.randint(-4, 4) for _ in range(d)]
        hi = [l_ + ctx.rng.randint(0, 6) for l_ in lo]
        nums = [ctx.rng.randint(1, 4) for _ in range(d)]
        order = ctx.rng.choice("CF")
        got = gt.mlinspace(lo, hi, nums, order=order)
        lin = [np.linspace(float(lo[i]), float(hi[i]), nums[i]).tolist() for i in range(d)]
        if order == "C":
            ref = [list(t) for t in itertools.product(*lin)]
        else:
            ref = [list(reversed(t)) for t in itertools.product(*reversed(lin))]
        if got.shape != (len(ref), d) or got.tolist() != ref:
            ctx.spec_fail("mlinspace", "mlinspace(%s,%s,%s,%s) is not the product of the linspaces" % (lo, hi, nums, order),
                          {"op": "mlinspace", "a": lo, "b": hi, "nums": nums, "order": order})
        ctx.count("mlinspace:order-" + order)
    # nearest index: dyadic grids and query points (subtractions are exact in double)
    for _ in range(ctx.n(600, 3000)):
        d = ctx.rng.randint(1, 4)
        nodes = []
        for _i in range(d):
            ln = ctx.rng.randint(1, 5)
            vals = sorted(ctx.rng.sample(range(-16, 17), ln))
            nodes.append([Fraction(v, 4) for v in vals])
        x = []
        for g in nodes:
            kind = ctx.rng.randrange(7)
            if kind >= 5 and len(g) >= 2:       # strictly inside a cell, off the mid-point
                i = ctx.rng.randrange(len(g) - 1)
                x.append(g[i] + (g[i + 1] - g[i]) * Fraction(ctx.rng.choice([1, 2, 3, 5, 6, 7]), 8)); ctx.count("nearest:in-cell")
                continue
            if kind == 0:
                x.append(ctx.rng.choice(g)); ctx.count("nearest:on-grid")
            elif kind == 1 and len(g) >= 2:
                i = ctx.rng.randrange(len(g) - 1)
                x.append((g[i] + g[i + 1]) / 2); ctx.count("nearest:midpoint")
            elif kind == 2:
                x.append(g[0] - Fraction(ctx.rng.randint(0, 8), 8)); ctx.count("nearest:below")
            elif kind == 3:
                x.append(g[-1] + Fraction(ctx.rng.randint(0, 8), 8)); ctx.count("nearest:above")
            else:
                x.append(Fraction(ctx.rng.randint(-160, 160), 32)); ctx.count("nearest:generic")
        order = ctx.rng.choice("CF")
        tnodes = tuple(np.array([float(v) for v in g]) for g in nodes)
        got = int(gt.cartesian_nearest_index(np.array([float(v) for v in x]), tnodes, order=order))
        # spec: the returned index designates a grid point at minimum distance in the same enumeration
        prod = gt.cartesian(list(tnodes), order=order)
        d2 = [sum((Fraction(float(p)) - xi) ** 2 for p, xi in zip(row, x)) for row in prod]
        if not (0 <= got < len(d2)) or d2[got] != min(d2):
            ctx.spec_fail("cartesian_nearest_index", "index %d is not a nearest grid point" % got,
                          {"op": "nearest", "nodes": [[str(v) for v in g] for g in nodes], "x": [str(v) for v in x], "order": order, "got": got})
        for g, xi in zip(nodes, x):
            if xi <= g[0]:
                ctx.count("nearest:branch-le-first")
            elif xi >= g[-1]:
                ctx.count("nearest:branch-ge-last")
            else:
                kk = next(i for i, v in enumerate(g) if xi <= v)
                dl, dr = xi - g[kk - 1], g[kk] - xi
                ctx.count("nearest:branch-interior-" + ("upper" if dr < dl else "tie-lower" if dr == dl else "lower"))
        # the batch (2-D X) entry point must agree with the 1-D one
        gotb = gt.cartesian_nearest_index(np.array([[float(v) for v in x]] * 2), tnodes, order=order)
        if [int(t) for t in gotb] != [got, got]:
            ctx.spec_fail("cartesian_nearest_index_batch", "2-D X gives %s, 1-D x gives %d" % (gotb.tolist(), got),
                          {"op": "nearest", "nodes": [[str(v) for v in g] for g in nodes], "x": [str(v) for v in x], "order": order})
        cases.append(Case("C16 nearest nodes=%s x=%s order=%s" % (ratm(nodes), rats(x), order), str(got),
                          nontrivial=(max(len(g) for g in nodes) >= 2), tag="nearest"))

    ctx.exhaustive = True
    ctx.extra["exhaustive_scope"] = ("comb_jit N<=%d all k in [-1,N+1]; simplex m<=%d n<=%d with every point's index; "
                                     "k-subsets n<=%d; cartesian all shapes d<=%d len<=%d both orders; nearest index sampled"
                                     % (Nmax, Mm, Nn, nmax, 4, 5))
    ctx.run_cases(cases)
