"""C16 — grid and combinatorial enumerations: correspondence + spec run."""
import itertools
import math
from fractions import Fraction

import numpy as np

from .common import Case, ints, intm, rats, ratm

FILES = ["quantecon/_gridtools.py", "quantecon/util/combinatorics.py", "quantecon/util/numba.py"]

INTP_MAX = 2 ** 63 - 1


def compositions(m, n):
    """all m-part compositions of n in lexicographic order (independent oracle)"""
    if m == 1:
        return [(n,)]
    return [(i,) + r for i in range(n + 1) for r in compositions(m - 1, n - i)]


def comb_spec(N, k):
    """what the property allows comb_jit to return: (exact value, zero_allowed)"""
    if N < 0 or k < 0 or k > N:
        return 0, True
    nterms = min(k, N - k)
    # (math.comb on astronomically large arguments never returns; such values cannot fit anyway)
    exact = math.comb(N, nterms) if nterms <= 70 else None
    # 0 is allowed only when an intermediate product would overflow
    val, over = 1, False
    for j in range(1, nterms + 1):
        if val * (N + 1 - j) > INTP_MAX:
            over = True
            break
        val = val * (N + 1 - j) // j
    return exact, over


def run(ctx):
    from quantecon.util.numba import comb_jit
    from quantecon.util.combinatorics import next_k_array, k_array_rank, k_array_rank_jit
    from quantecon import _gridtools as gt

    cases = []
    ctx.rule = ("exhaustive small scopes (comb_jit N<=Nmax all k; simplex m<=M,n<=Nn; subsets n<=10; products of <=4 "
                "grids) + selected huge N; a case is non-trivial when the answer is not forced by an early-exit guard "
                "(k in {0,1,N-1,N}, m=1, k=1, single-point grids); distinct by request line")

    # ---- comb_jit ------------------------------------------------------------
    Nmax = ctx.n(45, 70)
    huge = [INTP_MAX, INTP_MAX - 1, 2 ** 62, 2 ** 32, 2 ** 32 + 1, 3037000500, 3037000499, 10 ** 6, 66, 67, 68, 1000]
    pairs = [(N, k) for N in range(-1, Nmax + 1) for k in range(-1, N + 2)]
    for N in huge:
        for k in [0, 1, 2, 3, 4, 5, 7, 10, 20, 31, 32, 33, N // 2, N - 3, N - 2, N - 1, N, N + 1 if N < INTP_MAX else N]:
            if 0 <= k <= INTP_MAX:
                pairs.append((N, k))
    for N, k in pairs:
        got = int(comb_jit(N, k))
        exact, zero_ok = comb_spec(N, k)
        if not (got == exact or (got == 0 and zero_ok)):
            ctx.spec_fail("comb_jit", "comb_jit(%d,%d)=%d, exact=%s, overflow=%s" % (N, k, got, exact, zero_ok),
                          {"op": "comb", "N": N, "k": k, "got": got, "exact": exact})
        if got == 0 and exact != 0 and 0 <= k <= N:
            ctx.count("comb:overflow-zero")
        nt = 0 <= k <= N and min(k, N - k) >= 2
        cases.append(Case("C16 comb N=%d k=%d" % (N, k), str(got), nontrivial=nt, tag="comb"))

    # ---- simplex_grid / simplex_index / num_compositions ---------------------------
    Mm, Nn = ctx.n(5, 6), ctx.n(6, 8)
    for m in range(1, Mm + 1):
        for n in range(0, Nn + 1):
            grid = gt.simplex_grid(m, n)
            ref = compositions(m, n)
            L = gt.num_compositions(m, n)
            Lj = int(gt.num_compositions_jit(m, n))
            if [tuple(r) for r in grid.tolist()] != ref:
                ctx.spec_fail("simplex_grid", "simplex_grid(%d,%d) is not the lexicographic list of compositions" % (m, n),
                              {"op": "simplex", "m": m, "n": n, "got": grid.tolist()})
            if L != len(ref) or Lj != len(ref):
                ctx.spec_fail("num_compositions", "num_compositions(%d,%d)=%s/%s, true %d" % (m, n, L, Lj, len(ref)),
                              {"op": "numcomp", "m": m, "n": n})
            cases.append(Case("C16 simplex m=%d n=%d" % (m, n), intm(grid.tolist()), nontrivial=(m >= 2 and n >= 1), tag="simplex"))
            cases.append(Case("C16 numcomp m=%d n=%d" % (m, n), str(int(L)), nontrivial=(m >= 2 and n >= 1), tag="numcomp"))
            cases.append(Case("C16 numcompjit m=%d n=%d" % (m, n), str(Lj), nontrivial=(m >= 2 and n >= 1), tag="numcomp"))
            for i, x in enumerate(ref):
                idx = int(gt.simplex_index(np.array(x), m, n))
                if idx != i:
                    ctx.spec_fail("simplex_index", "simplex_index(%s,%d,%d)=%d, position is %d" % (x, m, n, idx, i),
                                  {"op": "sindex", "x": list(x), "m": m, "n": n, "got": idx})
                cases.append(Case("C16 sindex x=%s m=%d n=%d" % (ints(x), m, n), str(idx),
                                  nontrivial=(m >= 2 and n >= 1), tag="sindex"))
    # overflow branch of simplex_grid: ValueError exactly when num_compositions_jit == 0
    for (m, n) in [(40, 60), (35, 70), (34, 66)]:
        Lj = int(gt.num_compositions_jit(m, n))
        if Lj == 0:
            try:
                gt.simplex_grid(m, n)
                out = "no-error"
            except ValueError:
                out = "ERR:ValueError"
            if out != "ERR:ValueError":
                ctx.spec_fail("simplex_grid_overflow", "simplex_grid(%d,%d) did not raise" % (m, n), {"m": m, "n": n})
            ctx.count("simplex:overflow-valueerror")
            cases.append(Case("C16 simplex m=%d n=%d" % (m, n), out, tag="simplex"))
            cases.append(Case("C16 numcompjit m=%d n=%d" % (m, n), str(Lj), tag="numcomp"))

    # ---- next_k_array / k_array_rank ----------------------------------------------------
    nmax = ctx.n(8, 10)
    for n in range(1, nmax + 1):
        for k in range(1, n + 1):
            # walk as documented
            a = np.arange(k)
            walk = []
            while a[-1] < n:
                walk.append(tuple(int(t) for t in a))
                nxt = next_k_array(a.copy())
                cases.append(Case("C16 nextk a=%s" % ints(a), ints(nxt), nontrivial=(k >= 2), tag="nextk"))
                a = nxt
            # spec: every k-subset exactly once, in colex (combinatorial number system) order
            ref = sorted(itertools.combinations(range(n), k), key=lambda c: tuple(reversed(c)))
            if walk != ref:
                ctx.spec_fail("next_k_array", "walk over %d-subsets of %d is not the colex enumeration" % (k, n),
                              {"op": "nextk", "n": n, "k": k})
            for pos, c in enumerate(walk):
                r1 = int(k_array_rank(np.array(c)))
                r2 = int(k_array_rank_jit(np.array(c)))
                if r1 != pos or r2 != pos:
                    ctx.spec_fail("k_array_rank", "rank%s = %d / %d, position %d" % (c, r1, r2, pos),
                                  {"op": "krank", "a": list(c)})
                cases.append(Case("C16 krank a=%s" % ints(c), str(r1), nontrivial=(k >= 2), tag="krank"))
                cases.append(Case("C16 krankjit a=%s" % ints(c), str(r2), nontrivial=(k >= 2), tag="krank"))
    # large entries (no overflow in the jitted rank)
    for _ in range(ctx.n(50, 300)):
        k = ctx.rng.randint(1, 6)
        a = sorted(ctx.rng.sample(range(0, 2000), k))
        r1 = int(k_array_rank(np.array(a)))
        ref = sum(math.comb(ai, i + 1) for i, ai in enumerate(a))
        if r1 != ref:
            ctx.spec_fail("k_array_rank", "rank%s=%d, sum of binomials %d" % (a, r1, ref), {"op": "krank", "a": a})
        cases.append(Case("C16 krank a=%s" % ints(a), str(r1), tag="krank"))
        if ref <= INTP_MAX and math.comb(a[-1] + 1, k) <= INTP_MAX:
            r2 = int(k_array_rank_jit(np.array(a)))
            if r2 != ref:
                ctx.spec_fail("k_array_rank_jit", "rank_jit%s=%d, sum of binomials %d" % (a, r2, ref), {"op": "krankjit", "a": a})
            cases.append(Case("C16 krankjit a=%s" % ints(a), str(r2), tag="krank"))

    # ---- cartesian / nearest index --------------------------------------------------------
    def grids(d, maxlen):
        out = []
        for _ in range(d):
            ln = ctx.rng.randint(1, maxlen)
            vals = sorted(ctx.rng.sample(range(-8, 9), ln))
            out.append(vals)
        return out
    shapes = [s for d in range(1, ctx.n(3, 4) + 1) for s in itertools.product(range(1, ctx.n(3, 5) + 1), repeat=d)]
    if not ctx.thorough:
        shapes = [s for s in shapes]
    for shp in shapes:
        nodes = []
        base = 0
        for ln in shp:
            nodes.append(list(range(base, base + ln)))   # distinct labels per dimension
            base += 10
        for order in ("C", "F"):
            got = gt.cartesian([np.array(v) for v in nodes], order=order)
            # spec: the product enumerated with the last (C) / first (F) index varying fastest
            if order == "C":
                ref = [list(t) for t in itertools.product(*nodes)]
            else:
                ref = [list(reversed(t)) for t in itertools.product(*reversed(nodes))]
            if got.tolist() != ref:
                ctx.spec_fail("cartesian", "cartesian(%s, order=%s) is not the product grid in that order" % (nodes, order),
                              {"op": "cartesian", "nodes": nodes, "order": order})
            cases.append(Case("C16 cartesian nodes=%s order=%s" % (intm(nodes), order), intm(got.tolist()),
                              nontrivial=(len(shp) >= 2 and max(shp) >= 2), tag="cartesian"))
    # nearest index: dyadic grids and query points (subtractions are exact in double)
    for _ in range(ctx.n(300, 3000)):
        d = ctx.rng.randint(1, 4)
        nodes = []
        for _i in range(d):
            ln = ctx.rng.randint(1, 5)
            vals = sorted(ctx.rng.sample(range(-16, 17), ln))
            nodes.append([Fraction(v, 4) for v in vals])
        x = []
        for g in nodes:
            kind = ctx.rng.randrange(5)
            if kind == 0:
                x.append(ctx.rng.choice(g)); ctx.count("nearest:on-grid")
            elif kind == 1 and len(g) >= 2:
                i = ctx.rng.randrange(len(g) - 1)
                x.append((g[i] + g[i + 1]) / 2); ctx.count("nearest:midpoint")
            elif kind == 2:
                x.append(g[0] - Fraction(ctx.rng.randint(0, 8), 8)); ctx.count("nearest:below")
            elif kind == 3:
                x.append(g[-1] + Fraction(ctx.rng.randint(0, 8), 8)); ctx.count("nearest:above")
            else:
                x.append(Fraction(ctx.rng.randint(-160, 160), 32)); ctx.count("nearest:generic")
        order = ctx.rng.choice("CF")
        tnodes = tuple(np.array([float(v) for v in g]) for g in nodes)
        got = int(gt.cartesian_nearest_index(np.array([float(v) for v in x]), tnodes, order=order))
        # spec: the returned index designates a grid point at minimum distance in the same enumeration
        prod = gt.cartesian(list(tnodes), order=order)
        d2 = [sum((Fraction(float(p)) - xi) ** 2 for p, xi in zip(row, x)) for row in prod]
        if not (0 <= got < len(d2)) or d2[got] != min(d2):
            ctx.spec_fail("cartesian_nearest_index", "index %d is not a nearest grid point" % got,
                          {"op": "nearest", "nodes": [[str(v) for v in g] for g in nodes], "x": [str(v) for v in x], "order": order, "got": got})
        cases.append(Case("C16 nearest nodes=%s x=%s order=%s" % (ratm(nodes), rats(x), order), str(got),
                          nontrivial=(max(len(g) for g in nodes) >= 2), tag="nearest"))

    ctx.exhaustive = True
    ctx.extra["exhaustive_scope"] = ("comb_jit N<=%d all k in [-1,N+1]; simplex m<=%d n<=%d with every point's index; "
                                     "k-subsets n<=%d; cartesian all shapes d<=%d len<=%d both orders; nearest index sampled"
                                     % (Nmax, Mm, Nn, nmax, ctx.n(3, 4), ctx.n(3, 5)))
    ctx.run_cases(cases)
