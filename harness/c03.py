"""C03 — communication / recurrent / cyclic classes and period: correspondence + spec run.

For every generated 0/1 pattern the real `DiGraph` / `MarkovChain` is built (dense, CSR with sorted
or shuffled indices, weighted, with / without labels), everything it reports is

* compared exactly with the Lean model (`qedriver_c03`), classes as sets (sorted lists of sorted
  lists; SciPy's numbering of the components is not part of the property), cyclic classes in the
  order fixed by "node 0 is in class 0";
* judged by an exact oracle written from the definitions (Warshall closure, edge-leaves-the-class
  test, gcd of the lengths k <= n with trace(A^k) > 0, lcm over recurrent classes, k -> k+1 edge
  test), independent of the model and of SciPy.
"""
import itertools
from math import gcd

import numpy as np
from scipy import sparse

from .common import Case

FILES = ["quantecon/_graph_tools.py", "quantecon/markov/core.py"]


# ----------------------------------------------------------------------------------------------
# exact oracle (definitions only)

def closure(A):
    n = len(A)
    R = [[bool(A[i][j]) or i == j for j in range(n)] for i in range(n)]
    for k in range(n):
        Rk = R[k]
        for i in range(n):
            if R[i][k]:
                Ri = R[i]
                for j in range(n):
                    if Rk[j]:
                        Ri[j] = True
    return R


def classes_of(A):
    n = len(A)
    R = closure(A)
    seen, out = set(), []
    for u in range(n):
        if u in seen:
            continue
        C = [v for v in range(n) if R[u][v] and R[v][u]]
        seen.update(C)
        out.append(C)
    return out


def is_closed(A, C):
    S = set(C)
    return all(not A[u][v] or v in S for u in C for v in range(len(A)))


def period_sc(A, C):
    """gcd of the lengths of the closed walks inside class C (lengths <= |C| suffice: every closed walk
    splits into simple cycles); None when C has no cycle (single node without loop)"""
    m = len(C)
    B = [[bool(A[u][v]) for v in C] for u in C]
    P = [row[:] for row in B]
    g = 0
    for k in range(1, m + 1):
        if any(P[i][i] for i in range(m)):
            g = gcd(g, k)
        if k < m:
            P = [[any(P[i][t] and B[t][j] for t in range(m)) for j in range(m)] for i in range(m)]
    return g or None


def lcm(a, b):
    return a * b // gcd(a, b)


def canon(classes):
    return sorted(sorted(int(x) for x in c) for c in classes)


def cls_str(classes, lab=None):
    f = (lambda u: str(u)) if lab is None else (lambda u: str(int(lab[u])))
    return ";".join(",".join(f(u) for u in c) for c in classes) if classes else "-"


def rot0(cyc):
    """cyclic classes are a cyclic sequence: start it at the class of node 0 (what the model prints)"""
    if not isinstance(cyc, list):
        return cyc
    for k, c in enumerate(cyc):
        if 0 in [int(u) for u in c]:
            return cyc[k:] + cyc[:k]
    return cyc


def labelled_str(idx, labd, sort, rotate=False):
    """canonical string of a labelled class list as the code returned it: classes ordered like the canonical
    index lists (by least member, or rotated to the class of node 0), members by index"""
    if not isinstance(idx, list) or not isinstance(labd, list):
        return labd if not isinstance(labd, list) else "LABELLED-WITHOUT-INDICES"
    if len(idx) != len(labd) or any(len(c) != len(cl) for c, cl in zip(idx, labd)):
        return "LABELLED-SHAPE-MISMATCH"
    cls = [sorted(zip([int(u) for u in c], [int(x) for x in cl])) for c, cl in zip(idx, labd)]
    if sort:
        cls.sort(key=lambda c: [u for u, _ in c])
    elif rotate:
        for k, c in enumerate(cls):
            if 0 in [u for u, _ in c]:
                cls = cls[k:] + cls[:k]
                break
    return ";".join(",".join(str(x) for _, x in c) for c in cls) if cls else "-"


def unlisted(ctx, key, what, rp):
    """a defect of the CLEAN code on a legal form / history: alarmed only once listed in known_findings.txt"""
    if key in ctx.known:
        ctx.spec_fail(key, what, rp)
    else:
        ctx.count("unlisted-finding:" + key)
        if len(ctx.notes) < 40:
            ctx.notes.append("unlisted-finding:%s: %s" % (key, what))


def arrays_of(x, depth=0, seen=None):
    """every ndarray reachable from x (ndarray, sparse matrix, list/tuple/dict, quantecon object)"""
    out = []
    seen = set() if seen is None else seen
    if id(x) in seen or depth > 4:
        return out
    seen.add(id(x))
    if isinstance(x, np.ndarray):
        out.append(x)
    elif sparse.issparse(x):
        for nm in ("data", "indices", "indptr", "row", "col"):
            a = getattr(x, nm, None)
            if isinstance(a, np.ndarray) and a.dtype != object:
                out.append(a)
    elif isinstance(x, (list, tuple)):
        for e in x:
            out += arrays_of(e, depth + 1, seen)
    elif isinstance(x, dict):
        for e in x.values():
            out += arrays_of(e, depth + 1, seen)
    elif type(x).__module__.startswith("quantecon") and hasattr(x, "__dict__"):
        for e in vars(x).values():
            out += arrays_of(e, depth + 1, seen)
    return out


def share(a, b):
    return isinstance(a, np.ndarray) and isinstance(b, np.ndarray) and a.size > 0 and b.size > 0 and np.shares_memory(a, b)


class Snapshot:
    """bitwise snapshot of an argument (ndarray / list / tuple / sparse matrix of any format)"""

    def __init__(self, x):
        import copy
        self.x = x
        if isinstance(x, np.ndarray):
            self.kind, self.c = "nd", (x.copy(order="K"), x.dtype, x.shape, x.strides)
        elif sparse.issparse(x):
            self.kind = "sp"
            self.c = (x.format, x.dtype, x.shape,
                      [(nm, getattr(x, nm).copy()) for nm in ("data", "indices", "indptr", "row", "col")
                       if isinstance(getattr(x, nm, None), np.ndarray) and getattr(x, nm).dtype != object],
                      copy.deepcopy(x.rows.tolist()) if x.format == "lil" else None,
                      copy.deepcopy(x.data.tolist()) if x.format == "lil" else None)
        else:
            self.kind, self.c = "py", copy.deepcopy(x)

    def changed(self):
        x = self.x
        if self.kind == "nd":
            c, dt, sh, st = self.c
            if x.dtype != dt or x.shape != sh or x.strides != st:
                return "dtype/shape/strides changed"
            if x.tobytes() != c.tobytes():
                return "contents changed"
        elif self.kind == "sp":
            fmt, dt, sh, arrs, lrows, ldata = self.c
            if x.format != fmt or x.dtype != dt or x.shape != sh:
                return "format/dtype/shape changed"
            for nm, a in arrs:
                b = getattr(x, nm)
                if b.dtype != a.dtype or b.shape != a.shape or b.tobytes() != a.tobytes():
                    return "%s changed: %s -> %s" % (nm, a.tolist(), b.tolist())
            if lrows is not None and (x.rows.tolist() != lrows or x.data.tolist() != ldata):
                return "lil rows/data changed"
        else:
            if x != self.c or type(x) is not type(self.c):
                return "contents changed"
        return None


MSG_CODE = {
    "input matrix must be square": "not-square",
    "P must be a square matrix": "not-square",
    "P must be nonnegative": "negative",
    "The rows of P must sum to 1": "row-sums",
    "node_labels must be an array_like of length n": "labels-length",
    "state_values must be an array_like of length n": "labels-length",
    "data in node_labels must be homogeneous in type": "labels-object",
    "data in state_values must be homogeneous in type": "labels-object",
}


def err_code(e):
    return "ERR:%s:%s" % (type(e).__name__, MSG_CODE.get(str(e), "?" + str(e)[:60]))


def label_summary(lab):
    """what the setters look at: ndim, length of the first axis, object dtype (the model's LabelArg)"""
    if lab is None:
        return "none", None
    a = np.asarray(lab)
    return "%d,%d,%d" % (a.ndim, a.shape[0] if a.ndim >= 1 else 0, int(a.dtype == object)), a


def expected_label_error(n, lab):
    if lab is None:
        return None
    a = np.asarray(lab)
    if a.ndim < 1 or a.shape[0] != n:
        return "labels-length"
    if a.dtype == object:
        return "labels-object"
    return None


def adj_str(rows):
    return ";".join(",".join(str(v) for v in r) if r else "-" for r in rows)


# ----------------------------------------------------------------------------------------------

def run(ctx):
    from quantecon import DiGraph, MarkovChain

    rng = ctx.rng
    cases = []
    ctx.rule = ("every 0/1 pattern on n<=3 (quick) / n<=4 (thorough) nodes: all patterns for DiGraph, all patterns without "
                "empty row for MarkovChain; plus random n<=12 from planted families (periodic strongly connected with chords, "
                "several recurrent classes of chosen periods fed by transient classes, self-loop inside a longer cycle, sparse "
                "random), randomly renumbered; input as dense bool/int, dense weights (weighted=True), CSR sorted / shuffled "
                "indices, CSR / weighted CSR with explicitly stored zeros (not edges; the caller's matrix must stay unchanged), "
                "MarkovChain dense / sparse (also with stored zeros); with and without labels; object HISTORIES on one "
                "DiGraph / MarkovChain (6-14 steps: node_labels / state_values reassigned to permuted, int, float, string labels "
                "or None, interleaved with reads of every indices / labelled / count / period / subgraph property; every read "
                "compared with the model's state machine and judged against the CURRENT labels; every earlier result is kept "
                "bitwise and re-judged after every later step, the caller scribbles over earlier results, np.shares_memory of "
                "every returned array with inputs / earlier results / the object's own arrays, all inputs bitwise unchanged); "
                "ARGUMENT FORMS (adjacency / P as list, tuple, C, F, strided, reversed and transposed views, bool..uint64 and "
                "float32/64 dtypes, csr/csc/coo/lil/bsr/dia/dok with int32/int64 indices and stored zeros; labels as list / tuple / "
                "int8..int64 / strided views; weighted positional / keyword / NumPy bool; subgraph nodes as list / tuple / "
                "int8..uint64 / views). Non-trivial: n>=2 and at least one edge "
                "between different nodes; distinct by request line")

    def spec(kind, key_prefix, A, rep, replay):
        """exact oracle on what the real code reported (rep: dict of raw outputs)"""
        n = len(A)
        ref = classes_of(A)
        ref_sink = [C for C in ref if is_closed(A, C)]
        irreducible = len(ref) == 1

        def fail(key, what):
            ctx.spec_fail(key_prefix + key, what, replay)

        if canon(rep["scc"]) != canon(ref):
            fail("scc", "classes %s are not the strongly connected components %s" % (canon(rep["scc"]), canon(ref)))
        if canon(rep["sink"]) != canon(ref_sink):
            fail("sink", "recurrent/sink classes %s, components without leaving edge %s" % (canon(rep["sink"]), canon(ref_sink)))
        if bool(rep["sc"]) != irreducible:
            fail("irreducible", "is_irreducible/is_strongly_connected=%s with %d classes" % (rep["sc"], len(ref)))
        if rep["nscc"] != len(ref) or rep["nsink"] != len(ref_sink):
            fail("counts", "counts %s/%s, true %d/%d" % (rep["nscc"], rep["nsink"], len(ref), len(ref_sink)))
        if rep["nscc"] != len(rep["scc"]) or rep["nsink"] != len(rep["sink"]):
            fail("counts", "counts differ from the lengths of the reported lists")
        # labelled variants
        if rep.get("labels") is not None:
            lab = rep["labels"]
            for nm in ("scc", "sink", "cyc"):
                li, ll = rep.get(nm), rep.get(nm + "_lab")
                if isinstance(li, list) and not (isinstance(ll, list) and len(li) == len(ll) and all(
                        [int(lab[u]) for u in c] == [int(x) for x in cl] for c, cl in zip(li, ll))):
                    fail("labels", "labelled %s %s is not labels[indices] %s" % (nm, ll, li))
        # period
        if kind == "dg":
            if irreducible:
                want = period_sc(A, ref[0]) or 1     # trivial graph: convention 1
            else:
                want = "ERR:NotImplementedError"
        else:
            want = 1
            for C in ref_sink:
                want = lcm(want, period_sc(A, C))     # a closed class of a chain always has a cycle
        if rep["period"] != want:
            fail("period", "period %s, from the definition %s" % (rep["period"], want))
        if isinstance(rep["period"], int):
            if rep["aper"] != (rep["period"] == 1):
                fail("aperiodic", "is_aperiodic=%s with period %s" % (rep["aper"], rep["period"]))
        # cyclic classes
        cyc = rep["cyc"]
        if irreducible:
            if not isinstance(cyc, list):
                fail("cyclic", "cyclic classes not reported for an irreducible input: %s" % (cyc,))
            else:
                d = len(cyc)
                flat = sorted(int(u) for c in cyc for u in c)
                where = {int(u): k for k, c in enumerate(cyc) for u in c}
                ok = flat == list(range(n)) and all(len(c) > 0 for c in cyc) and d == want
                if ok:
                    ok = all(where[v] == (where[u] + 1) % d for u in range(n) for v in range(n) if A[u][v])
                if not ok:
                    fail("cyclic", "cyclic classes %s: not a partition into period=%s classes with every edge k -> k+1"
                         % (canon(cyc) if flat == list(range(n)) else cyc, want))
        else:
            if cyc != "ERR:NotImplementedError":
                fail("cyclic", "cyclic classes of a reducible input: %s" % (cyc,))

    def attempt(f):
        try:
            return f()
        except NotImplementedError:
            return "ERR:NotImplementedError"

    def tolists(x):
        return [[int(u) for u in c] for c in x] if isinstance(x, list) else x

    def dg_report(g, with_labels):
        rep = {
            "sc": bool(g.is_strongly_connected),
            "nscc": int(g.num_strongly_connected_components),
            "nsink": int(g.num_sink_strongly_connected_components),
            "scc": tolists(g.strongly_connected_components_indices),
            "sink": tolists(g.sink_strongly_connected_components_indices),
            "period": attempt(lambda: int(g.period)),
            "aper": attempt(lambda: bool(g.is_aperiodic)),
            "cyc": tolists(attempt(lambda: g.cyclic_components_indices)),
        }
        if with_labels:
            def rawlists(x):
                return [list(np.asarray(c).tolist()) for c in x] if isinstance(x, list) else x
            rep["scc_lab"] = rawlists(g.strongly_connected_components)
            rep["sink_lab"] = rawlists(g.sink_strongly_connected_components)
            rep["cyc_lab"] = rawlists(attempt(lambda: g.cyclic_components))
        return rep

    def class_strings(rep, labels):
        """(scc, sink, cyc) strings; with labels they are built from the code's *labelled* lists"""
        if labels is None:
            def show(x, sort=True):
                if not isinstance(x, list):
                    return x
                return cls_str(canon(x) if sort else x, None)
            return show(rep["scc"]), show(rep["sink"]), show(rot0(rep["cyc"]), sort=False)
        return (labelled_str(rep["scc"], rep["scc_lab"], True), labelled_str(rep["sink"], rep["sink_lab"], True),
                labelled_str(rep["cyc"], rep["cyc_lab"], False, rotate=True))

    def dg_string(rep, labels):
        aper = rep["aper"]
        a, b, c = class_strings(rep, labels)
        return "sc=%d nscc=%d nsink=%d scc=%s sink=%s period=%s aper=%s cyc=%s" % (
            rep["sc"], rep["nscc"], rep["nsink"], a, b, rep["period"],
            int(aper) if isinstance(aper, bool) else aper, c)

    def sub_case(g, A, rows, labels, nodes=None):
        """DiGraph.subgraph(nodes) on a random node list (any order, no repetition)"""
        n = len(A)
        if nodes is None:
            nodes = rng.sample(range(n), rng.randint(1, n))
            if rng.random() < 0.5:
                nodes.sort()
        h = g.subgraph(np.array(nodes))
        k = len(nodes)
        Asub = [[int(A[u][v]) for v in nodes] for u in nodes]
        got = (h.csgraph.toarray() != 0).astype(int).tolist()
        sublabels = None if labels is None else [labels[u] for u in nodes]
        replay = {"op": "sub", "n": n, "adj": [list(map(int, r)) for r in A], "nodes": nodes, "labels": labels}
        if h.n != k or got != Asub:
            ctx.spec_fail("sub:pattern", "subgraph(%s) has pattern %s, expected %s" % (nodes, got, Asub), replay)
        hl = None if h.node_labels is None else [int(x) for x in h.node_labels]
        if hl != sublabels:
            ctx.spec_fail("sub:labels", "subgraph(%s) has labels %s, expected %s" % (nodes, hl, sublabels), replay)
        rep = dg_report(h, sublabels is not None)
        rep["labels"] = sublabels
        replay["reported"] = dict(rep)
        spec("dg", "sub:", Asub, rep, replay)
        srows = [[j for j in range(k) if got[i][j]] for i in range(k)]
        line = "C03 sub n=%d adj=%s nodes=%s" % (n, adj_str(rows), ",".join(map(str, nodes)))
        if labels is not None:
            line += " labels=" + ",".join(str(x) for x in labels)
        cases.append(Case(line, "n=%d adj=%s %s" % (h.n, adj_str(srows), dg_string(rep, sublabels)),
                          nontrivial=(k >= 2 and any(Asub[i][j] for i in range(k) for j in range(k) if i != j)), tag="sub"))
        ctx.count("sub:" + ("sorted-nodes" if nodes == sorted(nodes) else "permuted-nodes"))

    def one(A, kind, form, labels, raw=None):
        """build the real object, report, spec-check, and queue the correspondence case"""
        n = len(A)
        rows = [[j for j in range(n) if A[i][j]] for i in range(n)]
        Ad = np.array(A, dtype=int).reshape(n, n)
        stored_rows = nz_rows = None      # set when the input has explicitly stored zeros
        if form == "csr-shuffled":
            rows = [rng.sample(r, len(r)) for r in rows]
        if kind == "mc":
            # unequal probabilities inside a row, so that a permuted row is a different chain
            W = [[(rng.randint(1, 4) if A[i][j] else 0) for j in range(n)] for i in range(n)]
            P = np.array([[W[i][j] / sum(W[i]) for j in range(n)] for i in range(n)])
        if raw is not None:        # corpus entry: CSR arrays exactly as recorded
            data, indices, indptr = (np.array(raw[0]), np.array(raw[1], dtype=np.int32), np.array(raw[2], dtype=np.int32))
            rows = [[int(indices[t]) for t in range(indptr[i], indptr[i + 1]) if data[t] != 0] for i in range(n)]
            if any(d == 0 for d in data):
                stored_rows = [[int(indices[t]) for t in range(indptr[i], indptr[i + 1])] for i in range(n)]
                nz_rows = [[int(data[t] != 0) for t in range(indptr[i], indptr[i + 1])] for i in range(n)]
            arg = sparse.csr_matrix((data, indices, indptr), shape=(n, n))
            before = (arg.data.copy(), arg.indices.copy(), arg.indptr.copy())
        elif form == "dense":
            arg = Ad.astype(bool) if rng.random() < 0.5 else Ad
        elif form == "weighted":
            arg = Ad * np.array([[rng.choice([0.25, 0.5, 1.0, 2.0, 3.5]) for _ in range(n)] for _ in range(n)])
        else:  # csr family: hand over the CSR arrays in the chosen storage order
            zeros = form in ("csr-zeros", "wcsr-zeros")
            stored = []          # per row: (column, is_edge) in storage order
            for i, r in enumerate(rows):
                ent = [(v, True) for v in r]
                if zeros:
                    free = [j for j in range(n) if not A[i][j]]
                    ent += [(j, False) for j in rng.sample(free, rng.randint(0, min(len(free), 2)))]
                    rng.shuffle(ent)
                stored.append(ent)
            if zeros:
                if not any(not e for ent in stored for (_, e) in ent):   # make sure one stored zero exists
                    cand = [(i, j) for i in range(n) for j in range(n) if not A[i][j]]
                    if cand:
                        i, j = rng.choice(cand)
                        stored[i].insert(rng.randint(0, len(stored[i])), (j, False))
                rows = [[v for (v, e) in ent if e] for ent in stored]     # what eliminate_zeros leaves, same order
                if any(not e for ent in stored for (_, e) in ent):
                    ctx.count("stored-zeros:present")
                    stored_rows = [[v for (v, _) in ent] for ent in stored]
                    nz_rows = [[int(e) for (_, e) in ent] for ent in stored]
            indptr = np.cumsum([0] + [len(ent) for ent in stored])
            indices = np.array([v for ent in stored for (v, _) in ent], dtype=np.int32)
            if kind == "mc":
                data = np.array([(P[i][v] if e else 0.0) for i, ent in enumerate(stored) for (v, e) in ent])
            elif form == "wcsr-zeros":
                data = np.array([(rng.choice([0.25, 0.5, 1.0, 2.0, 3.5]) if e else 0.0) for ent in stored for (_, e) in ent])
            else:
                dt = bool if rng.random() < 0.5 else float
                data = np.array([(1 if e else 0) for ent in stored for (_, e) in ent], dtype=dt)
            arg = sparse.csr_matrix((data, indices, indptr), shape=(n, n))
            before = (arg.data.copy(), arg.indices.copy(), arg.indptr.copy())
        lab = None if labels is None else np.array(labels)
        if kind == "dg":
            g = DiGraph(arg, weighted=(form in ("weighted", "wcsr-zeros", "corpus-weighted")), node_labels=lab)
            rep = dg_report(g, lab is not None)
        else:
            mc = MarkovChain(P if (form == "dense" and raw is None) else arg, state_values=lab)
            rep = {
                "sc": bool(mc.is_irreducible),
                "nscc": int(mc.num_communication_classes),
                "nsink": int(mc.num_recurrent_classes),
                "scc": tolists(mc.communication_classes_indices),
                "sink": tolists(mc.recurrent_classes_indices),
                "period": attempt(lambda: int(mc.period)),
                "aper": attempt(lambda: bool(mc.is_aperiodic)),
                "cyc": tolists(attempt(lambda: mc.cyclic_classes_indices)),
            }
            if lab is not None:
                rep["scc_lab"] = tolists(mc.communication_classes)
                rep["sink_lab"] = tolists(mc.recurrent_classes)
                rep["cyc_lab"] = tolists(attempt(lambda: mc.cyclic_classes))
        rep["labels"] = labels
        if sparse.issparse(arg):
            # the matrix the caller handed over must still denote the same matrix (value comparison entry by entry,
            # and the same number of stored entries); a mere re-ordering of the storage is only counted
            def dense_of(data, indices, indptr):
                D = [[0.0] * n for _ in range(n)]
                for i in range(n):
                    for t in range(indptr[i], indptr[i + 1]):
                        D[i][indices[t]] += float(data[t])
                return D
            now = (arg.data, arg.indices, arg.indptr)
            ok = (len(now[0]) == len(before[0]) and len(now[2]) == len(before[2]) and arg.data.dtype == before[0].dtype
                  and dense_of(*now) == dense_of(*before))
            if not ok:
                ctx.spec_fail(kind + ":mutated-input", "the caller's sparse matrix changed value: %s -> %s"
                              % (dense_of(*before), dense_of(*now) if len(now[2]) == n + 1 else "?"),
                              {"op": kind, "form": form, "n": n, "adj": [list(map(int, r)) for r in A],
                               "data": before[0].tolist(), "indices": before[1].tolist(), "indptr": before[2].tolist()})
            elif not all(np.array_equal(x, y) for x, y in zip(now, before)):
                ctx.count("sparse-input:storage-reordered-same-matrix")
            ctx.count("sparse-input:value-unchanged-checked")
        replay = {"op": kind, "form": form, "n": n, "adj": [list(map(int, r)) for r in A], "labels": labels,
                  "csr": None if not sparse.issparse(arg) else {"data": before[0].tolist(), "indices": before[1].tolist(),
                                                              "indptr": before[2].tolist()},
                  "reported": {k: v for k, v in rep.items()}}
        spec(kind, kind + ":", A, rep, replay)

        # ---- canonical string of the code's answer (what the model prints) ----------------------
        per = rep["period"]
        aper = rep["aper"]
        if kind == "dg":
            s = dg_string(rep, labels)
        else:
            a, b, c = class_strings(rep, labels)
            s = "irr=%d ncomm=%d nrec=%d comm=%s rec=%s period=%s aper=%s cyc=%s" % (
                rep["sc"], rep["nscc"], rep["nsink"], a, b, per, int(aper) if isinstance(aper, bool) else aper, c)
        if stored_rows is not None:
            # the model gets the matrix as stored plus the "value is non-zero" flags and drops the zeros itself
            line = "C03 %s n=%d adj=%s nz=%s" % (kind, n, adj_str(stored_rows), adj_str(nz_rows))
            ctx.count("stored-zeros:eliminated-by-model")
        else:
            line = "C03 %s n=%d adj=%s" % (kind, n, adj_str(rows))
        if labels is not None:
            line += " labels=" + ",".join(str(x) for x in labels)
        nt = n >= 2 and any(A[i][j] for i in range(n) for j in range(n) if i != j)
        cases.append(Case(line, s, nontrivial=nt, tag=kind))
        if kind == "dg" and rng.random() < 0.35:
            sub_case(g, A, rows, labels)

        # ---- branch counters -----------------------------------------------------------------------
        ctx.count("form:" + form)
        ctx.count("labels:" + ("yes" if labels is not None else "no"))
        if rep["sc"]:
            ctx.count("irreducible")
            if isinstance(per, int):
                ctx.count("period:%s" % (per if per <= 4 else ">4"))
                if n > 1 and any(A[i][i] for i in range(n)):
                    ctx.count("period:self-loop-shortcut")
                elif n > 1 and per == 1:
                    ctx.count("period:gcd-reaches-1")
                elif n > 1:
                    ctx.count("period:bfs-gcd>1")
        else:
            ctx.count("reducible")
            ctx.count("nrec:%s" % (rep["nsink"] if rep["nsink"] <= 3 else ">3"))
            if rep["nscc"] > rep["nsink"]:
                ctx.count("has-transient-class")
            if kind == "mc" and isinstance(per, int) and per > 1:
                ctx.count("mc:lcm-period>1")
                ps = [period_sc(A, C) for C in classes_of(A) if is_closed(A, C)]
                if len(set(ps)) > 1:
                    ctx.count("mc:lcm-of-different-periods")
            if kind == "dg" and per == "ERR:NotImplementedError":
                ctx.count("dg:NotImplementedError")

    FORMS = ["dense", "weighted", "csr", "csr-shuffled", "csr-zeros", "wcsr-zeros"]
    MCFORMS = ["dense", "csr", "csr-shuffled", "csr-zeros"]

    def pick_labels(n, on):
        if not on:
            return None
        return rng.sample(range(-50, 100), n)

    # ---- ./check C03 --replay <file>: only the recorded input -------------------------------------------------
    r = getattr(ctx, "replay_only", None)
    if r is not None and r.get("op") != "hist":
        form = r.get("form") or "dense"
        kind = "dg" if r.get("op") in ("dg", "sub") else "mc"
        raw = None
        if r.get("csr"):
            raw = (r["csr"]["data"], r["csr"]["indices"], r["csr"]["indptr"])
        elif "indptr" in r:
            raw = (r["data"], r["indices"], r["indptr"])
        if raw is not None:
            form = "corpus-weighted" if form in ("wcsr-zeros", "corpus-weighted") else "corpus"
        one(r["adj"], kind, form, r.get("labels"), raw=raw)
        if r.get("op") == "sub":
            A = r["adj"]
            lab = r.get("labels")
            sub_case(DiGraph(np.array(A), node_labels=None if lab is None else np.array(lab)), A,
                     [[j for j in range(len(A)) if A[i][j]] for i in range(len(A))], lab, nodes=r["nodes"])
        ctx.run_cases(cases)
        return

    # ---- corpus: recorded inputs (past findings) run first -------------------------------------------------
    import json, os
    cpath = os.path.join(ctx.corpus_dir, "c03_cases.json")
    if os.path.exists(cpath):
        for ent in json.load(open(cpath)):
            n = ent["n"]
            D = [[0.0] * n for _ in range(n)]
            for i in range(n):
                for t in range(ent["indptr"][i], ent["indptr"][i + 1]):
                    D[i][ent["indices"][t]] += ent["data"][t]
            A = [[1 if D[i][j] != 0 else 0 for j in range(n)] for i in range(n)]
            form = "corpus-weighted" if ent.get("weighted") else "corpus"
            one(A, ent["kind"], form, ent.get("labels"), raw=(ent["data"], ent["indices"], ent["indptr"]))
            ctx.count("corpus-cases")

    # ---- exhaustive small scopes -------------------------------------------------------------------
    nmax = ctx.n(3, 4)
    k = 0
    for n in range(1, nmax + 1):
        for bits in itertools.product((0, 1), repeat=n * n):
            A = [list(bits[i * n:(i + 1) * n]) for i in range(n)]
            k += 1
            one(A, "dg", FORMS[k % 6], pick_labels(n, k % 5 == 0))
            if all(any(r) for r in A):
                one(A, "mc", MCFORMS[k % 4], pick_labels(n, k % 7 == 0))
                ctx.count("exhaustive:mc-patterns-n=%d" % n)
            ctx.count("exhaustive:dg-patterns-n=%d" % n)
    if nmax < 4:
        # quick tier: a random sample of the n=4 patterns (the thorough tier enumerates all 65 536)
        for _ in range(4000):
            A = [[rng.randint(0, 1) for _ in range(4)] for _ in range(4)]
            k += 1
            one(A, "dg", FORMS[k % 6], pick_labels(4, k % 5 == 0))
            if all(any(r) for r in A):
                one(A, "mc", MCFORMS[k % 4], pick_labels(4, k % 7 == 0))
            ctx.count("sampled:n=4-patterns")
    ctx.exhaustive = True
    ctx.extra["exhaustive_scope"] = ("all 0/1 patterns n<=%d as DiGraph (incl. empty rows), all patterns without empty row "
                                     "n<=%d as MarkovChain; random families n<=12 are sampled" % (nmax, nmax))

    # ---- planted random families ---------------------------------------------------------------------
    def renumber(A):
        n = len(A)
        p = list(range(n))
        rng.shuffle(p)
        B = [[0] * n for _ in range(n)]
        for i in range(n):
            for j in range(n):
                if A[i][j]:
                    B[p[i]][p[j]] = 1
        return B

    def periodic_block(m, p, extra):
        """strongly connected on m>=p nodes, all cycle lengths multiples of p (period a multiple of p... exactly p
        when chords make it so): nodes in p groups, edges only group k -> k+1"""
        grp = [i % p for i in range(m)]
        rng.shuffle(grp)
        for k_ in range(p):           # every group non-empty
            grp[k_] = k_
        members = [[i for i in range(m) if grp[i] == k_] for k_ in range(p)]
        B = [[0] * m for _ in range(m)]
        # a Hamiltonian-ish backbone: each node gets an out-edge and an in-edge
        for i in range(m):
            j = rng.choice(members[(grp[i] + 1) % p]); B[i][j] = 1
            j = rng.choice(members[(grp[i] - 1) % p]); B[j][i] = 1
        for _ in range(extra):
            i = rng.randrange(m); j = rng.choice(members[(grp[i] + 1) % p]); B[i][j] = 1
        return B

    def blocks(specs, n_trans):
        """recurrent blocks (size, period) + transient nodes feeding them"""
        sizes = [s for s, _ in specs]
        n = sum(sizes) + n_trans
        A = [[0] * n for _ in range(n)]
        off = 0
        starts = []
        for (s, p) in specs:
            B = periodic_block(s, p, rng.randint(0, 3))
            for i in range(s):
                for j in range(s):
                    A[off + i][off + j] = B[i][j]
            starts.append((off, s))
            off += s
        for t in range(off, n):
            # transient node: edges into one or two recurrent blocks and maybe other transient nodes
            for (o, s) in rng.sample(starts, min(len(starts), rng.randint(1, 2))):
                A[t][o + rng.randrange(s)] = 1
            if n_trans > 1 and rng.random() < 0.6:
                A[t][rng.randrange(sum(sizes), n)] = 1
        return A

    nrand = ctx.n(4000, 40000)
    for it in range(nrand):
        fam = it % 5
        if fam == 0:      # periodic strongly connected
            p = rng.choice([1, 2, 2, 3, 3, 4, 5, 6])
            m = rng.randint(max(p, 2), 12)
            A = periodic_block(m, p, rng.randint(0, 4))
        elif fam == 1:    # several recurrent classes with different periods + transient feeders
            kcls = rng.randint(2, 3)
            specs = []
            for _ in range(kcls):
                p = rng.choice([1, 2, 3, 4])
                specs.append((rng.randint(max(p, 1), 4), p))
            A = blocks(specs, rng.randint(0, 12 - sum(s for s, _ in specs)) if sum(s for s, _ in specs) < 12 else 0)
            # size-1 recurrent block needs its loop
            for i in range(len(A)):
                if not any(A[i]):
                    A[i][i] = 1
        elif fam == 2:    # self-loop inside a longer cycle
            m = rng.randint(2, 12)
            A = [[0] * m for _ in range(m)]
            for i in range(m):
                A[i][(i + 1) % m] = 1
            A[rng.randrange(m)][rng.randrange(m)] = 1
            if rng.random() < 0.5:
                i = rng.randrange(m); A[i][i] = 1
        elif fam == 3:    # sparse random, every row non-empty
            m = rng.randint(2, 12)
            dens = rng.choice([1.0, 1.5, 2.0, 3.0]) / m
            A = [[1 if rng.random() < dens else 0 for _ in range(m)] for _ in range(m)]
            for i in range(m):
                if not any(A[i]):
                    A[i][rng.randrange(m)] = 1
        elif fam == 4 and ctx.thorough and it % 25 == 4:
            # beyond the quantifier's n<=12: 13..20 nodes, several periodic blocks with transient feeders
            specs = []
            for _ in range(rng.randint(1, 3)):
                p = rng.choice([1, 2, 3, 4, 5])
                specs.append((rng.randint(max(p, 2), 6), p))
            tot = sum(sz for sz, _ in specs)
            A = blocks(specs, rng.randint(max(0, 13 - tot), 20 - tot))
            for i in range(len(A)):
                if not any(A[i]):
                    A[i][i] = 1
            ctx.count("family:large-13..20")
        else:             # union of disjoint cycles of given lengths joined by one-way bridges
            lens = [rng.randint(1, 5) for _ in range(rng.randint(1, 3))]
            m = sum(lens)
            A = [[0] * m for _ in range(m)]
            off = 0
            firsts = []
            for L in lens:
                for i in range(L):
                    A[off + i][off + (i + 1) % L] = 1
                firsts.append(off)
                off += L
            for a, b in zip(firsts, firsts[1:]):
                if rng.random() < 0.7:
                    A[a][b] = 1
        A = renumber(A)
        n = len(A)
        ctx.count("family:%d" % fam)
        kind = "mc" if (all(any(r) for r in A) and rng.random() < 0.6) else "dg"
        form = rng.choice(FORMS if kind == "dg" else MCFORMS)
        one(A, kind, form, pick_labels(n, rng.random() < 0.3))

    # ---- object histories: one DiGraph / MarkovChain, label reassignments interleaved with reads --------------
    def small_graph():
        fam = rng.randrange(4)
        if fam == 0:
            p_ = rng.choice([1, 2, 3, 4])
            A = periodic_block(rng.randint(max(p_, 2), 7), p_, rng.randint(0, 3))
        elif fam == 1:
            specs = [(rng.randint(max(q, 1), 3), q) for q in (rng.choice([1, 2, 3]) for _ in range(rng.randint(2, 3)))]
            A = blocks(specs, rng.randint(0, 2))
            for i in range(len(A)):
                if not any(A[i]):
                    A[i][i] = 1
        elif fam == 2:
            m = rng.randint(1, 6)
            A = [[1 if rng.random() < 0.35 else 0 for _ in range(m)] for _ in range(m)]
            for i in range(m):
                if not any(A[i]):
                    A[i][rng.randrange(m)] = 1
        else:
            m = rng.randint(1, 4)
            A = [[rng.randint(0, 1) for _ in range(m)] for _ in range(m)]
            for i in range(m):
                if not any(A[i]):
                    A[i][i] = 1
        return renumber(A)

    def history(A, kind, script=None):
        """one object, a random sequence of label assignments and reads; every read is compared with the model
        (state = graph + current labels) and judged by the oracle against the CURRENT labels"""
        n = len(A)
        rows = [[j for j in range(n) if A[i][j]] for i in range(n)]
        ref = classes_of(A)
        ref_sink = [C for C in ref if is_closed(A, C)]
        irreducible = len(ref) == 1
        if kind == "dg":
            want_period = (period_sc(A, ref[0]) or 1) if irreducible else "ERR:NotImplementedError"
        else:
            want_period = 1
            for C in ref_sink:
                want_period = lcm(want_period, period_sc(A, C))
        codes = {}

        def code(x):
            key = (type(x).__name__, x)
            if key not in codes:
                codes[key] = len(codes) + 1
            return codes[key]

        def fresh_labels(allow_none=True):
            style = rng.choice(["int", "int", "float", "str", "none"] if allow_none else ["int", "float", "str"])
            ctx.count("hist:labels-" + style)
            if style == "none":
                return None
            base = rng.sample(range(-40, 60), n)
            if style == "int":
                return base
            if style == "float":
                return [b + 0.5 for b in base]
            return ["s%d" % b for b in base]

        def wire(L):
            return "none" if L is None else ",".join(str(code(x)) for x in L)

        cur = fresh_labels() if script is None else script["initial_labels"]
        arg = np.array(A, dtype=int) if rng.random() < 0.5 else sparse.csr_matrix(np.array(A, dtype=float))
        if kind == "dg":
            obj = DiGraph(arg, node_labels=None if cur is None else np.array(cur))
        else:
            W = [[(rng.randint(1, 4) if A[i][j] else 0) for j in range(n)] for i in range(n)]
            P = np.array([[W[i][j] / sum(W[i]) for j in range(n)] for i in range(n)])
            obj = MarkovChain(sparse.csr_matrix(P) if sparse.issparse(arg) else P,
                              state_values=None if cur is None else np.array(cur))
        line = "C03 hist kind=%s n=%d adj=%s" % (kind, n, adj_str(rows))
        if cur is not None:
            line += " labels=" + wire(cur)
        names = ({"idx": {"scc": "strongly_connected_components_indices", "sink": "sink_strongly_connected_components_indices",
                          "cyc": "cyclic_components_indices"},
                  "lab": {"scclab": "strongly_connected_components", "sinklab": "sink_strongly_connected_components",
                          "cyclab": "cyclic_components"},
                  "sc": "is_strongly_connected", "nscc": "num_strongly_connected_components",
                  "nsink": "num_sink_strongly_connected_components"} if kind == "dg" else
                 {"idx": {"comm": "communication_classes_indices", "rec": "recurrent_classes_indices",
                          "cyc": "cyclic_classes_indices"},
                  "lab": {"commlab": "communication_classes", "reclab": "recurrent_classes", "cyclab": "cyclic_classes"},
                  "sc": "is_irreducible", "nscc": "num_communication_classes", "nsink": "num_recurrent_classes"})
        wname = {"sc": "sc" if kind == "dg" else "irr", "nscc": "nscc" if kind == "dg" else "ncomm",
                 "nsink": "nsink" if kind == "dg" else "nrec"}
        lab_of = {"scclab": "scc", "sinklab": "sink", "cyclab": "cyc", "commlab": "comm", "reclab": "rec"}
        reads = list(names["idx"]) + list(names["lab"]) * 3 + ["sc", "nscc", "nsink", "period", "aper"] + (["sub"] * 3 if kind == "dg" else [])
        frozen = "unbuilt"          # MarkovChain: labels its digraph was built with
        steps, outs = [], []
        seen_lab_read = set()
        replay = {"op": "hist", "kind": kind, "n": n, "adj": [list(map(int, r)) for r in A], "initial_labels": cur, "steps": []}

        def fail(key, what):
            ctx.spec_fail(key, what, dict(replay, steps=list(replay["steps"])))

        def check_idx(kindname, got):
            """index variants against the definitions"""
            base = {"scc": ref, "comm": ref, "sink": ref_sink, "rec": ref_sink}.get(kindname)
            if base is not None:
                if not isinstance(got, list) or canon(got) != canon(base):
                    fail(kind + ":hist-read", "%s = %s, from the definition %s" % (kindname, got, canon(base)))
            else:   # cyclic classes
                if irreducible:
                    d = len(got) if isinstance(got, list) else -1
                    ok = isinstance(got, list) and sorted(u for c in got for u in c) == list(range(n)) and d == want_period \
                        and all(len(c) > 0 for c in got)
                    if ok:
                        where = {u: k for k, c in enumerate(got) for u in c}
                        ok = all(where[v] == (where[u] + 1) % d for u in range(n) for v in range(n) if A[u][v])
                    if not ok:
                        fail(kind + ":hist-read", "cyclic classes %s are not the period=%s partition" % (got, want_period))
                elif got != "ERR:NotImplementedError":
                    fail(kind + ":hist-read", "cyclic classes of a reducible input: %s" % (got,))

        plan = [None] * rng.randint(6, 14) if script is None else script["steps"]
        last_nodes = []
        kept = []                       # (description, arrays as returned, bit copies taken at return time)
        in_snaps = [Snapshot(arg)] if kind == "dg" else [Snapshot(obj.P)]
        in_arrays = arrays_of(arg)

        def after_step(new_arrays, desc):
            """class (1)/(2) checks after every step: earlier results bitwise unchanged, inputs bitwise unchanged, a newly
            returned array shares memory with no input, no earlier result and nothing the object holds"""
            for d, arrs, cps in kept:
                for a, c in zip(arrs, cps):
                    if a.dtype != c.dtype or a.shape != c.shape or a.tobytes() != c.tobytes():
                        fail(kind + ":hist-earlier-result-changed", "%s returned earlier changed from %s to %s after %s"
                             % (d, c.tolist(), a.tolist(), desc))
            for sn in in_snaps:
                why = sn.changed()
                if why:
                    fail(kind + ":mutated-input", "an argument of the history was modified (%s) after %s" % (why, desc))
            if new_arrays:
                held = arrays_of(obj)
                for a in new_arrays:
                    if any(share(a, b) for b in in_arrays):
                        fail(kind + ":alias-input", "%s returns memory of an input" % desc)
                    if any(share(a, b) for _, arrs, _ in kept for b in arrs):
                        fail(kind + ":alias-returned", "%s returns memory of an earlier result" % desc)
                    if any(share(a, b) for b in held):
                        fail(kind + ":alias-state", "%s returns memory the object itself holds" % desc)
                if len(new_arrays) > 1 and any(share(a, b) for i_, a in enumerate(new_arrays) for b in new_arrays[i_ + 1:]):
                    fail(kind + ":alias-returned", "%s returns overlapping arrays" % desc)
                kept.append((desc, list(new_arrays), [a.copy() for a in new_arrays]))
                ctx.count("hist:alias-checked-reads")

        for planned in plan:
            r = rng.random()
            if planned is None and kept and rng.random() < 0.12:
                # the caller scribbles over a result it was handed earlier: later answers must not notice
                d, arrs, cps = kept[rng.randrange(len(kept))]
                for a_i, a in enumerate(arrs):
                    if a.flags.writeable and a.size:
                        a[...] = a[::-1].copy() if rng.random() < 0.5 and a.size > 1 else (a[0] if a.dtype.kind in "US" else a + 7)
                        cps[a_i] = a.copy()
                ctx.count("hist:caller-scribbled-on-earlier-result")
                replay["steps"].append(["scribble", d])
                continue
            if planned is not None and planned[0] == "scribble":
                continue
            if (planned is None and rng.random() < 0.08) or (planned is not None and planned[0] == "badset"):
                # an assignment the setter must reject: nothing may change
                if planned is not None:
                    bad = planned[1]
                else:
                    bad = rng.choice([list(range(n + 1)), list(range(n + 2)), 7, [[1, 2]] * (n + 1),
                                      np.array([None] * n, dtype=object), np.array([None] * (n + 3), dtype=object)]
                                     + ([list(range(n - 1))] if n >= 1 else []))
                summ, arr_ = label_summary(bad)
                want_code = expected_label_error(n, bad)
                replay["steps"].append(["badset", bad.tolist() if isinstance(bad, np.ndarray) else bad])
                try:
                    if kind == "dg":
                        obj.node_labels = bad
                    else:
                        obj.state_values = bad
                    got_bad = "accepted"
                except ValueError as e_:
                    got_bad = err_code(e_)
                if want_code is None or got_bad != "ERR:ValueError:" + want_code:
                    fail(kind + ":hist-bad-assignment", "assigning labels %r to an object with n=%d gave %s, the setter's rule gives %s"
                         % (bad, n, got_bad, want_code))
                outs.append(got_bad)
                steps.append("B:" + summ)
                ctx.count("hist:rejected-assignment:" + str(want_code))
                after_step([], "a rejected label assignment")
                continue
            if (planned is None and r < 0.3) or (planned is not None and planned[0] == "set"):
                if planned is not None:
                    L = planned[1]
                else:
                    L = fresh_labels()
                    if L is not None and cur is not None and rng.random() < 0.4:
                        L = rng.sample(cur, n)             # the same labels, permuted
                        ctx.count("hist:labels-permuted")
                Larr = None if L is None else (np.array(L) if rng.random() < 0.7 else (list(L) if rng.random() < 0.5 else tuple(L)))
                if Larr is not None:
                    in_snaps.append(Snapshot(Larr))
                if kind == "dg":
                    obj.node_labels = Larr
                else:
                    obj.state_values = Larr
                    ctx.count("hist:mc-set-" + ("before-digraph" if frozen == "unbuilt" else "after-digraph"))
                after_step([], "assigning labels %s" % (L,))
                cur = L
                steps.append("L:" + wire(L))
                replay["steps"].append(["set", L])
                continue
            what = rng.choice(reads) if planned is None else planned[1]
            replay["steps"].append(["read", what])
            if kind == "mc" and frozen == "unbuilt":
                frozen = cur
            if what == "sub":
                if planned is not None:
                    nodes = planned[2]
                elif last_nodes and rng.random() < 0.5:
                    # the same method again with a related argument: same nodes in another order, or another set of that size
                    nodes = rng.sample(last_nodes[0], len(last_nodes[0])) if rng.random() < 0.5 else rng.sample(range(n), len(last_nodes[0]))
                    ctx.count("hist:subgraph-called-again-related-nodes")
                else:
                    nodes = rng.sample(range(n), rng.randint(1, n))
                last_nodes[:] = [list(nodes)]
                replay["steps"][-1].append(nodes)
                nodes_arr = rng.choice([np.array(nodes), list(nodes), tuple(nodes), np.array(nodes, dtype=np.uint8)])
                nsnap = Snapshot(nodes_arr)
                h = obj.subgraph(nodes_arr)
                if nsnap.changed():
                    fail("sub:mutated-input", "subgraph() modified its nodes argument: " + nsnap.changed())
                held_parent = arrays_of(obj)
                if any(share(a, b) for a in arrays_of(h) for b in held_parent + arrays_of(nodes_arr)):
                    fail("sub:alias-state", "subgraph(%s) shares memory with its parent graph or with the nodes argument" % nodes)
                after_step([], "subgraph(%s)" % nodes)
                k = len(nodes)
                Asub = [[int(A[u][v]) for v in nodes] for u in nodes]
                got = (h.csgraph.toarray() != 0).astype(int).tolist()
                sub_cur = None if cur is None else [cur[u] for u in nodes]
                hl = None if h.node_labels is None else h.node_labels.tolist()
                if h.n != k or got != Asub:
                    fail("sub:pattern", "subgraph(%s) has pattern %s, expected %s" % (nodes, got, Asub))
                if hl != sub_cur:
                    fail("dg:hist-labels", "subgraph(%s) carries labels %s, the graph's current labels give %s" % (nodes, hl, sub_cur))
                rep = dg_report(h, hl is not None)
                if hl is None:
                    a, b, c = class_strings(rep, None)
                else:
                    cd = [code(x) for x in hl]
                    def relab(lst):
                        return [[code(x) for x in cl] for cl in lst] if isinstance(lst, list) else lst
                    rep2 = dict(rep, scc_lab=relab(rep["scc_lab"]), sink_lab=relab(rep["sink_lab"]), cyc_lab=relab(rep["cyc_lab"]))
                    a, b, c = class_strings(rep2, cd)
                aper = rep["aper"]
                srows = [[j for j in range(k) if got[i][j]] for i in range(k)]
                outs.append("n=%d adj=%s sc=%d nscc=%d nsink=%d scc=%s sink=%s period=%s aper=%s cyc=%s" % (
                    h.n, adj_str(srows), rep["sc"], rep["nscc"], rep["nsink"], a, b, rep["period"],
                    int(aper) if isinstance(aper, bool) else aper, c))
                steps.append("S:" + ",".join(map(str, nodes)))
                ctx.count("hist:read-sub")
                continue
            if what in ("sc", "nscc", "nsink"):
                v = getattr(obj, names[what])
                want = {"sc": irreducible, "nscc": len(ref), "nsink": len(ref_sink)}[what]
                if (bool(v) if what == "sc" else int(v)) != want:
                    fail(kind + ":hist-read", "%s = %s, from the definition %s" % (names[what], v, want))
                outs.append(str(int(v)))
                steps.append("R:" + wname[what])
            elif what == "period":
                v = attempt(lambda: int(obj.period))
                if v != want_period:
                    fail(kind + ":hist-read", "period = %s, from the definition %s" % (v, want_period))
                outs.append(str(v)); steps.append("R:period")
            elif what == "aper":
                v = attempt(lambda: bool(obj.is_aperiodic))
                if (v if isinstance(v, str) else (v == (want_period == 1))) not in (True, "ERR:NotImplementedError") \
                        or (isinstance(v, str) != isinstance(want_period, str)):
                    fail(kind + ":hist-read", "is_aperiodic = %s with period %s" % (v, want_period))
                outs.append(v if isinstance(v, str) else str(int(v))); steps.append("R:aper")
            elif what in names["idx"]:
                rawi = attempt(lambda: getattr(obj, names["idx"][what]))
                got = tolists(rawi)
                after_step(arrays_of(rawi), names["idx"][what])
                check_idx(what, got)
                outs.append(got if isinstance(got, str) else cls_str(rot0(got) if what == "cyc" else canon(got)))
                steps.append("R:" + what)
            else:   # labelled variant
                iname = lab_of[what]
                gi = tolists(attempt(lambda: getattr(obj, names["idx"][iname])))
                raw = attempt(lambda: getattr(obj, names["lab"][what]))
                after_step(arrays_of(raw), names["lab"][what])
                check_idx(iname, gi)
                eff = cur       # both objects must use the labels in force now (MarkovChain since /repo f4ee7b3)
                if isinstance(raw, str):
                    if raw != gi:
                        fail(kind + ":hist-labels", "%s raised but the indices variant gave %s" % (names["lab"][what], gi))
                    outs.append(raw)
                else:
                    gl = [list(np.asarray(c).tolist()) for c in raw]
                    def expect(L):
                        return [[(u if L is None else L[u]) for u in c] for c in gi]
                    if gl != expect(cur):
                        if kind == "mc" and gl == expect(frozen):
                            ctx.spec_fail("mc:stale-state-values",
                                          "%s = %s uses the state_values %s the digraph was built with, the chain's current state_values %s give %s"
                                          % (names["lab"][what], gl, frozen, cur, expect(cur)), dict(replay, steps=list(replay["steps"])))
                            ctx.count("hist:mc-stale-read")
                        else:
                            fail(kind + ":hist-labels", "%s = %s, but indices %s under the current labels %s give %s"
                                 % (names["lab"][what], gl, gi, cur, expect(cur)))
                    if (what in seen_lab_read) :
                        ctx.count("hist:labelled-read-repeated")
                    # canonical string in label codes (indices when the effective labels are None)
                    cls = [sorted(zip(c, [(x if eff is None else code(x)) for x in cl])) for c, cl in zip(gi, gl)] \
                        if len(gi) == len(gl) and all(len(c) == len(cl) for c, cl in zip(gi, gl)) else None
                    if cls is None:
                        outs.append("LABELLED-SHAPE-MISMATCH")
                    else:
                        if what == "cyclab":
                            for k_, c in enumerate(cls):
                                if 0 in [u for u, _ in c]:
                                    cls = cls[k_:] + cls[:k_]
                                    break
                        else:
                            cls.sort(key=lambda c: [u for u, _ in c])
                        outs.append(";".join(",".join(str(x) for _, x in c) for c in cls) if cls else "-")
                if what in seen_lab_read and any(st.startswith("L:") for st in steps[seen_last[what]:]):
                    ctx.count("hist:relabelled-between-two-reads-of-same-labelled-property")
                seen_lab_read.add(what)
                seen_last[what] = len(steps)
                steps.append("R:" + what)
            ctx.count("hist:read")
            after_step([], "reading " + str(what))
        if kind == "mc" and frozen != "unbuilt":
            # the model is told which labels the digraph froze (it derives them itself from the history)
            pass
        line += " steps=" + ("|".join(steps) if steps else "-")
        cases.append(Case(line, " # ".join(outs), nontrivial=(len(outs) >= 2), tag="hist-" + kind))
        ctx.count("hist:" + kind)

    # ---- ARGUMENT FORMS: the same graph handed over in every accepted representation --------------------------------
    def mc_report(mc, with_labels):
        rep = {
            "sc": bool(mc.is_irreducible),
            "nscc": int(mc.num_communication_classes),
            "nsink": int(mc.num_recurrent_classes),
            "scc": tolists(mc.communication_classes_indices),
            "sink": tolists(mc.recurrent_classes_indices),
            "period": attempt(lambda: int(mc.period)),
            "aper": attempt(lambda: bool(mc.is_aperiodic)),
            "cyc": tolists(attempt(lambda: mc.cyclic_classes_indices)),
        }
        if with_labels:
            def rawlists(x):
                return [list(np.asarray(c).tolist()) for c in x] if isinstance(x, list) else x
            rep["scc_lab"] = rawlists(mc.communication_classes)
            rep["sink_lab"] = rawlists(mc.recurrent_classes)
            rep["cyc_lab"] = rawlists(attempt(lambda: mc.cyclic_classes))
        return rep

    DENSE_LAYOUTS = ["list", "tuple", "C", "F", "strided", "reversed-view", "transposed-view"]
    INT_DTYPES = [np.bool_, np.int8, np.uint8, np.int16, np.int32, np.int64, np.uint64, np.intp, np.float32, np.float64]
    SPARSE_FORMATS = ["csr", "csc", "coo", "lil", "bsr", "dia", "dok"]

    def layout(M, how):
        """the matrix M (ndarray) in the requested Python / memory layout"""
        if how == "list":
            return M.tolist()
        if how == "tuple":
            return tuple(tuple(r) for r in M.tolist())
        if how == "C":
            return np.ascontiguousarray(M)
        if how == "F":
            return np.asfortranarray(M)
        if how == "strided":
            big = np.zeros((2 * M.shape[0], 3 * M.shape[1]), dtype=M.dtype)
            big[::2, ::3] = M
            return big[::2, ::3]
        if how == "reversed-view":
            return np.ascontiguousarray(M[::-1, ::-1])[::-1, ::-1]
        return np.ascontiguousarray(M.T).T       # transposed-view

    def sparse_form(M, fmt, idx_dtype, zeros):
        """M in a SciPy format; `zeros`: some non-edges are stored explicitly with value 0"""
        n = M.shape[0]
        ent = [(i, j, M[i, j]) for i in range(n) for j in range(n) if M[i, j] != 0]
        if zeros:
            free = [(i, j) for i in range(n) for j in range(n) if M[i, j] == 0]
            ent += [(i, j, 0) for (i, j) in rng.sample(free, min(len(free), rng.randint(1, 3)))]
            rng.shuffle(ent)
        coo = sparse.coo_matrix((np.array([e[2] for e in ent], dtype=M.dtype),
                                 (np.array([e[0] for e in ent], dtype=idx_dtype), np.array([e[1] for e in ent], dtype=idx_dtype))),
                                shape=(n, n))
        if fmt == "coo":
            return coo
        if fmt in ("lil", "dok", "dia"):        # these formats do not store explicit zeros / have no index dtype choice
            return coo.asformat(fmt)
        X = coo.asformat(fmt)
        if fmt in ("csr", "csc", "bsr") and idx_dtype is np.int64:
            X.indices = X.indices.astype(np.int64)
            X.indptr = X.indptr.astype(np.int64)
        return X

    def label_form(labels):
        if labels is None:
            return None, "none"
        how = rng.choice(["list", "tuple", "int64", "int8", "int32", "strided", "reversed-view"])
        if how == "list":
            return list(labels), how
        if how == "tuple":
            return tuple(labels), how
        if how == "strided":
            big = np.zeros(3 * len(labels), dtype=int)
            big[::3] = labels
            return big[::3], how
        if how == "reversed-view":
            return np.array(labels[::-1])[::-1], how
        return np.array(labels, dtype={"int64": np.int64, "int8": np.int8, "int32": np.int32}[how]), how

    def forms_case(A):
        n = len(A)
        rows = [[j for j in range(n) if A[i][j]] for i in range(n)]
        kind = "mc" if (all(any(r) for r in A) and rng.random() < 0.4) else "dg"
        labels = rng.sample(range(-40, 60), n) if rng.random() < 0.4 else None
        weighted = kind == "dg" and rng.random() < 0.4
        if kind == "mc":
            W = [[(rng.choice([1, 2, 4]) if A[i][j] else 0) for j in range(n)] for i in range(n)]
            tot = [rng.choice([x for x in (4, 8, 16) if x >= sum(w)] or [sum(w)]) for w in W]
            for i in range(n):                   # dyadic rows that sum to one exactly, also in float32
                j = next(j for j in range(n) if A[i][j])
                W[i][j] += tot[i] - sum(W[i])
            M = np.array([[W[i][j] / tot[i] for j in range(n)] for i in range(n)])
            dtypes = [np.float64, np.float32]
        elif weighted:
            M = np.array(A, dtype=float) * np.array([[rng.choice([0.25, 0.5, 1.0, 2.0, 3.5]) for _ in range(n)] for _ in range(n)])
            dtypes = [np.float64, np.float32]
        else:
            M = np.array(A, dtype=int)
            dtypes = INT_DTYPES
        dt = rng.choice(dtypes)
        Md = M.astype(dt)
        if rng.random() < 0.5:
            how = rng.choice(DENSE_LAYOUTS)
            arg = layout(Md, how)
            form = "dense:%s:%s" % (how, np.dtype(dt).name)
        else:
            fmt = rng.choice(SPARSE_FORMATS)
            idt = rng.choice([np.int32, np.int64])
            zeros = rng.random() < 0.4
            if dt is np.bool_ and fmt in ("bsr", "dia"):
                Md = M.astype(np.int8)
            arg = sparse_form(Md, fmt, idt, zeros)
            form = "sparse:%s:%s:%s%s" % (fmt, np.dtype(Md.dtype).name, np.dtype(idt).name, ":zeros" if zeros else "")
        lab, labhow = label_form(labels)
        if os.environ.get('C03_DEBUG'): print('FORM', kind, form, A, flush=True)
        snaps = [Snapshot(arg)] + ([Snapshot(lab)] if lab is not None else [])
        replay = {"op": kind, "form": form, "labels_form": labhow, "weighted": bool(weighted), "n": n,
                  "adj": [list(map(int, r)) for r in A], "labels": labels,
                  "matrix": [[float(x) for x in r] for r in M.tolist()]}
        try:
            if kind == "dg":
                style = rng.randrange(4)
                if style == 0 and not weighted and lab is None:
                    obj = DiGraph(arg)
                elif style == 1:
                    obj = DiGraph(arg, bool(weighted), lab)                      # positional
                elif style == 2:
                    obj = DiGraph(arg, weighted=np.bool_(weighted), node_labels=lab)
                else:
                    obj = DiGraph(adj_matrix=arg, node_labels=lab, weighted=int(weighted))
                ctx.count("forms:dg-call-style-%d" % style)
            else:
                obj = MarkovChain(arg, lab) if rng.random() < 0.5 else MarkovChain(P=arg, state_values=lab)
        except Exception as e:       # a legal representation of a legal input must be accepted
            ctx.spec_fail("form-rejected:%s:%s:%s" % (kind, form.split(":")[0], form.split(":")[1]),
                     "%s(%s) raised %s: %s" % ("DiGraph" if kind == "dg" else "MarkovChain", form, type(e).__name__, str(e)[:200]),
                     replay)
            return
        if kind == "dg":
            # a tuple of tuples is array_like, but scipy's csr_matrix reads tuples as (data, indices, indptr) / (data, ij) /
            # shape: never read from an object whose CSR structure is corrupt (toarray / connected_components would crash)
            cg = obj.csgraph
            sane = (obj.n == n and len(cg.indptr) == n + 1 and cg.indptr[0] == 0 and all(np.diff(cg.indptr) >= 0)
                    and cg.indptr[-1] == len(cg.indices) == len(cg.data) and all(0 <= int(j) < n for j in cg.indices))
            if not sane:
                ctx.spec_fail("dg-adjacency-misread:" + form.split(":")[1],
                         "DiGraph(%s) built a graph with n=%s, indptr=%s instead of the %dx%d matrix" % (form, obj.n, cg.indptr.tolist(), n, n),
                         replay)
                return
        try:
            rep = dg_report(obj, lab is not None) if kind == "dg" else mc_report(obj, lab is not None)
        except Exception as e:
            ctx.spec_fail("form-read-failed:%s:%s:%s" % (kind, form.split(":")[0], form.split(":")[1]),
                     "reading the properties of %s(%s) raised %s: %s" % (kind, form, type(e).__name__, str(e)[:200]), replay)
            return
        rep["labels"] = labels
        replay["reported"] = dict(rep)
        for sn in snaps:
            why = sn.changed()
            if why:
                ctx.spec_fail(kind + ":mutated-input", "argument in form %s / labels %s was modified: %s" % (form, labhow, why), replay)
        spec(kind, kind + ":", A, rep, replay)
        if kind == "dg":
            sstr = dg_string(rep, labels)
        else:
            a, b, c = class_strings(rep, labels)
            aper = rep["aper"]
            sstr = "irr=%d ncomm=%d nrec=%d comm=%s rec=%s period=%s aper=%s cyc=%s" % (
                rep["sc"], rep["nscc"], rep["nsink"], a, b, rep["period"], int(aper) if isinstance(aper, bool) else aper, c)
        line = "C03 %s n=%d adj=%s" % (kind, n, adj_str(rows))
        if labels is not None:
            line += " labels=" + ",".join(str(x) for x in labels)
        cases.append(Case(line, sstr, nontrivial=(n >= 2), tag="forms-" + kind))
        ctx.count("forms:" + form.rsplit(":", 1)[0] if form.startswith("dense") else "forms:" + ":".join(form.split(":")[:2]))
        ctx.count("forms:labels-" + labhow)
        # subgraph with the node list in every integer representation
        if kind == "dg":
            nodes = rng.sample(range(n), rng.randint(1, n))
            nd = rng.choice(["list", "tuple", np.int8, np.uint8, np.int16, np.uint16, np.int32, np.uint32, np.int64, np.uint64, np.intp,
                             "strided", "reversed-view"])
            if nd == "list":
                narg = list(nodes)
            elif nd == "tuple":
                narg = tuple(nodes)
            elif nd == "strided":
                big = np.zeros(2 * len(nodes), dtype=int); big[::2] = nodes; narg = big[::2]
            elif nd == "reversed-view":
                narg = np.array(nodes[::-1])[::-1]
            else:
                narg = np.array(nodes, dtype=nd)
            ndname = nd if isinstance(nd, str) else np.dtype(nd).name
            nsnap = Snapshot(narg)
            rp = dict(replay, op="sub", nodes=nodes, nodes_form=ndname)
            try:
                h = obj.subgraph(narg)
            except Exception as e:
                ctx.spec_fail("subgraph-nodes-form-rejected:" + ndname,
                         "subgraph(nodes as %s) raised %s: %s" % (ndname, type(e).__name__, str(e)[:200]), rp)
                return
            if nsnap.changed():
                ctx.spec_fail("sub:mutated-input", "subgraph modified its nodes argument (%s)" % ndname, rp)
            k = len(nodes)
            Asub = [[int(A[u][v]) for v in nodes] for u in nodes]
            got = (h.csgraph.toarray() != 0).astype(int).tolist()
            sublabels = None if labels is None else [labels[u] for u in nodes]
            hl = None if h.node_labels is None else [int(x) for x in h.node_labels]
            if h.n != k or got != Asub:
                ctx.spec_fail("sub:pattern", "subgraph(%s as %s) has pattern %s, expected %s" % (nodes, ndname, got, Asub), rp)
            if hl != sublabels:
                ctx.spec_fail("sub:labels", "subgraph(%s as %s) has labels %s, expected %s" % (nodes, ndname, hl, sublabels), rp)
            if any(share(a, b) for a in arrays_of(h) for b in arrays_of(obj) + arrays_of(narg) + arrays_of(arg)):
                ctx.spec_fail("sub:alias-state", "subgraph(%s) shares memory with its parent, its input or the nodes argument" % nodes, rp)
            srep = dg_report(h, sublabels is not None)
            srep["labels"] = sublabels
            spec("dg", "sub:", Asub, srep, rp)
            srows = [[j for j in range(k) if got[i][j]] for i in range(k)]
            sline = "C03 sub n=%d adj=%s nodes=%s" % (n, adj_str(rows), ",".join(map(str, nodes)))
            if labels is not None:
                sline += " labels=" + ",".join(str(x) for x in labels)
            cases.append(Case(sline, "n=%d adj=%s %s" % (h.n, adj_str(srows), dg_string(srep, sublabels)), nontrivial=(k >= 2), tag="forms-sub"))
            ctx.count("forms:sub-nodes-" + ndname)

    if r is None:
        for A0 in ([[1]], [[0]], [[0, 1], [1, 0]], [[1, 0], [1, 1]]):
            for _ in range(ctx.n(10, 40)):
                forms_case(A0)
        for _ in range(ctx.n(1200, 8000)):
            forms_case(small_graph() if rng.random() < 0.8 else [[rng.randint(0, 1) for _ in range(3)] for _ in range(3)])

    # ---- constructors: argument validation (error branches and their order) -----------------------------------------
    from fractions import Fraction as Fr

    def lab_arg(n):
        """a labels argument: mostly valid, sometimes of the wrong length / dimension / dtype"""
        k = rng.randrange(9)
        if k <= 1:
            return None
        if k == 2:
            return rng.sample(range(-20, 40), n)
        if k == 3:
            return np.arange(2 * n).reshape(n, 2)                 # 2-d with the right first axis: accepted
        if k == 4:
            return list(range(n + rng.choice([-1, 1, 2]))) if n > 1 else [1, 2]
        if k == 5:
            return 5                                              # 0-d
        if k == 6:
            return np.array([None] * n, dtype=object)
        if k == 7:
            return np.array([None] * (n + 1), dtype=object)       # wrong length AND object: the length test is first
        return np.arange(3 * (n + 1)).reshape(n + 1, 3)

    def init_case():
        kind = rng.choice(["dg", "mc"])
        if kind == "dg":
            shp = rng.choice([(1, 1), (2, 2), (3, 3), (4, 4), (2, 3), (3, 2), (1, 4), (3,), (1,), (4, 1)])
            M = np.ones(shp, dtype=rng.choice([bool, int, float]))
            n_eff = shp[-1]
            lab = lab_arg(n_eff)
            summ, _ = label_summary(lab)
            arg = M if rng.random() < 0.6 or len(shp) == 1 else sparse.csr_matrix(M)
            if len(shp) == 1:
                want = None if shp[0] == 1 else "not-square"
            else:
                want = None if shp[0] == shp[1] else "not-square"
            if want is None:
                want = expected_label_error(n_eff, lab)
            try:
                g = DiGraph(arg, node_labels=lab)
                got = "ok n=%d" % g.n
            except ValueError as e:
                got = err_code(e)
            line = "C03 init kind=dg shape=%s lab=%s" % (",".join(map(str, shp)), summ)
            wants = "ok n=%d" % n_eff if want is None else "ERR:ValueError:" + want
            rp = {"op": "init", "kind": "dg", "shape": list(shp), "labels": repr(lab)}
        else:
            n = rng.randint(1, 4)
            shape_kind = rng.choice(["square"] * 6 + ["wide", "tall", "1d", "3d"])
            if shape_kind == "square":
                rows, cols = n, n
            elif shape_kind == "wide":
                rows, cols = n, n + 1
            elif shape_kind == "tall":
                rows, cols = n + 1, n
            else:
                rows, cols = 1, n
            # dyadic rows summing to one exactly
            P = []
            for _ in range(rows):
                w = [rng.randint(0, 3) for _ in range(cols)]
                if sum(w) == 0:
                    w[rng.randrange(cols)] = 1
                tot = 1
                while tot < sum(w):
                    tot *= 2
                w[max(range(cols), key=lambda j: w[j])] += tot - sum(w)
                P.append([Fr(x, tot) for x in w])
            pert = rng.choice(["none"] * 4 + ["negative", "sum", "both", "sum-small"])
            if pert in ("negative", "both"):
                i = rng.randrange(rows); j = rng.randrange(cols)
                dlt = Fr(1, 2 ** rng.choice([1, 4, 20]))
                P[i][j] -= (P[i][j] + dlt)                   # entry becomes -dlt
                if pert == "negative":                      # keep the row sum at one
                    j2 = (j + 1) % cols if cols > 1 else j
                    if j2 != j:
                        P[i][j2] += 1 - sum(P[i])
            if pert in ("sum", "both"):
                i = rng.randrange(rows); j = rng.randrange(cols)
                P[i][j] += rng.choice([1, -1]) * Fr(1, 2 ** rng.choice([16, 10, 3])) if P[i][j] > Fr(1, 4) or True else 0
            if pert == "sum-small":                          # inside the allclose tolerance
                i = rng.randrange(rows); j = rng.randrange(cols)
                P[i][j] += Fr(1, 2 ** rng.choice([17, 20, 30]))
            Pf = np.array([[float(x) for x in r] for r in P])
            if shape_kind == "1d":
                Pf = Pf[0]; shp = (cols,)
            elif shape_kind == "3d":
                Pf = np.stack([Pf, Pf]); shp = Pf.shape
            else:
                shp = (rows, cols)
            lab = lab_arg(shp[0])
            summ, _ = label_summary(lab)
            use_sparse = len(shp) == 2 and rng.random() < 0.4
            arg = sparse.csr_matrix(Pf) if use_sparse else (Pf if rng.random() < 0.7 else Pf.tolist())
            # the definition, exactly
            if len(shp) != 2 or shp[0] != shp[1]:
                want = "not-square"
            elif any(x < 0 for r in P for x in r):
                want = "negative"
            elif any(abs(sum(r) - 1) > Fr(10001, 10 ** 9) for r in P):
                want = "row-sums"
            else:
                want = expected_label_error(shp[0], lab)
            try:
                mc = MarkovChain(arg, state_values=lab)
                got = "ok n=%d" % mc.n
            except ValueError as e:
                got = err_code(e)
            flat = Pf.reshape(-1, Pf.shape[-1]) if Pf.ndim != 2 else Pf
            from .common import fxm
            line = "C03 init kind=mc shape=%s P=%s lab=%s" % (",".join(map(str, shp)), fxm(flat.tolist()), summ)
            wants = "ok n=%d" % shp[0] if want is None else "ERR:ValueError:" + want
            rp = {"op": "init", "kind": "mc", "shape": list(shp), "P": [[str(x) for x in r] for r in P], "sparse": use_sparse,
                  "labels": repr(lab)}
            ctx.count("init:mc-perturbation-" + pert)
        if got != wants:
            ctx.spec_fail("init:" + kind, "constructor outcome %s, the documented checks in their order give %s" % (got, wants), rp)
        cases.append(Case(line, got, nontrivial=True, tag="init-" + kind))
        ctx.count("init:%s:%s" % (kind, wants if wants.startswith("ERR") else "ok"))

    if r is None:
        for _ in range(ctx.n(600, 4000)):
            init_case()

    seen_last = {}
    if r is not None:      # --replay of a recorded history
        history(r["adj"], r["kind"], script=r)
        ctx.run_cases(cases)
        return
    def safe_history(A, kind):
        """an exception escaping the library in the middle of a legal history is a violation with that history's graph"""
        seen_last.clear()
        try:
            history(A, kind)
        except Exception as e:
            import traceback
            ctx.spec_fail(kind + ":hist-exception", "the library raised %s: %s during a legal history" % (type(e).__name__, str(e)[:200]),
                          {"op": "hist", "kind": kind, "n": len(A), "adj": [list(map(int, r_)) for r_ in A],
                           "traceback": traceback.format_exc()[-1500:]})

    for A0 in ([[1]], [[0, 1], [1, 0]], [[1, 1], [0, 1]]):
        for kind in ("dg", "mc"):
            for _ in range(ctx.n(6, 30)):
                safe_history(A0, kind)
    for _ in range(ctx.n(500, 5000)):
        A = small_graph()
        safe_history(A, "mc" if (all(any(r) for r in A) and rng.random() < 0.4) else "dg")

    # ---- malformed stream (error paths of the constructors; no model counterpart) -------------------------
    for bad, exc in (((lambda: DiGraph(np.ones((2, 3)))), ValueError),
                     ((lambda: DiGraph(np.ones((2, 2)), node_labels=[1, 2, 3])), ValueError),
                     ((lambda: MarkovChain(np.array([[0.5, 0.4], [0.5, 0.5]]))), ValueError),
                     ((lambda: MarkovChain(np.array([[1.5, -0.5], [0.5, 0.5]]))), ValueError),
                     ((lambda: MarkovChain(np.ones((2, 3)) / 3)), ValueError),
                     ((lambda: DiGraph(sparse.csr_matrix(np.ones((2, 3))))), ValueError),
                     ((lambda: DiGraph(np.ones((2, 2)), node_labels=[1, "a"][:1] + [None])), ValueError),
                     ((lambda: MarkovChain(np.eye(2), state_values=[1, 2, 3])), ValueError),
                     ((lambda: MarkovChain(sparse.csr_matrix(np.array([[0.5, 0.6], [1.0, 0.0]])))), ValueError)):
        try:
            bad()
            ctx.spec_fail("constructor", "malformed input accepted", {"op": "malformed"})
        except exc:
            ctx.count("malformed:" + exc.__name__)

    ctx.assumptions += [
        "SciPy connected_components / breadth_first_order / reconstruct_path are not read: the model's own SCC (frontier "
        "saturation, proved) and queue BFS (proved complete) are compared with them by output",
        "edges = non-zero entries; weighted graphs are generated with positive weights only (the property's positive-entry graph)",
        "the n<=12 random families (and 13..20 in the thorough tier) are sampled, only n<=3 / n<=4 is exhaustive",
    ]
    ctx.run_cases(cases)


# ----------------------------------------------------------------------------------------------
# ./check C03 --replay <file>: re-run a recorded input on the real code, the oracle and the model


def replay(data):
    """exit 1 if the oracle (or the correspondence) still objects to what the real code does on the recorded input"""
    from . import common
    r = data.get("replay", data)
    if "adj" not in r:
        print(__import__("json").dumps(data, indent=1)[:4000])
        return 0
    common.ensure_driver("C03")
    ctx = common.Ctx("C03", "quick", 0, FILES)
    ctx.known = {}
    ctx.replay_only = r
    print("replaying %s (%s, n=%s): %s" % (r.get("op"), r.get("form"), r.get("n"), data.get("what", "")))
    run(ctx)
    for sf in ctx.spec_failures:
        print("STILL FAILS [%s]: %s" % (sf["key"], sf["what"]))
    for mm in ctx.mismatches:
        print("MODEL DIFFERS: %s\n  code : %s\n  model: %s" % (mm["request"], mm["code"], mm["model"]))
    if not ctx.spec_failures and not ctx.mismatches:
        print("now fine: the real code's answers satisfy the oracle and agree with the model")
        return 0
    return 1
