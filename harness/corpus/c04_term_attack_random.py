import random, subprocess, sys, collections
DRV='/verif/lean/.lake/build/bin/qedriver_c04'
def enc(v): return ",".join(str(e) for e in v) if v else "-"
def encm(A): return ";".join(enc(r) for r in A) if A else "-"
def gen(R, mode):
    n=R.randint(2,6)
    L=R.randint(2,5)
    k=R.randint(1,L) if mode!='ub' else 0
    m=L-k
    pz=R.choice([0.0,0.3,0.5,0.7])
    ent=lambda lo,hi: 0 if R.random()<pz else R.randint(lo,hi)
    Aeq=[[ent(-3,3) for _ in range(n)] for _ in range(k)]
    Aub=[[ent(-3,3) for _ in range(n)] for _ in range(m)]
    if mode=='zero':
        beq=[0]*k; bub=[0 if R.random()<0.8 else R.randint(0,2) for _ in range(m)]
    elif mode=='point':
        x0=[R.randint(0,1) if R.random()<0.5 else 0 for _ in range(n)]
        beq=[sum(a*b for a,b in zip(r,x0)) for r in Aeq]
        bub=[sum(a*b for a,b in zip(r,x0))+(0 if R.random()<0.7 else 1) for r in Aub]
    else:
        beq=[R.choice([0,0,0,1,-1]) for _ in range(k)]; bub=[R.choice([0,0,1,2]) for _ in range(m)]
    # dependent rows to leave artificials basic / force clean-up
    if k>=2 and R.random()<0.5:
        i,j=R.sample(range(k),2); s=R.choice([1,-1,2,-2])
        Aeq[j]=[max(-3,min(3,s*a)) for a in Aeq[i]]
        if all(abs(s*a)<=3 for a in Aeq[i]): beq[j]=s*beq[i]
    if k>=3 and R.random()<0.4:
        i,j,l=R.sample(range(k),3)
        row=[a+b for a,b in zip(Aeq[i],Aeq[j])]
        if all(abs(v)<=3 for v in row) and abs(beq[i]+beq[j])<=3:
            Aeq[l]=row; beq[l]=beq[i]+beq[j]
    c=[R.randint(-3,3) for _ in range(n)]
    if any(abs(v)>3 for v in beq+bub): return None
    return n,m,k,c,Aub,bub,Aeq,beq
def main(seed, count):
    R=random.Random(seed)
    lines=[]; lps=[]
    while len(lines)<count:
        g=gen(R,R.choice(['zero','zero','point','mixed','mixed']))
        if g is None: continue
        n,m,k,c,Aub,bub,Aeq,beq=g
        lines.append("C04 lpcycle rat n=%d m=%d k=%d c=%s Aub=%s bub=%s Aeq=%s beq=%s maxiter=3000 fea=0 piv=0 diff=0"%(n,m,k,enc(c),encm(Aub),enc(bub),encm(Aeq),enc(beq)))
        lps.append(g)
    out=subprocess.run([DRV],input="\n".join(lines)+"\n",capture_output=True,text=True).stdout.split("\n")
    cnt=collections.Counter(); maxp=0
    for g,o in zip(lps,out):
        d=dict(t.split("=") for t in o.split())
        cnt['st'+d['st']]+=1
        if d['lexok']=='0': cnt['lexok=0']+=1
        if int(d['cleanup'])>0: cnt['cleanup>0']+=1
        if int(d['negcleanup'])>0: cnt['negcleanup>0']+=1
        if d['lexok']=='0' and int(d['pivots'])>0: cnt['lexok=0 & phase2 pivots>0']+=1
        maxp=max(maxp,int(d['pivots']))
        if d['cycled']=='1' or (d['st']=='1'):
            print("CYCLE/STATUS1:", g, o); cnt['CYCLE']+=1
    print(seed, dict(cnt), 'max phase2 pivots', maxp, flush=True)
if __name__=='__main__':
    for s in range(int(sys.argv[1]), int(sys.argv[2])):
        main(s, 20000)
