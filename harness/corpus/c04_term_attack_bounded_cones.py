import random, subprocess, sys, collections
DRV='/verif/lean/.lake/build/bin/qedriver_c04'
def enc(v): return ",".join(str(e) for e in v)
def det(B):
    n=len(B)
    if n==1: return B[0][0]
    if n==2: return B[0][0]*B[1][1]-B[0][1]*B[1][0]
    return sum((-1)**j*B[0][j]*det([r[:j]+r[j+1:] for r in B[1:]]) for j in range(n))
def gen(R):
    L=R.choice([2,3,3,4,5]); nb=R.randint(4,12); lim=R.choice([1,2,3,5])
    while True:
        B=[[R.randint(-2,2) for _ in range(L)] for _ in range(L)]
        if det(B)!=0: break
    TN=[[R.randint(-lim,lim) for _ in range(nb)] for _ in range(L)]
    y=[R.randint(0,3) for _ in range(L)]
    delta=[R.choice([0,0,1,2,3]) for _ in range(nb)]
    crit=[sum(y[i]*TN[i][j] for i in range(L))-delta[j] for j in range(nb)]
    rows=[]
    for i in range(L):
        rows.append([1 if j==i else 0 for j in range(L)]+TN[i]+B[i]+[0])
    rows.append([0]*L+crit+[0]*L+[0])
    return L,rows
def main(seed,count):
    R=random.Random(seed)
    lines=[];st=[]
    for _ in range(count):
        L,rows=gen(R)
        lines.append("C04 tabcycle rat T=%s basis=%s skip=1 maxiter=3000 fea=0 piv=0 diff=0"%(";".join(enc(r) for r in rows),enc(range(L))))
        st.append(rows)
    out=subprocess.run([DRV],input="\n".join(lines)+"\n",capture_output=True,text=True).stdout.split("\n")
    cnt=collections.Counter();maxp=0;hist=collections.Counter()
    for g,o in zip(st,out):
        d=dict(t.split("=") for t in o.split())
        cnt['st'+d['st']]+=1
        if d['lexok']=='0': cnt['lexok=0']+=1
        p=int(d['pivots']); maxp=max(maxp,p)
        if p>=6: cnt['p>=6']+=1
        if d['cycled']=='1':
            cnt['CYCLE']+=1
            if cnt['CYCLE']<=3: print("CYCLE:",g,o,flush=True)
    print(seed,dict(cnt),'maxp',maxp,flush=True)
for s in range(int(sys.argv[1]),int(sys.argv[2])): main(s,20000)
