import random, subprocess, sys, collections
DRV='/verif/lean/.lake/build/bin/qedriver_c04'
def enc(v): return ",".join(str(e) for e in v) if v else "-"
def encm(A): return ";".join(enc(r) for r in A) if A else "-"
def gen(R, big):
    if big:
        n=R.randint(4,10); L=R.randint(3,7); lim=R.choice([1,2,3,5])
    else:
        n=R.randint(3,6); L=R.randint(2,5); lim=R.choice([1,2,3])
    k=R.randint(1,L); m=L-k
    pz=R.choice([0.0,0.2,0.4,0.6])
    ent=lambda: 0 if R.random()<pz else R.randint(-lim,lim)
    Aeq=[[ent() for _ in range(n)] for _ in range(k)]
    Aub=[[ent() for _ in range(n)] for _ in range(m)]
    beq=[0]*k; bub=[0]*m
    c=[R.randint(-lim,lim) for _ in range(n)]
    return n,m,k,c,Aub,bub,Aeq,beq
def main(seed, count, big):
    R=random.Random(seed*7919+(1 if big else 0))
    lines=[]; lps=[]
    for _ in range(count):
        g=gen(R,big); n,m,k,c,Aub,bub,Aeq,beq=g
        lines.append("C04 lpcycle rat n=%d m=%d k=%d c=%s Aub=%s bub=%s Aeq=%s beq=%s maxiter=3000 fea=0 piv=0 diff=0"%(n,m,k,enc(c),encm(Aub),enc(bub),encm(Aeq),enc(beq)))
        lps.append(g)
    out=subprocess.run([DRV],input="\n".join(lines)+"\n",capture_output=True,text=True).stdout.split("\n")
    cnt=collections.Counter(); maxp=0
    for g,o in zip(lps,out):
        d=dict(t.split("=") for t in o.split())
        cnt['st'+d['st']]+=1
        if d['lexok']=='0': cnt['lexok=0']+=1
        if d['lexok']=='0' and int(d['pivots'])>0: cnt['lexok=0&p2>0']+=1
        if d['lexok']=='0' and int(d['pivots'])>=3: cnt['lexok=0&p2>=3']+=1
        maxp=max(maxp,int(d['pivots']))
        if d['cycled']=='1' or d['st']=='1':
            print("CYCLE/STATUS1:", g, o, flush=True); cnt['CYCLE']+=1
    print(seed, 'big' if big else 'dom', dict(cnt), 'maxp2', maxp, flush=True)
if __name__=='__main__':
    big = sys.argv[3]=='big'
    for s in range(int(sys.argv[1]), int(sys.argv[2])):
        main(s, 20000, big)
