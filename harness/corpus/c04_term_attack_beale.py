import itertools, subprocess, collections
DRV='/verif/lean/.lake/build/bin/qedriver_c04'
def enc(v): return ",".join(str(e) for e in v)
A=[["1/4","-8","-1","9"],["1/2","-12","-1/2","3"],["0","0","1","0"]]
c=["3/4","-20","1/2","-6"]
rhs=["0","0","1"]
lines=[];Bs=[]
for vals in itertools.product(range(-2,3),repeat=6):
    B=[list(vals[:3]),list(vals[3:]),[0,0,1]]
    d=B[0][0]*B[1][1]-B[0][1]*B[1][0]
    if d==0: continue
    rows=[]
    for i in range(3):
        rows.append(A[i]+[ "1" if j==i else "0" for j in range(3)]+[str(v) for v in B[i]]+[rhs[i]])
    rows.append(c+["0"]*3+["0"]*3+["0"])
    lines.append("C04 tabcycle rat T=%s basis=4,5,6 skip=1 maxiter=500 fea=0 piv=0 diff=0"%(";".join(enc(r) for r in rows)))
    Bs.append(B)
out=subprocess.run([DRV],input="\n".join(lines)+"\n",capture_output=True,text=True).stdout.split("\n")
cnt=collections.Counter()
for B,o in zip(Bs,out):
    d=dict(t.split("=") for t in o.split())
    cnt[(d['st'],d['cycled'],d['pivots'])]+=1
    if d['cycled']=='1' and cnt['shown']<5:
        cnt['shown']+=1; print("CYCLE with block",B,o)
print(len(Bs),dict(cnt))
