import itertools, subprocess, sys, collections
DRV='/verif/lean/.lake/build/bin/qedriver_c04'
def enc(v): return ",".join(str(e) for e in v) if v else "-"
def encm(A): return ";".join(enc(r) for r in A) if A else "-"
def run(lines,cnt,tag):
    out=subprocess.run([DRV],input="\n".join(lines)+"\n",capture_output=True,text=True).stdout.split("\n")
    for l,o in zip(lines,out):
        d=dict(t.split("=") for t in o.split())
        cnt['n']+=1; cnt['st'+d['st']]+=1
        if d['lexok']=='0': cnt['lexok=0']+=1
        if d['lexok']=='0' and int(d['pivots'])>0: cnt['lexok=0&p2>0']+=1
        cnt['maxp2']=max(cnt['maxp2'],int(d['pivots']))
        if d['cycled']=='1' or d['st']=='1':
            cnt['CYCLE']+=1; print("CYCLE",tag,l,o,flush=True)
def scope(n,m,k,ents,cs,bvals,tag):
    cnt=collections.Counter(); lines=[]
    for a in itertools.product(ents,repeat=(m+k)*n):
        rows=[list(a[i*n:(i+1)*n]) for i in range(m+k)]
        for c in itertools.product(cs,repeat=n):
          for b in bvals:
            lines.append("C04 lpcycle rat n=%d m=%d k=%d c=%s Aub=%s bub=%s Aeq=%s beq=%s maxiter=2000 fea=0 piv=0 diff=0"%(n,m,k,enc(c),encm(rows[:m]),enc(b[:m]),encm(rows[m:]),enc(b[m:])))
            if len(lines)>=50000: run(lines,cnt,tag); lines=[]
    if lines: run(lines,cnt,tag)
    print(tag,dict(cnt),flush=True)
which=sys.argv[1]
if which=='a': scope(3,0,2,range(-2,3),[-1,0,1],[(0,0)],'n3k2 |a|<=2 b=0')
if which=='b': scope(4,0,2,[-1,0,1],[-1,0,1],[(0,0)],'n4k2 |a|<=1 b=0')
if which=='c': scope(3,0,3,[-1,0,1],[-1,0,1],[(0,0,0)],'n3k3 |a|<=1 b=0')
if which=='d': scope(3,1,2,[-1,0,1],[-1,0,1],[(0,0,0)],'n3m1k2 |a|<=1 b=0')
if which=='e': scope(3,0,2,[-1,0,1],[-1,1],[(0,0),(0,1),(1,0),(1,1),(-1,1),(1,-1)],'n3k2 |a|<=1 b in{-1,0,1}')
